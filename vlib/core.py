"""
Common machinery for all checks: observation object, case hashing, replay files, known findings,
Hypothesis driver with bounded shrinking, shard driver, evidence writer, exit-code discipline.

A check module (checks/cNN_*.py) provides:

    ID            "C06"
    LEVEL         "exploration" | "fault_enumeration"
    RULE          words: generator + what makes a case non-trivial
    ASSUMPTIONS   list of strings
    BUDGET        {"quick": <examples>, "thorough": <examples per shard>}
    strategy(tier, known)   -> Hypothesis strategy of JSON-able cases; `known` is the set of signatures
                               of *known* (not fixed) findings to steer around by construction
    run_case(case, obs)     -> runs the real code, reports through obs
  optional:
    enumerate_cases(tier)   -> iterable of cases of an exhaustively enumerated sub-domain
    PROBES                  {signature: case} one fixed probe per finding (known or fixed)
    is_excluded(case, known)-> True when a drawn case lies in a known-finding region (counted, skipped)
    SHARDS                  number of processes for the thorough tier (default 16)
    setup() / teardown()
"""
from __future__ import annotations

import collections
import hashlib
import json
import os
import subprocess
import sys
import time
import traceback

VERIF_ROOT = os.path.dirname(os.path.dirname(os.path.abspath(__file__)))


class HarnessError(Exception):
    """Something is wrong with the harness itself (never reported as a violation)."""


class Obs:
    """What run_case observed for one case."""

    __slots__ = ("violations", "classes", "nontrivial", "inconclusive", "info")

    def __init__(self):
        self.violations = []  # list of (signature, message)
        self.classes = set()
        self.nontrivial = False
        self.inconclusive = None
        self.info = {}

    def violation(self, signature, message=""):
        self.violations.append((str(signature), str(message)[:2000]))

    def check(self, cond, signature, message=""):
        if not cond:
            self.violation(signature, message() if callable(message) else message)
        return cond

    def cls(self, *labels):
        for l in labels:
            self.classes.add(str(l))

    def mark_nontrivial(self, flag=True):
        if flag:
            self.nontrivial = True


def canonical(case):
    return json.dumps(case, sort_keys=True, separators=(",", ":"), default=_json_default)


def _json_default(o):
    if isinstance(o, (set, frozenset)):
        return sorted(o)
    if isinstance(o, bytes):
        return {"__bytes__": o.hex()}
    if isinstance(o, tuple):
        return list(o)
    raise TypeError(f"case is not JSON-able: {type(o)}")


def case_hash(case):
    return hashlib.sha1(canonical(case).encode("utf-8")).hexdigest()[:16]


def jsonable(case):
    """round trip through JSON so that what is replayed is exactly what is stored"""
    return json.loads(canonical(case))


# --------------------------------------------------------------------------------------------------
# repo location
# --------------------------------------------------------------------------------------------------
def use_repo(repo_dir):
    repo_dir = os.path.abspath(repo_dir)
    if repo_dir in sys.path:
        sys.path.remove(repo_dir)
    sys.path.insert(0, repo_dir)
    import esrally  # noqa

    actual = os.path.dirname(os.path.dirname(os.path.abspath(esrally.__file__)))
    if os.path.realpath(actual) != os.path.realpath(repo_dir):
        raise HarnessError(f"esrally imported from {actual}, expected {repo_dir}")
    return repo_dir


# --------------------------------------------------------------------------------------------------
# known findings
# --------------------------------------------------------------------------------------------------
class KnownFindings:
    def __init__(self, path=None):
        path = path or os.path.join(VERIF_ROOT, "known_findings.json")
        self.entries = []
        if os.path.exists(path):
            with open(path, encoding="utf-8") as f:
                self.entries = json.load(f).get("findings", [])
        # proposals awaiting review (merged into known_findings.json by the lead)
        ddir = os.path.join(VERIF_ROOT, "known_findings.d")
        if os.path.isdir(ddir):
            for name in sorted(os.listdir(ddir)):
                if name.endswith(".json"):
                    with open(os.path.join(ddir, name), encoding="utf-8") as f:
                        self.entries.extend(json.load(f).get("findings", []))

    def for_property(self, pid, status=None):
        return [e for e in self.entries if e["property"] == pid and (status is None or e["status"] == status)]

    def known_signatures(self, pid):
        return {e["signature"] for e in self.for_property(pid, "known")}


def signature_matches(sig, known_sigs):
    # a known signature matches itself or, when it ends with '*', any signature with that prefix
    for k in known_sigs:
        if k.endswith("*"):
            if sig.startswith(k[:-1]):
                return True
        elif sig == k:
            return True
    return False


# --------------------------------------------------------------------------------------------------
# running one case
# --------------------------------------------------------------------------------------------------
def _crash_signature(exc):
    """signature for an exception escaping the code under test: innermost esrally frame"""
    tb = traceback.extract_tb(exc.__traceback__)
    inner = None
    for fr in tb:
        fn = fr.filename.replace("\\", "/")
        if "/esrally/" in fn and "/verif/" not in fn:
            inner = fr
    if inner is None:
        return None
    mod = inner.filename.replace("\\", "/").split("/esrally/", 1)[1]
    return f"crash/{type(exc).__name__}@{mod}:{inner.name}"


def execute(check, case):
    obs = Obs()
    try:
        check.run_case(case, obs)
    except HarnessError:
        raise
    except (KeyboardInterrupt, SystemExit):
        raise
    except BaseException as e:  # pylint: disable=broad-except
        sig = _crash_signature(e)
        if sig is None:
            raise HarnessError(
                f"exception outside the code under test while running a case: {type(e).__name__}: {e}\n"
                + "".join(traceback.format_exception(type(e), e, e.__traceback__))
            ) from e
        obs.violation(sig, "".join(traceback.format_exception(type(e), e, e.__traceback__))[-1800:])
    return obs


# --------------------------------------------------------------------------------------------------
# statistics of one run (mergeable across shards)
# --------------------------------------------------------------------------------------------------
class Stats:
    def __init__(self):
        self.evaluations = 0
        self.nontrivial_hashes = set()
        self.distinct_hashes = set()
        self.classes = collections.Counter()
        self.samples = []  # nontrivial, small
        self.fallback_samples = []
        self.excluded_known = 0
        self.known_hits = collections.Counter()  # violations matching a known finding (should be ~0: excluded by construction)
        self.inconclusive = collections.Counter()
        self.violations = []  # list of dicts {signature, message, case}
        self.exhaustive_cases = 0
        self.replayed = 0
        self.budget_exhausted = False

    def record(self, case, obs, h=None, keep_sample=True):
        self.evaluations += 1
        h = h or case_hash(case)
        self.distinct_hashes.add(h)
        for c in obs.classes:
            self.classes[c] += 1
        if obs.inconclusive:
            self.inconclusive[obs.inconclusive] += 1
        if obs.nontrivial:
            new = h not in self.nontrivial_hashes
            self.nontrivial_hashes.add(h)
            if keep_sample and new and len(self.samples) < 4:
                c = canonical(case)
                if len(c) <= 6000:
                    self.samples.append(json.loads(c))
        elif keep_sample and len(self.fallback_samples) < 2:
            c = canonical(case)
            if len(c) <= 6000:
                self.fallback_samples.append(json.loads(c))

    def to_json(self):
        return {
            "evaluations": self.evaluations,
            "nontrivial_hashes": sorted(self.nontrivial_hashes),
            "distinct": len(self.distinct_hashes),
            "classes": dict(self.classes),
            "samples": self.samples,
            "fallback_samples": self.fallback_samples,
            "excluded_known": self.excluded_known,
            "known_hits": dict(self.known_hits),
            "inconclusive": dict(self.inconclusive),
            "violations": self.violations,
            "exhaustive_cases": self.exhaustive_cases,
            "replayed": self.replayed,
            "budget_exhausted": self.budget_exhausted,
        }

    def merge_json(self, d):
        self.evaluations += d["evaluations"]
        self.nontrivial_hashes.update(d["nontrivial_hashes"])
        self._distinct_extra = getattr(self, "_distinct_extra", 0) + d["distinct"]
        self.classes.update(d["classes"])
        for s in d["samples"]:
            if len(self.samples) < 5:
                self.samples.append(s)
        for s in d["fallback_samples"]:
            if len(self.fallback_samples) < 2:
                self.fallback_samples.append(s)
        self.excluded_known += d["excluded_known"]
        self.known_hits.update(d["known_hits"])
        self.inconclusive.update(d["inconclusive"])
        self.violations.extend(d["violations"])
        self.exhaustive_cases += d["exhaustive_cases"]
        self.replayed += d["replayed"]
        self.budget_exhausted = self.budget_exhausted or d["budget_exhausted"]


# --------------------------------------------------------------------------------------------------
# replay files
# --------------------------------------------------------------------------------------------------
def load_replay(path):
    with open(path, encoding="utf-8") as f:
        d = json.load(f)
    if isinstance(d, dict) and "case" in d:
        return d
    return {"case": d}


def _out_root():
    # the mutation audit redirects what a run writes (evidence, found replays) so that it does not touch the registered outputs
    return os.environ.get("VERIF_OUT_DIR") or VERIF_ROOT


def write_found(pid, signature, message, case):
    d = os.path.join(_out_root(), "found", pid)
    os.makedirs(d, exist_ok=True)
    name = hashlib.sha1((signature + canonical(case)).encode()).hexdigest()[:12] + ".json"
    path = os.path.join(d, name)
    with open(path, "w", encoding="utf-8") as f:
        json.dump({"property": pid, "signature": signature, "message": message, "case": jsonable(case)}, f, indent=1, sort_keys=True)
    return path


# --------------------------------------------------------------------------------------------------
# Hypothesis driver
# --------------------------------------------------------------------------------------------------
SHRINK_BUDGET_S = float(os.environ.get("VERIF_SHRINK_S", "45"))
MAX_ROOT_CAUSES = 4


def generated_search(check, tier, seed, examples, known_sigs, stats, wall_budget_s=None):
    """
    Runs Hypothesis over check.strategy(). Finds up to MAX_ROOT_CAUSES distinct violation signatures:
    when one is found it is shrunk (bounded), recorded, then the search is repeated with that signature muted.
    """
    import hypothesis
    from hypothesis import HealthCheck, Phase, given, settings

    muted = set()
    t_start = time.monotonic()
    is_excluded = getattr(check, "is_excluded", None)

    for round_no in range(MAX_ROOT_CAUSES):
        state = {"target": None, "best": None, "best_len": None, "best_hash": None, "t_first": None, "msg": None}

        def body(case):
            if wall_budget_s is not None and state["target"] is None and time.monotonic() - t_start > wall_budget_s:
                stats.budget_exhausted = True
                return
            if is_excluded is not None and known_sigs and is_excluded(case, known_sigs):
                stats.excluded_known += 1
                return
            h = case_hash(case)
            shrinking = state["target"] is not None
            if shrinking and time.monotonic() - state["t_first"] > SHRINK_BUDGET_S:
                # shrink budget used up: only the best case found so far keeps failing, so that Hypothesis terminates
                if h == state["best_hash"]:
                    raise AssertionError(state["target"])
                return
            obs = execute(check, case)
            if not shrinking:
                stats.record(case, obs, h)
            fresh = []
            for sig, msg in obs.violations:
                if signature_matches(sig, known_sigs):
                    if _region_is_exact(check, sig):
                        # the case was not excluded, i.e. it lies outside the region of the known finding: a different violation
                        sig, msg = sig + OUTSIDE, msg + " [signature of a known finding, but this case lies outside the region that finding is recorded for]"
                    else:
                        if not shrinking:
                            stats.known_hits[sig] += 1
                        continue
                if sig in muted:
                    continue
                fresh.append((sig, msg))
            if not fresh:
                return
            if state["target"] is None:
                state["target"] = fresh[0][0]
                state["t_first"] = time.monotonic()
            for sig, msg in fresh:
                if sig == state["target"]:
                    ln = len(canonical(case))
                    if state["best"] is None or ln <= state["best_len"]:
                        state.update(best=jsonable(case), best_len=ln, best_hash=h, msg=msg)
                    raise AssertionError(sig)

        test = given(check.strategy(tier, known_sigs))(body)
        test = hypothesis.seed(seed + 7919 * round_no)(test)
        remaining = examples if round_no == 0 else max(examples // 2, 50)
        test = settings(
            max_examples=remaining,
            database=None,
            deadline=None,
            derandomize=False,
            report_multiple_bugs=False,
            print_blob=False,
            phases=[Phase.generate, Phase.shrink],
            suppress_health_check=list(HealthCheck),
        )(test)
        try:
            test()
        except HarnessError:
            raise
        except BaseException as e:  # pylint: disable=broad-except
            if state["target"] is None:
                if isinstance(e, (KeyboardInterrupt, SystemExit)):
                    raise
                raise HarnessError(f"hypothesis failed without a violation: {type(e).__name__}: {e}\n{traceback.format_exc()}") from e
        if state["target"] is None:
            return
        stats.violations.append({"signature": state["target"], "message": state["msg"], "case": state["best"]})
        muted.add(state["target"])
        if wall_budget_s is not None and time.monotonic() - t_start > wall_budget_s:
            return


# --------------------------------------------------------------------------------------------------
# top-level driver
# --------------------------------------------------------------------------------------------------
OUTSIDE = "/outside-known-region"


def _region_is_exact(check, sig):
    """
    A known finding is identified by its signature *and* the region of cases it is recorded for (is_excluded). Checks whose region
    predicate cannot tell for some signature (e.g. regions that depend on where an injected crash happened to hit) name it in INEXACT_REGIONS.
    """
    return getattr(check, "is_excluded", None) is not None and not signature_matches(sig, set(getattr(check, "INEXACT_REGIONS", ())))


def run_cases_directly(check, cases, known_sigs, stats, label, keep_sample=False):
    is_excluded = getattr(check, "is_excluded", None)
    for case in cases:
        obs = execute(check, case)
        stats.record(case, obs, keep_sample=keep_sample)
        inside = is_excluded is not None and bool(known_sigs) and is_excluded(case, known_sigs)
        for sig, msg in obs.violations:
            if signature_matches(sig, known_sigs):
                if inside or not _region_is_exact(check, sig):
                    stats.known_hits[sig] += 1
                    continue
                sig, msg = sig + OUTSIDE, msg + " [signature of a known finding, but this case lies outside the region that finding is recorded for]"
            if not any(v["signature"] == sig for v in stats.violations):
                stats.violations.append({"signature": sig, "message": msg, "case": jsonable(case), "origin": label})


def _chunks(it, n_shards, shard):
    for i, c in enumerate(it):
        if i % n_shards == shard:
            yield c


def run_shard(check, tier, seed, shard, n_shards, known_sigs):
    """work of one process: its slice of the exhaustive sub-domain plus its generated search"""
    stats = Stats()
    enum = getattr(check, "enumerate_cases", None)
    if enum is not None:
        before = stats.evaluations
        run_cases_directly(check, _chunks(enum(tier), n_shards, shard), known_sigs, stats, "exhaustive", keep_sample=(shard == 0))
        stats.exhaustive_cases = stats.evaluations - before
    examples = check.BUDGET[tier]
    wall = getattr(check, "WALL_BUDGET_S", {}).get(tier)
    if examples > 0:
        generated_search(check, tier, seed * 1000 + shard if n_shards > 1 else seed, examples, known_sigs, stats, wall)
    return stats


def main(check, argv=None):
    import argparse

    p = argparse.ArgumentParser()
    p.add_argument("--tier", default=os.environ.get("VERIF_TIER", "quick"), choices=["quick", "thorough"])
    p.add_argument("--replay")
    p.add_argument("--repo", default=os.environ.get("VERIF_REPO", "/repo"))
    p.add_argument("--shard", default=None, help="k/n (internal)")
    p.add_argument("--partial", default=None, help="file for shard statistics (internal)")
    p.add_argument("--shards", type=int, default=None)
    p.add_argument("--examples", type=int, default=None)
    args = p.parse_args(argv)

    pid = check.ID
    seed = int(os.environ.get("VERIF_SEED", "1") or "1")
    t0 = time.monotonic()
    try:
        kf = KnownFindings()
        known_sigs = kf.known_signatures(pid)
        if args.examples is not None:
            check.BUDGET = dict(check.BUDGET)
            check.BUDGET[args.tier] = args.examples
        if hasattr(check, "setup"):
            check.setup()

        # ---- single replay -------------------------------------------------------------------------
        if args.replay:
            rp = load_replay(args.replay)
            obs = execute(check, rp["case"])
            bad = [(s, m) for s, m in obs.violations]
            for s, m in bad:
                print(f"replay violation: {s}: {m}")
            if bad:
                print(f"VIOLATION property={pid} replay={os.path.abspath(args.replay)}")
                return 1
            print(f"replay ok: property={pid} classes={sorted(obs.classes)} nontrivial={obs.nontrivial}")
            return 0

        # ---- shard worker --------------------------------------------------------------------------
        if args.shard:
            k, n = (int(x) for x in args.shard.split("/"))
            stats = run_shard(check, args.tier, seed, k, n, known_sigs)
            with open(args.partial, "w", encoding="utf-8") as f:
                json.dump(stats.to_json(), f)
            return 0

        stats = Stats()
        exit_code = 0
        known_lines = []

        # ---- probes for findings -------------------------------------------------------------------
        probes = getattr(check, "PROBES", {})
        for e in kf.for_property(pid):
            sig = e["signature"]
            probe = probes.get(sig)
            if probe is None:
                raise HarnessError(f"finding {pid}/{sig} has no probe case in the check module")
            obs = execute(check, probe)
            stats.replayed += 1
            hit = [(s, m) for s, m in obs.violations if s == sig or signature_matches(s, {sig})]
            others = [(s, m) for s, m in obs.violations if not (s == sig or signature_matches(s, {sig}))]
            if e["status"] == "known":
                if hit:
                    known_lines.append(f"KNOWN-FINDING: property={pid} {sig}: {e['what']}")
                else:
                    print(f"note: known finding {pid}/{sig} no longer reproduces on its probe")
                for s, m in others:
                    if not signature_matches(s, known_sigs):
                        stats.violations.append({"signature": s, "message": m, "case": jsonable(probe), "origin": "probe"})
            else:  # fixed: suppresses nothing
                for s, m in obs.violations:
                    if not signature_matches(s, known_sigs):
                        stats.violations.append({"signature": s, "message": m, "case": jsonable(probe), "origin": "probe-fixed"})
        for line in known_lines:
            print(line)

        # ---- replay tier ---------------------------------------------------------------------------
        rdir = os.path.join(VERIF_ROOT, "replays", pid)
        if os.path.isdir(rdir) and not os.environ.get("VERIF_NO_REPLAYS"):  # (the audit may switch the replay tier off)
            for name in sorted(os.listdir(rdir)):
                if not name.endswith(".json"):
                    continue
                rp = load_replay(os.path.join(rdir, name))
                obs = execute(check, rp["case"])
                stats.replayed += 1
                stats.record(rp["case"], obs, keep_sample=False)
                excl = getattr(check, "is_excluded", None)
                inside = excl is not None and bool(known_sigs) and excl(rp["case"], known_sigs)
                for s, m in obs.violations:
                    if signature_matches(s, known_sigs):
                        if inside or not _region_is_exact(check, s):
                            continue
                        s = s + OUTSIDE
                    if not any(v["signature"] == s for v in stats.violations):
                        stats.violations.append({"signature": s, "message": m, "case": jsonable(rp["case"]), "origin": f"replay:{name}"})

        # ---- generated search (+ exhaustive sub-domain) ----------------------------------------------
        if not stats.violations:
            n_shards = args.shards or (getattr(check, "SHARDS", 16) if args.tier == "thorough" else getattr(check, "QUICK_SHARDS", 1))
            if n_shards <= 1:
                s = run_shard(check, args.tier, seed, 0, 1, known_sigs)
                stats.merge_json(s.to_json())
            else:
                import tempfile

                with tempfile.TemporaryDirectory(prefix=f"verif-{pid}-") as td:
                    procs = []
                    for k in range(n_shards):
                        part = os.path.join(td, f"part{k}.json")
                        cmd = [sys.executable, os.path.join(VERIF_ROOT, "run_check.py"), pid, "--tier", args.tier, "--repo", args.repo,
                               "--shard", f"{k}/{n_shards}", "--partial", part]
                        if args.examples is not None:
                            cmd += ["--examples", str(args.examples)]
                        procs.append((k, part, subprocess.Popen(cmd, stdout=subprocess.PIPE, stderr=subprocess.STDOUT, text=True)))
                    for k, part, pr in procs:
                        out, _ = pr.communicate()
                        if pr.returncode != 0 or not os.path.exists(part):
                            raise HarnessError(f"shard {k} failed with exit {pr.returncode}:\n{out[-4000:]}")
                        with open(part, encoding="utf-8") as f:
                            stats.merge_json(json.load(f))

        # ---- report ----------------------------------------------------------------------------------
        seen = set()
        for v in stats.violations:
            if v["signature"] in seen:
                continue
            seen.add(v["signature"])
            path = write_found(pid, v["signature"], v["message"], v["case"])
            print(f"violation signature={v['signature']} origin={v.get('origin', 'generated')}")
            print("  " + (v["message"] or "").strip().replace("\n", "\n  ")[:1500])
            print(f"VIOLATION property={pid} replay={path}")
            exit_code = 1

        write_evidence(check, args.tier, seed, stats, time.monotonic() - t0, len(seen), known_lines)
        nt = len(stats.nontrivial_hashes)
        print(
            f"{pid} tier={args.tier} seed={seed} evaluations={stats.evaluations} distinct_nontrivial={nt} "
            f"exhaustive={stats.exhaustive_cases} excluded_known={stats.excluded_known} violations={len(seen)} "
            f"wall={time.monotonic() - t0:.1f}s"
        )
        weak = []
        for label, minimum in getattr(check, "REQUIRED_CLASSES", {}).items():
            got = stats.classes.get(label, 0)
            if got < minimum:
                weak.append(f"{label}={got}<{minimum}")
        if weak:
            print("warning: generator produced too few cases of: " + ", ".join(weak))
        return exit_code
    except HarnessError as e:
        print(f"HARNESS-ERROR property={pid}: {e}", file=sys.stderr)
        return 2
    except Exception:  # pylint: disable=broad-except
        print(f"HARNESS-ERROR property={pid}: {traceback.format_exc()}", file=sys.stderr)
        return 2
    finally:
        if hasattr(check, "teardown"):
            try:
                check.teardown()
            except Exception:  # pylint: disable=broad-except
                pass


def write_evidence(check, tier, seed, stats, wall_s, n_violations, known_lines):
    pid = check.ID
    total = max(stats.evaluations, 1)
    samples = (stats.samples + stats.fallback_samples)[:5]
    coverage = {
        "evaluations": stats.evaluations,
        "distinct_nontrivial": len(stats.nontrivial_hashes),
        "rule": check.RULE,
        "samples": samples,
        "classes": {k: v for k, v in sorted(stats.classes.items())},
        "class_fractions": {k: round(v / total, 4) for k, v in sorted(stats.classes.items())},
        "exhaustive_subdomain_cases": stats.exhaustive_cases,
        "exhaustive": False,
        "replayed_files_and_probes": stats.replayed,
        "excluded_known": stats.excluded_known,
        "known_finding_hits_not_excluded": dict(stats.known_hits),
        "inconclusive": dict(stats.inconclusive),
        "budget_exhausted": stats.budget_exhausted,
        "known_findings_reported": known_lines,
    }
    extra = getattr(check, "evidence_extra", None)
    if extra is not None:
        coverage.update(extra())
    ev = {
        "property_id": pid,
        "tier": tier,
        "seed": seed,
        "level": check.LEVEL,
        "coverage": coverage,
        "assumptions": list(check.ASSUMPTIONS),
        "wall_s": round(wall_s, 2),
        "violations": n_violations,
    }
    d = os.path.join(_out_root(), "evidence")
    os.makedirs(d, exist_ok=True)
    tmp = os.path.join(d, f".{pid}.json.tmp")
    with open(tmp, "w", encoding="utf-8") as f:
        json.dump(ev, f, indent=1, sort_keys=True, default=_json_default)
        f.write("\n")
    os.replace(tmp, os.path.join(d, f"{pid}.json"))
