r"""
E2 generator: document corpora for bulk indexing (used by C03).

A corpus specification is plain JSON.  File *content* is not stored line by line (a large file has 120 000 lines) but as a small
recipe that `build_file_bytes()` expands by integer arithmetic only, so a case stays a pure function of its JSON:

    case["pool"]          list of 1..6 text fragments (ASCII and 2/3/4-byte UTF-8, never '"', '\\', or anything below U+0020)
    file spec             {"docs": n, "meta": bool, "eol": "\n"|"\r\n", "final_newline": bool, "seq": bool,
                           "mult": int, "add": int, "target": "idx0", "ds": bool, "type": bool}

    document i of file <tag> =  {"k":"<tag>",["i":<i>,]"t":"<pool[(i*mult+add) % len(pool)]>"}<eol>
    with "meta": true every document is preceded by   {"index":{"_index":"<target>"[,"_id":"<tag>-<i>"]}}<eol>

"k" (corpus/file tag) lets the oracle attribute a delivered document to its file without trusting the code under test; without
"seq" a file contains many byte-identical lines.  A lone "\r" never occurs inside a line (DESIGN C03 "L").
"""
import os

from hypothesis import strategies as st

SPECIAL_CHARS = [
    "\u00e9",  # 2 bytes in UTF-8
    "\u00df",
    "\u0085",  # NEL: a line boundary for str.splitlines(), not for files
    "\u00a0",
    "\u4e2d",  # 3 bytes
    "\u20ac",
    "\u2028",  # LINE SEPARATOR (legal raw inside a JSON string)
    "\u2029",
    "\ufeff",
    "\U0001f600",  # 4 bytes
    "\U0001d11e",
    "\x7f",
    "a",
    " ",
    "}",
    "{",
    ",",
]

LARGE_MIN_LINES = 50_001
LARGE_MAX_LINES = 120_000


def fragments(max_len=10):
    plain = st.text(alphabet="abcXYZ019 {}[],:'-_", max_size=max_len)
    multi = st.text(
        alphabet=st.sampled_from(SPECIAL_CHARS) | st.characters(min_codepoint=0x20, exclude_categories=("Cs",), exclude_characters='"\\'),
        min_size=1,
        max_size=max_len,
    )
    return st.one_of(plain, multi, multi)


def pools(max_len=10):
    return st.lists(fragments(max_len), min_size=1, max_size=6)


@st.composite
def file_specs(draw, docs, allow_meta=True, allow_ds=True):
    meta = allow_meta and draw(st.sampled_from([False, False, True]))
    ds = allow_ds and draw(st.sampled_from([False] * 5 + [True]))
    return {
        "docs": draw(docs),
        "meta": meta,
        "eol": draw(st.sampled_from(["\n", "\n", "\r\n"])),
        "final_newline": draw(st.sampled_from([True, True, True, False])),
        "seq": draw(st.sampled_from([True, True, False])),
        "mult": draw(st.integers(0, 7)),
        "add": draw(st.integers(0, 5)),
        "target": "idx%d" % draw(st.integers(0, 2)),
        "ds": ds,
        "type": (not ds) and draw(st.sampled_from([False] * 5 + [True])),
    }


SMALL_DOCS = st.one_of(st.integers(0, 30), st.integers(0, 30), st.integers(0, 400))


@st.composite
def small_corpora(draw, plain_only=False):
    """1-3 corpora x 1-3 files, 0-400 documents each; the first file of the first corpus has at least one document.
    plain_only: no action-and-meta-data files and no data streams (required when id conflicts are generated)"""
    n_corpora = draw(st.sampled_from([1, 1, 2, 2, 3]))
    corpora = []
    for c in range(n_corpora):
        n_files = draw(st.sampled_from([1, 1, 2, 3]))
        files = []
        for f in range(n_files):
            docs = st.one_of(st.integers(1, 30), st.integers(1, 400)) if (c == 0 and f == 0) else SMALL_DOCS
            files.append(draw(file_specs(docs, allow_meta=not plain_only, allow_ds=not plain_only)))
        corpora.append({"name": "c%d" % c, "files": files})
    return corpora


@st.composite
def large_corpora(draw, plain_only=False):
    """one file of 50 001-120 000 lines (so that the offset table has one or two entries), optionally a small companion file"""
    spec = draw(file_specs(st.just(0), allow_meta=not plain_only, allow_ds=False))
    # mostly numbered lines: in a file of identical lines a seek that is off by a line cannot be told from a correct one
    spec["seq"] = draw(st.sampled_from([True, True, True, True, False]))
    lines = draw(
        st.one_of(
            st.integers(LARGE_MIN_LINES, LARGE_MAX_LINES),
            st.integers(100_001, LARGE_MAX_LINES),
            st.integers(100_001, LARGE_MAX_LINES),
            st.sampled_from([50_001, 50_002, 99_999, 100_000, 100_001, 100_002, 119_999, 120_000]),
        )
    )
    if spec["meta"]:
        lines += lines % 2
        spec["docs"] = lines // 2
    else:
        spec["docs"] = lines
    corpora = [{"name": "c0", "files": [spec]}]
    companion = draw(st.sampled_from(["none", "none", "same-corpus", "other-corpus"]))
    if companion != "none":
        small = draw(file_specs(st.integers(0, 60), allow_meta=not plain_only, allow_ds=False))
        if companion == "same-corpus":
            if draw(st.booleans()):
                corpora[0]["files"].append(small)
            else:
                corpora[0]["files"].insert(0, small)
        else:
            corpora.append({"name": "c1", "files": [small]})
    return corpora


# ------------------------------------------------------------------------------------------------ materialisation
def file_tag(ci, fi):
    return "c%df%d" % (ci, fi)


def target_name(spec):
    return ("ds-" if spec["ds"] else "") + spec["target"]


def build_file_bytes(tag, spec, pool):
    """the bytes of one document file; pure function of (tag, spec, pool)"""
    eol = spec["eol"].encode("ascii")
    enc_pool = [p.encode("utf-8") for p in pool]
    n_pool = len(enc_pool)
    mult, add, seq, meta = spec["mult"], spec["add"], spec["seq"], spec["meta"]
    btag = tag.encode("ascii")
    target = target_name(spec).encode("ascii")
    out = []
    for i in range(spec["docs"]):
        frag = enc_pool[(i * mult + add) % n_pool]
        if meta:
            if seq:
                out.append(b'{"index":{"_index":"%s","_id":"%s-%d"}}' % (target, btag, i))
            else:
                out.append(b'{"index":{"_index":"%s"}}' % target)
        if seq:
            out.append(b'{"k":"%s","i":%d,"t":"%s"}' % (btag, i, frag))
        else:
            out.append(b'{"k":"%s","t":"%s"}' % (btag, frag))
    data = eol.join(out)
    if out and spec["final_newline"]:
        data += eol
    return data


class MaterialisedFile:
    __slots__ = ("tag", "spec", "path", "corpus", "lines", "docs", "target", "multibyte")

    def __init__(self, tag, spec, path, corpus, data):
        self.tag = tag
        self.spec = spec
        self.path = path
        self.corpus = corpus
        self.target = target_name(spec)
        # reference: the file's own lines, split naively on LF in binary (terminators kept)
        self.lines = split_lines(data)
        per_doc = 2 if spec["meta"] else 1
        self.docs = [b"".join(self.lines[i : i + per_doc]) for i in range(0, len(self.lines), per_doc)] if per_doc == 2 else self.lines
        self.multibyte = any(b >= 0x80 for b in data) if len(data) < 200_000 else (max(data) >= 0x80)


def split_lines(data):
    parts = data.split(b"\n")
    last = parts.pop()
    lines = [p + b"\n" for p in parts]
    if last:
        lines.append(last)
    return lines


def materialise(corpora, pool, directory):
    """writes every document file below `directory`, reads it back in binary as the reference. Returns [[MaterialisedFile]]"""
    result = []
    for ci, corpus in enumerate(corpora):
        files = []
        for fi, spec in enumerate(corpus["files"]):
            tag = file_tag(ci, fi)
            path = os.path.join(directory, f"{tag}-documents.json")
            with open(path, "wb") as f:
                f.write(build_file_bytes(tag, spec, pool))
            with open(path, "rb") as f:
                data = f.read()
            files.append(MaterialisedFile(tag, spec, path, corpus["name"], data))
        result.append(files)
    return result
