"""
E2: strategies for single-task load-generation scenarios (input of sim.loadgen.run_task), used by C04, C05 (and C18).
All instants are dyadic rationals (k/1024 s) so that sums and differences are exact in binary floating point.
"""
from hypothesis import strategies as st

SERVICE_FAST = [1 / 1024, 1 / 64, 1 / 16, 1 / 8]
SERVICE_ANY = [1 / 1024, 1 / 64, 1 / 8, 0.5, 1.0, 3.0, 12.5]
SERVICE_SLOWISH = [1 / 16, 1 / 8, 0.5, 1.0, 3.0]


@st.composite
def request_spec(draw, services, errors=True, weights=(1, 1, 1, 5, 100, 1000), units=("ops",), multi_wire=True, runner_tp=False, shapes=("dict",)):
    n_wire = draw(st.sampled_from([1, 1, 1, 2, 3])) if multi_wire else 1
    wire = [[draw(st.sampled_from([0, 0, 1 / 512, 1 / 32])), draw(st.sampled_from(services))] for _ in range(n_wire)]
    outcome = "ok"
    if errors:
        outcome = draw(st.sampled_from(["ok"] * 8 + ["fail-dict", "api-4xx", "api-5xx", "timeout"]))
    spec = {
        "pre": draw(st.sampled_from([0, 0, 1 / 256, 1 / 16])),
        "wire": wire,
        "post": draw(st.sampled_from([0, 0, 1 / 128, 1 / 8])),
        "outcome": outcome,
        "shape": draw(st.sampled_from(list(shapes))),
        "weight": draw(st.sampled_from(list(weights))),
        "unit": draw(st.sampled_from(list(units))),
    }
    if multi_wire and draw(st.integers(0, 3)) == 0:
        spec["nested"] = True  # sub-requests in nested request contexts of their own, as a composite operation runs them
    if runner_tp:
        spec["runner_throughput"] = draw(st.sampled_from([0.5, 17, 1234.5]))
    return spec


@st.composite
def throughput_spec(draw, max_rate):
    kind = draw(st.sampled_from(["number", "number", "string", "string", "interval"]))
    rates = [r for r in [0.5, 1, 2, 4, 10, 25, 100, 1000] if r <= max_rate]
    if kind == "number":
        return {"kind": "number", "value": draw(st.sampled_from(rates + [3, 7])) if max_rate >= 7 else draw(st.sampled_from(rates)), "unit": "ops/s"}
    if kind == "interval":
        return {"kind": "interval", "value": draw(st.sampled_from([i for i in [0.01, 0.25, 1, 2.5] if 1 / i <= max_rate])), "unit": "ops/s"}
    unit = draw(st.sampled_from(["ops/s", "docs/s", "docs/s", "pages/s"]))
    value = draw(st.sampled_from(rates))
    if unit != "ops/s":
        value = value * draw(st.sampled_from([1, 100, 1000]))
    # how the number is written: the documented format is "<number> <unit>/s"; Rally accepts (\d*\.)?\d+ followed by one white space
    text = draw(st.sampled_from(["plain", "plain", "leading-dot", "two-decimals", "leading-zero", "tab"]))
    return {"kind": "string", "value": value, "unit": unit, "text": text}


@st.composite
def task_spec(draw, focus="timing"):
    """
    focus="timing"  (C04): iteration-based (1 in 6: time-based with ramp-up), emphasis on errors, return shapes, overheads, slow responses, several clients
    focus="control" (C05): all loop-control modes, ramp-up, schedulers, weight changes, finite sources
    """
    clients = draw(st.integers(1, 4))
    spec = {"clients": clients, "stride": draw(st.sampled_from([1, 3, 7])), "seed": draw(st.integers(0, 1000)),
            "perf_offset": draw(st.sampled_from([0.0, 100.0, 123456.5, -750.25])), "on_error": "continue"}
    mode = draw(st.sampled_from(["iterations"] * 5 + ["time", "finite-source"])) if focus == "timing" else draw(
        st.sampled_from(["iterations", "iterations", "time", "time", "time", "time", "finite-source", "runner-completion", "default"])
    )
    spec["mode"] = mode
    throttled = draw(st.sampled_from([True, True, False]))
    units = ("ops",)
    tp = None
    max_requests = 40
    if mode == "iterations":
        w = draw(st.sampled_from([None, 0, 1, 2, 3]))
        i = draw(st.integers(1, 8))
        spec["warmup_iterations"], spec["iterations"] = w, i
        services = SERVICE_ANY
        max_rate = 1000
        if focus == "control" and draw(st.integers(0, 4)) == 0:
            # explicit iterations win over a runner that can report completion itself (requires_time_period_schedule): the runner does
            # not complete within the iterations (never, or only later)
            spec["op_type"] = "sim-op-completing"
            spec["runner_completes_after"] = draw(st.sampled_from([None, None, (w or 0) + i + 1, (w or 0) + i + 7]))
            spec["clients"] = clients = 1
    elif mode == "time":
        if focus == "timing":  # C04 looks at ramped-up clients: their samples carry the instant at which they really were issued
            wtp = draw(st.sampled_from([0.5, 2, 4]))
            tpd = draw(st.sampled_from([1, 3]))
        else:
            wtp = draw(st.sampled_from([None, 0, 0.5, 2, 4]))
            tpd = draw(st.sampled_from([1, 3, 10]))
        spec["warmup_time_period"], spec["time_period"] = wtp, tpd
        if wtp and (focus == "timing" or draw(st.integers(0, 3))):
            spec["ramp_up"] = draw(st.sampled_from([r for r in [0.25, 0.5, 2, 4] if r <= wtp]))
            spec["global_offset"] = draw(st.integers(0, 3))
            spec["total_clients"] = spec["global_offset"] + clients + draw(st.integers(0, 3))
            if draw(st.booleans()):
                spec["via_allocator"] = draw(st.sampled_from([1, 3, -1, -4]))  # allocations from the real Allocator, a wider element nearby
        services = SERVICE_SLOWISH
        max_rate = 25
    elif mode == "finite-source":
        spec["source_size"] = draw(st.integers(1, 8))
        services = SERVICE_ANY
        max_rate = 1000
        if clients >= 2 and draw(st.booleans()):
            # uneven partitions (the bulk source's last clients get shorter slices), and in half of these cases the task is the one
            # that completes its parallel element: the first client to finish sets "complete", the others carry on to their own end
            sizes = draw(st.lists(st.integers(1, 8), min_size=clients, max_size=clients))
            if len(set(sizes)) == 1:
                sizes[-1] = sizes[0] % 8 + 1
            spec["source_size"] = sizes
            spec["completes_parent"] = draw(st.booleans())
            if spec["completes_parent"]:
                max_rate = 25
    elif mode == "runner-completion":
        spec["op_type"] = "sim-op-completing"
        spec["runner_completes_after"] = draw(st.integers(1, 6))
        spec["clients"] = clients = 1
        services = SERVICE_ANY
        max_rate = 1000
    else:  # nothing specified, infinite source: exactly one iteration
        services = SERVICE_ANY
        max_rate = 1000
    if throttled:
        tp = draw(throughput_spec(max_rate))
        spec["throughput"] = tp
        spec["schedule"] = draw(st.sampled_from([None, "deterministic", "deterministic", "poisson"]))
        if tp["unit"] != "ops/s":
            # runner reports the same unit (in-domain) or another one (must raise) in a small class
            base = tp["unit"][:-2]
            units = (base,) if draw(st.integers(0, 9)) else ("ops",)
        else:
            units = draw(st.sampled_from([("ops",), ("ops",), ("docs",)]))
    else:
        spec["schedule"] = draw(st.sampled_from([None, None, "deterministic", "poisson"]))
        if focus == "timing" and draw(st.integers(0, 3)) == 0:
            # throttled by a custom scheduler alone (no target throughput): one request every k seconds per client
            spec["schedule"] = "sim-fixed-interval"
            spec["custom_interval"] = draw(st.sampled_from([1 / 8, 0.5, 2.0]))
        units = draw(st.sampled_from([("ops",), ("docs",)]))
    n_specs = draw(st.integers(1, 6))
    errors = focus == "timing" or draw(st.booleans())
    weights = draw(st.sampled_from([(1,), (1, 5), (1, 5, 100, 1000), (1000, 1000, 437)]))
    runner_tp = focus == "timing" and draw(st.integers(0, 7)) == 0
    # a runner reports one unit and one return shape for all its requests (None / plain dicts mean 1 "ops")
    shapes = draw(st.sampled_from([("dict",), ("dict",), ("tuple",), ("dict", "tuple"), ("none",), ("dict-plain",), ("none", "dict-plain")]))
    if units != ("ops",) and shapes[0] in ("none", "dict-plain"):
        shapes = ("dict", "tuple")
    spec["requests"] = [
        draw(request_spec(services, errors=errors, weights=weights, units=units, multi_wire=(focus == "timing"), runner_tp=runner_tp, shapes=shapes))
        for _ in range(n_specs)
    ]
    if "global_offset" not in spec and draw(st.integers(0, 5)) == 0:
        # the task is a later member of an over-committed parallel element (fewer clients than its tasks ask for): its clients run it in a
        # later round on client ids that differ from their global client index; allocations from the real Allocator
        spec["global_offset"] = draw(st.integers(1, 3))
        spec["total_clients"] = spec["global_offset"] + spec["clients"] + draw(st.integers(0, 2))
        spec["via_allocator"] = draw(st.sampled_from([1, -1, -4]))
        spec["allocator_cap"] = True
    return spec


def reference_throughput(tp):
    """reference parse of the throughput spec: (value in <unit>, unit) independent of track.Task.target_throughput"""
    if tp is None:
        return None
    if tp["kind"] == "interval":
        return (1.0 / tp["value"], "ops/s")
    return (float(tp["value"]), tp["unit"])
