"""
E2 strategies for team directories (cars, mixins, config bases with template trees), car selections, car parameters,
a stub Elasticsearch distribution and the disk content around an installation (C13).

Everything drawn here is JSON-able. Paths that depend on the temporary directory of a run (data paths) are stored as
*specs* ``{"loc": "home"|"node"|"out", "rel": "...", "slash": bool}`` and made absolute by the check.

Restricted grammars (so that the harness can render / parse independently of Jinja and configparser):
* template text = literal text without '{' and '}' (LF-only, UTF-8) + ``{{ name }}`` placeholders of *defined* identifiers;
* ini values = one line, no '$', no '%', no leading/trailing blanks; ini keys = [A-Za-z0-9_.-]+, unique per section.
"""
from hypothesis import strategies as st

# names Rally derives itself (ElasticsearchInstaller.variables + BareProvisioner._provisioner_variables); data_paths is the documented
# exception (docs/command_line_reference.rst, car-params) and is handled separately
INTERNAL_VARS = [
    "cluster_name",
    "node_name",
    "log_path",
    "heap_dump_path",
    "node_ip",
    "network_host",
    "http_port",
    "transport_port",
    "all_node_ips",
    "all_node_names",
    "minimum_master_nodes",
    "install_root_path",
    "cluster_settings",
]
IDENT_VARS = ["heap_size", "assertions", "verbose_logging", "gc_log", "Heap_Size", "index_buffer_size"]
OTHER_VARS = ["build.command", "release-url", "docker_image.tag"]  # never referenced by templates (not Jinja identifiers)

BASE_NAMES = ["vanilla", "ea", "verbose_logging", "x-pack"]
CAR_NAMES = ["defaults", "4gheap", "ea", "verbose"]

TEXT_EXTS = [".yml", ".options", ".properties", ".json", ".txt", ".ini", ".yaml"]
BIN_EXTS = [".jks", ".bin", ".p12", ".keystore", ".dat", ""]
DIRS = ["config", "config", "config", "config/certs", "config/jvm.options.d", "config/a/b", "bin", "extra/conf/deep"]
STEMS = ["elasticsearch", "jvm", "log4j2", "roles", "settings", "notes"]
# files a distribution ships outside config/ (text template paths never collide with them, binary ones may: bin/elasticsearch-env)
SHIPPED_OTHER = ["bin/elasticsearch", "bin/elasticsearch-env", "lib/elasticsearch.jar", "README.asciidoc", "modules/m1/m1.jar", "jdk/release"]
SHIPPED_CONFIG_ONLY = ["config/users", "config/jvm.options.d/shipped.options", "config/role_mapping.yml"]
VERSIONS = ["7.10.2", "8.11.0", "5.0.0-SNAPSHOT", "9.0.0"]

VALUE_ALPHABET = "abcxyzXYZ0123456789    -_./:,=+*'\"[](){}<>@!?&|~^#;\\"
COMMON_VALUES = ["1g", "4g", "true", "false", "-XX:+UseG1GC", "0.0.0.0", "9200", "", "a b", "x=y:z"]
TEXT_ALPHABET = "abcdeXYZ0189      ::--__..##//\"'=[],*+\n\n\n\néü日"

DATA_RELS = {
    "home": ["data", "data/nodes", "var/es data"],
    "node": ["data", "data/0"],
    "out": ["d0", "d1", "d0/inner", "ssd/es"],
    # next to the installation: the path starts with the characters of the installation's path without lying inside it ("beside"),
    # or is written through the installation ("via": <home>/../<rel>)
    "beside": ["-data", "_data/0", ".d"],
    "via": ["data-next-to-home", "x/data"],
}

ini_value = st.sampled_from(COMMON_VALUES) | st.text(alphabet=VALUE_ALPHABET, max_size=12).map(lambda s: s.strip())
param_value = ini_value | st.integers(-5, 70000) | st.booleans() | st.none() | st.sampled_from([1.5, 0.25])


@st.composite
def _vars(draw, pool, max_size):
    if not pool:
        return {}
    size = min(draw(st.sampled_from([0, 1, 1, 2, 2, 3])), max_size, len(pool))
    keys = draw(st.lists(st.sampled_from(pool), min_size=size, max_size=size, unique=True))
    return {k: draw(ini_value) for k in keys}


@st.composite
def _data_spec(draw):
    loc = draw(st.sampled_from(["home", "node", "out", "out", "out", "beside", "via"]))
    return {"loc": loc, "rel": draw(st.sampled_from(DATA_RELS[loc])), "slash": draw(st.integers(0, 5)) == 0}


@st.composite
def _text_parts(draw, referable):
    n = draw(st.integers(0, 5))
    parts = []
    for _ in range(n):
        if draw(st.integers(0, 5)) == 0:
            parts.append(["c", draw(st.sampled_from(["managed by rally", "see docs/car.rst", "TODO: tune", "x"]))])  # {# a Jinja comment #}
        elif referable and draw(st.integers(0, 2)) > 0:
            parts.append(["v", draw(st.sampled_from(referable)), draw(st.integers(0, 2))])
        else:
            parts.append(["t", draw(st.text(alphabet=TEXT_ALPHABET, max_size=24))])
    return {"kind": "text", "parts": parts, "end": draw(st.sampled_from(["", "\n", "\n", "\n\n"]))}


@st.composite
def team_cases(draw):
    n_bases = draw(st.sampled_from([1, 2, 2, 3, 3, 4]))
    n_cars = draw(st.sampled_from([1, 2, 2, 3, 3, 4]))
    base_names = BASE_NAMES[:n_bases]
    car_names = CAR_NAMES[:n_cars]

    # small per-case name pool so that names overlap between bases, cars, params (and Rally's internal names)
    pool = draw(st.lists(st.sampled_from(IDENT_VARS), min_size=1, max_size=3, unique=True))
    if draw(st.booleans()):
        pool += draw(st.lists(st.sampled_from(INTERNAL_VARS), min_size=1, max_size=3, unique=True))
    pool += draw(st.lists(st.sampled_from(OTHER_VARS), max_size=1))

    no_base = draw(st.sampled_from([False] * 9 + [True]))  # ~8 % after exclusions: nobody references a config base -> documented error

    bases = {}
    for b in base_names:
        has_ini = draw(st.integers(0, 4)) > 0
        bases[b] = {"vars": draw(_vars(pool, 3)) if has_ini else None, "files": {}, "style": draw(st.integers(0, 3))}

    cars = {}
    for c in car_names:
        k = draw(st.sampled_from([0, 1, 1, 2, 2, 3]))
        if no_base:
            car_bases = []
        elif draw(st.sampled_from([False] * 7 + [True])):
            car_bases = draw(st.lists(st.sampled_from(base_names), min_size=k, max_size=k))  # base=a,a is legal
        else:
            k = min(k, n_bases)
            car_bases = draw(st.lists(st.sampled_from(base_names), min_size=k, max_size=k, unique=True))
        cars[c] = {
            "type": draw(st.sampled_from(["car", "mixin", None])),
            "bases": car_bases,
            "base_key": draw(st.sampled_from(["present", "present", "present", "empty", "no-key", "no-section"])),
            "vars": draw(_vars(pool, 3)),
            "vars_section": True,
            "style": draw(st.integers(0, 3)),
            # how the list of bases is written: "a,b" as in rally-teams, or with a blank next to the comma
            # lead's decision: only the form rally-teams and docs/car.rst use; blanks around the comma are not a documented list syntax
            "sep": ",",
        }

    n_sel = draw(st.sampled_from([1, 2, 2, 3, 3, 4]))
    flavour = draw(st.integers(0, 9))
    if flavour == 0:
        selection = draw(st.lists(st.sampled_from(car_names), min_size=n_sel, max_size=n_sel))  # a name may repeat
    elif flavour == 1 and n_cars >= 2:
        # a name comes back after another car (--car="4gheap,tuned,4gheap"): applied in the order given, its variables win again
        a, b = draw(st.permutations(car_names))[:2]
        selection = [a, b, a]
        shared = sorted(set(cars[a]["vars"]) & set(cars[b]["vars"]))
        if not shared and cars[b]["vars"]:
            k = sorted(cars[b]["vars"])[0]
            cars[a]["vars"][k] = str(cars[b]["vars"][k]) + "-a"  # the two define one key with different values
    else:
        selection = draw(st.permutations(car_names))[: min(n_sel, n_cars)]
    if not no_base and not any(cars[c]["bases"] for c in selection):
        cars[draw(st.sampled_from(selection))]["bases"] = [draw(st.sampled_from(base_names))]
    for c in cars.values():
        if not c["bases"]:
            c["vars_section"] = bool(c["vars"]) or draw(st.booleans())
    # cars whose variables all come from their config bases (no [variables] section at all, as rally-teams' hook-only mixins): the
    # command-line parameters are then the only variables a car definition contributes
    bare = draw(st.integers(0, 9)) == 0
    if bare:
        for c in selection:
            cars[c]["vars"] = {}
            cars[c]["vars_section"] = False

    params = draw(st.none() | st.just({}) | _vars(pool, 3) | _vars(pool, 3) | _vars(pool, 3))
    if bare and not params:
        params = {draw(st.sampled_from(pool)) if pool else "heap_size": draw(ini_value)}
    if params:
        params = {k: (draw(param_value) if draw(st.booleans()) else v) for k, v in params.items()}

    used_bases = []
    for c in selection:
        for b in cars[c]["bases"]:
            if b not in used_bases:
                used_bases.append(b)

    # mandatory variables that provisioner.local() reads before a provisioner exists: always defined somewhere
    jdk = {"runtime.jdk": draw(st.sampled_from(["21", "17,11", "8"])), "runtime.jdk.bundled": draw(st.sampled_from(["true", "false"]))}
    where = draw(st.sampled_from(["base", "car", "params"])) if used_bases else "car"
    if bare:
        where = draw(st.sampled_from(["base", "params"])) if used_bases else "params"
    if where == "base":
        b = bases[draw(st.sampled_from(used_bases))]
        b["vars"] = dict(b["vars"] or {}, **jdk)
    elif where == "car":
        c = cars[draw(st.sampled_from(selection))]
        c["vars"].update(jdk)
        c["vars_section"] = True
    else:
        params = dict(params or {}, **jdk)

    # data_paths: default (Rally decides) or defined in config bases / cars / params (precedence decides which one is effective)
    data_paths = {"bases": {}, "cars": {}, "params": None}
    if draw(st.integers(0, 2)) > 0:
        for _ in range(draw(st.integers(1, 3))):
            w = draw(st.sampled_from(["base", "car", "car", "params", "params"]))
            if w == "base" and used_bases:
                data_paths["bases"][draw(st.sampled_from(used_bases))] = draw(_data_spec())
            elif w == "car" and not bare:
                data_paths["cars"][draw(st.sampled_from(selection))] = draw(_data_spec())
            elif w == "params":
                if draw(st.sampled_from([True, False, False])):
                    data_paths["params"] = draw(_data_spec())
                else:
                    k = draw(st.sampled_from([1, 2, 2, 3]))
                    data_paths["params"] = draw(st.lists(_data_spec(), min_size=k, max_size=k))
    for b in data_paths["bases"]:
        if bases[b]["vars"] is None:
            bases[b]["vars"] = {}
    for c in data_paths["cars"]:
        cars[c]["vars_section"] = True

    # identifiers a template may reference: everything some selected member defines + Rally's own names
    defined = set(INTERNAL_VARS) | {"data_paths"}
    for b in used_bases:
        defined.update(bases[b]["vars"] or {})
    for c in selection:
        defined.update(cars[c]["vars"])
    defined.update(params or {})
    referable = sorted(n for n in defined if n.replace("_", "a").isalnum() and not n[0].isdigit())
    # bias towards names that somebody overrides and towards Rally's names that the team tries to override
    contested = sorted(n for n in referable if n in pool)
    referable = referable + contested * 4

    # template trees: a small per-case path pool so that several bases provide the same file
    n_paths = draw(st.integers(1, 5))
    path_pool = []
    for _ in range(n_paths):
        text = draw(st.integers(0, 3)) > 0 or (not path_pool and draw(st.booleans()))
        d = draw(st.sampled_from(DIRS))
        if not text and draw(st.sampled_from([False, False, False, True])):
            path_pool.append(("bin/elasticsearch-env", False))
            continue
        stem = draw(st.sampled_from(STEMS))
        ext = draw(st.sampled_from(TEXT_EXTS if text else BIN_EXTS))
        if not text and ext == "" and d == "bin":
            stem = "tpl-" + stem  # never the name of a shipped launcher other than the explicit elasticsearch-env case
        p = f"{d}/{stem}{ext}"
        if p not in [q for q, _ in path_pool]:
            path_pool.append((p, text))
    for b in base_names:
        idx = draw(st.lists(st.integers(0, len(path_pool) - 1), max_size=4, unique=True))
        if b in used_bases and draw(st.integers(0, 3)) > 0 and 0 not in idx:
            idx.append(0)  # the first pool path is provided by (almost) every base in use
        for i in sorted(idx):
            p, text = path_pool[i]
            if text:
                bases[b]["files"][p] = draw(_text_parts(referable))
            else:
                bases[b]["files"][p] = {"kind": "bin", "hex": draw(st.binary(max_size=24)).hex()}

    version = draw(st.sampled_from(VERSIONS))
    shipped_cfg = draw(st.lists(st.sampled_from(SHIPPED_CONFIG_ONLY + [p for p, _ in path_pool if p.startswith("config/")]), max_size=3, unique=True))
    shipped_other = draw(st.lists(st.sampled_from(SHIPPED_OTHER), min_size=1, max_size=4, unique=True))
    if ("bin/elasticsearch-env", False) in path_pool and "bin/elasticsearch-env" not in shipped_other and draw(st.sampled_from([True, True, True, False])):
        shipped_other.append("bin/elasticsearch-env")
    archive = {
        "version": version,
        "config": {p: draw(st.binary(min_size=1, max_size=12)).hex() for p in shipped_cfg},
        "other": {p: draw(st.binary(max_size=12)).hex() for p in shipped_other},
    }

    n_ips = draw(st.integers(1, 3))
    ips = ["127.0.0.1", "10.17.22.23", "192.168.14.3"][:n_ips]
    node = {
        "node_name": draw(st.sampled_from(["rally-node-0", "node-1", "n"])),
        "cluster_name": draw(st.sampled_from(["rally-benchmark", "c1"])),
        "ip": draw(st.sampled_from(ips)),
        "http_port": draw(st.sampled_from([9200, 39200, 19200])),
        "all_node_ips": ips,
        "all_node_names": [f"rally-node-{i}" for i in range(n_ips)],
    }

    disk = {
        # content that exists before provisioning (left-overs of an earlier run of another version, old logs)
        "before": draw(st.lists(st.sampled_from(["install/leftover.txt", "install/old-build/x.bin", "logs/server/prev.log", "heapdump/old.hprof"]), max_size=3, unique=True)),
        # what Elasticsearch and the user create afterwards: files per data-path candidate, files in the installation, symlinks
        "data_files": draw(st.integers(0, 3)),
        "missing_data_dirs": draw(st.lists(st.integers(0, 5), max_size=2, unique=True)),  # candidates (by index) that never get created
        "home_files": draw(st.lists(st.sampled_from(["logs/es.log", "plugins/p/x.jar", "config/elasticsearch.keystore.tmp", "data-not/z"]), max_size=3, unique=True)),
        "symlink_in_data": draw(st.booleans()),
        "symlink_in_home": draw(st.booleans()),
        # the first effective data path that is not inside the installation is a symbolic link to a directory on another volume
        "data_symlink": draw(st.sampled_from([False] * 7 + [True])),
    }

    return {
        "bases": bases,
        "cars": cars,
        "selection": list(selection),
        "params": params,
        "data_paths": data_paths,
        "archive": archive,
        "node": node,
        "disk": disk,
        "preserve": draw(st.booleans()),
        # Rally provisions all nodes of one host with the same Car object, one after the other (mechanic.create / Mechanic.start_engine):
        # in a class of cases another node of the same host is provisioned first, with the very same Car
        "sibling_node_first": draw(st.integers(0, 2)) == 0,
    }
