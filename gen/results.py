"""
Shared generators / builders for C08 (result statistics) and C20 (race comparison).

Everything a case contains is plain JSON.  Large value streams are described compactly (a few explicit values plus a
deterministic "fill" block) so that cases with 10 000 records stay small and replayable; `expand_stream` turns the
description into the concrete value lists (pure function, integer LCG, no RNG).

  record_race(...)      strategy: tasks + per-task record streams (+ global telemetry records)      -> C08, C20
  result_dict(...)      strategy: a whole result structure with every key Rally writes              -> C08 round trip, C20
  materialize(...)      builds real Config / Track / Challenge / InMemoryMetricsStore from a record_race case and fills
                        the store through the public put_value_cluster_level / put_doc
  Model                 the plain-python picture of what was put (reference input for the oracles)
"""
from __future__ import annotations

import datetime
import functools
from fractions import Fraction

from hypothesis import strategies as st

REQUEST_METRICS = ("latency", "service_time", "processing_time")
TASK_METRICS = REQUEST_METRICS + ("throughput",)
# sample counts at which the set of reported percentiles changes (n | n+1 boundaries)
THRESHOLD_COUNTS = (1, 2, 9, 10, 99, 100, 999, 1000, 9999, 10000)

MASK64 = (1 << 64) - 1


# ------------------------------------------------------------------------------------------------ value streams
def _lcg(x):
    return (x * 6364136223846793005 + 1442695040888963407) & MASK64


def expand_fill(fill):
    """deterministic block of values: {"n": count, "kind": ..., "a": lo, "b": hi, "seed": int}"""
    if not fill:
        return []
    n, kind, a, b = fill["n"], fill["kind"], fill["a"], fill["b"]
    x = (fill.get("seed", 0) * 2 + 1) & MASK64
    out = []
    if kind == "const":
        return [a] * n
    for i in range(n):
        x = _lcg(x)
        u = (x >> 11) / float(1 << 53)
        if kind == "uniform":
            out.append(a + (b - a) * u)
        elif kind == "int":
            out.append(int(a) + int((int(b) - int(a)) * u))
        elif kind == "two":  # two levels, mostly the first
            out.append(a if (x >> 60) < 13 else b)
        elif kind == "ramp":
            out.append(a + (b - a) * (i / max(n - 1, 1)))
        else:
            raise ValueError(kind)
    return out


def expand_stream(stream):
    """-> (warmup values, normal values) in the order they are put"""
    if not stream:
        return [], []
    return list(stream.get("w", [])) + expand_fill(stream.get("wf")), list(stream.get("n", [])) + expand_fill(stream.get("nf"))


def fails(pattern, i):
    """success flag pattern for service_time records: {"mod": m, "off": o, "idx": [...]}; record i failed?"""
    if not pattern:
        return False
    m = pattern.get("mod", 0)
    return (m > 0 and i % m == pattern.get("off", 0) % m) or i in pattern.get("idx", ())


_SPECIAL = (0, 0.0, 1, 1.0, 0.5, 2, 3, 2.5, 1e-9, 1e-5, 123.456, 1000, 1e9, 10**9, 999999999.999)


# strategies are built once (building + validating them per draw dominated the run time otherwise)
@functools.lru_cache(maxsize=None)
def sf(*choices):
    return st.sampled_from(choices)


@functools.lru_cache(maxsize=None)
def ints(a, b):
    return st.integers(a, b)


@functools.lru_cache(maxsize=None)
def value(max_value=1e9, positive=False):
    lo = 0.001 if positive else 1e-9  # no subnormal / near-underflow magnitudes: 0 or >= 1e-9
    return st.one_of(
        st.sampled_from([v for v in _SPECIAL if v <= max_value and (v > 0 or not positive)]),
        st.integers(1 if positive else 0, int(max_value)),
        st.floats(lo, max_value, allow_nan=False, allow_infinity=False),
        st.floats(lo, min(max_value, 2000.0), allow_nan=False, allow_infinity=False),
    )


@functools.lru_cache(maxsize=None)
def fixed_list(strategy, size):
    return st.lists(strategy, min_size=size, max_size=size)


_BOOL = st.booleans()
_BASE = st.floats(1, 5e5, allow_nan=False)


def _value_list(draw, size, max_value=1e9, positive=False):
    """explicit values: free, or drawn from a small pool (repeated values), or all equal, or nearly equal"""
    if size == 0:
        return []
    v = value(max_value, positive)
    mode = draw(sf("free", "free", "pool", "equal", "near"))
    if mode == "free":
        return draw(fixed_list(v, size))
    if mode == "equal":
        return [draw(v)] * size
    if mode == "near":  # values differing in the last digits
        base = draw(_BASE)
        ks = draw(fixed_list(ints(0, 5), size))
        return [base + k * base * 2.0**-50 for k in ks]
    pool = draw(st.lists(v, min_size=1, max_size=3))
    return [pool[i % len(pool)] for i in draw(fixed_list(ints(0, 5), size))]


def _fill_block(draw, n, max_value=1e9, positive=False):
    if n <= 0:
        return None
    kind = draw(sf("uniform", "uniform", "int", "two", "ramp", "const"))
    a, b = draw(fixed_list(value(max_value, positive), 2))
    if kind == "int":
        a, b = int(a), int(b)
        if positive:
            a, b = max(a, 1), max(b, 1)
    if kind in ("uniform", "int", "ramp") and b < a:
        a, b = b, a
    return {"n": n, "kind": kind, "a": a, "b": b, "seed": draw(ints(0, 2**31))}


def _normal_count(draw, size_class):
    """number of normal records of one stream; size_class: small | large | huge"""
    if size_class == "huge":
        return draw(sf(9999, 10000, 10000, 10001))
    if size_class == "large":
        return draw(sf(999, 1000, 1000, 1001, 998, 1002))
    kind = draw(sf("tiny", "tiny", "threshold", "threshold", "threshold", "random"))
    if kind == "tiny":
        return draw(ints(0, 5))
    if kind == "threshold":
        return max(0, draw(sf(1, 2, 9, 10, 99, 100)) + draw(sf(-1, 0, 0, 1)))
    return draw(ints(0, 130))


def _stream(draw, size_class="small", max_value=1e9, zeros=None):
    """zeros: None (any value) | "heavy" (at least half of the normal values are 0) | "rare" (positive values, sometimes one 0)"""
    total_n = _normal_count(draw, size_class)
    positive = zeros is not None
    k = min(total_n, draw(ints(0, 6)))
    if zeros == "heavy" and total_n > 0:
        # throughput of a task whose requests (mostly) fail: zero ops per bucket
        nz = draw(ints((total_n + 1) // 2, total_n))
        if total_n - nz <= 8:
            n_vals, nf = [0] * nz + _value_list(draw, total_n - nz, max_value), None
        else:
            n_vals, nf = [0] * nz, _fill_block(draw, total_n - nz, max_value)
    else:
        n_vals = _value_list(draw, k, max_value, positive)
        nf = _fill_block(draw, total_n - k, max_value, positive)
        if zeros == "rare" and total_n >= 3 and k >= 1 and draw(sf(False, False, True)):
            n_vals[0] = 0  # a single empty bucket: minimum 0, median and mean positive
    wkind = draw(sf("none", "few", "few", "many"))
    if wkind == "none":
        w_vals, wf = [], None
    elif wkind == "few":
        w_vals, wf = _value_list(draw, draw(ints(1, 4)), max_value), None
    else:
        w_vals = _value_list(draw, draw(ints(0, 2)), max_value)
        wf = _fill_block(draw, draw(sf(7, 10, 100, 130)), max_value)
    out = {"n": n_vals}
    if nf:
        out["nf"] = nf
    if w_vals:
        out["w"] = w_vals
    if wf:
        out["wf"] = wf
    return out


def _fail_pattern(draw):
    kind = draw(sf("none", "none", "some", "mod", "all"))
    if kind == "none":
        return None
    if kind == "all":
        return {"mod": 1, "off": 0}
    if kind == "mod":
        return {"mod": draw(ints(2, 7)), "off": draw(ints(0, 6))}
    return {"idx": sorted(set(draw(st.lists(ints(0, 12), min_size=1, max_size=4))))}


# ------------------------------------------------------------------------------------------------ tasks
_TASK_NAMES = ("index", "index-append", "search #1", "term \u00e9", "force-merge", "scroll", "agg", "wait")
_OPS = (("bulk-op", "bulk"), ("query", "search"), ("fm", "force-merge"), ("query-2", "search"), ("comp", "composite"), ("raw", "raw-request"))
_TP_UNITS = ("docs/s", "ops/s", "pages/s", "MB/s")
_TASK_KNOBS = st.tuples(
    st.sampled_from(_OPS),
    st.sampled_from(_TASK_NAMES),
    st.sampled_from([True, True, True, True, False]),
    st.sampled_from(["wn", "wn", "nw", "mix"]),
    st.sampled_from([1 / 1024, 0.5, 1.0, 3.0]),
    st.sampled_from(_TP_UNITS),
    st.sampled_from(["full", "full", "full", "full", "full", "full", "warmup-only", "empty", "no-throughput"]),
    st.sampled_from(REQUEST_METRICS),
    st.booleans(),
    st.sampled_from(["rare"] * 29 + ["heavy"]),
)


def _task_spec(draw, idx, size_class):
    (op_name, op_type), base, report, order, dt, tp_unit, shape, big_metric, coupled, tp_zeros = draw(_TASK_KNOBS)
    spec = {"name": f"{base}-{idx}", "op": op_name, "op_type": op_type, "report": report, "order": order, "dt": dt, "tp_unit": tp_unit, "shape": shape}
    if shape == "empty":
        spec["streams"] = {}
        return spec
    if size_class == "small":
        big_metric = None
    streams = {}
    first = None  # coupled: latency/service_time/processing_time have the same counts (as SamplePostprocessor writes them)
    for m in REQUEST_METRICS:
        if coupled and first is not None and big_metric is None:
            # same counts as the first request metric, other values
            w0, n0 = expand_stream(first)
            s = {"n": _value_list(draw, min(len(n0), 6))}
            if len(n0) > 6:
                s["nf"] = _fill_block(draw, len(n0) - 6)
            if w0:
                s["w"] = _value_list(draw, min(len(w0), 4))
                if len(w0) > 4:
                    s["wf"] = _fill_block(draw, len(w0) - 4)
        else:
            s = _stream(draw, size_class if m == big_metric else "small")
        if first is None:
            first = s
        streams[m] = s
    if shape != "no-throughput":
        streams["throughput"] = _stream(draw, "small", 1e9, zeros=tp_zeros)
    if shape == "warmup-only":
        for m, s in streams.items():
            w, n = expand_stream(s)
            streams[m] = {"n": [], "w": (w + n)[:6] or [1.5]}
    spec["streams"] = streams
    spec["fail_n"] = _fail_pattern(draw)
    spec["fail_w"] = _fail_pattern(draw)
    return spec


# global (cluster level) telemetry records ------------------------------------------------------
SUM_TIME_METRICS = {  # store name -> (result attribute, per-shard result attribute)
    "indexing_total_time": ("total_time", "total_time_per_shard"),
    "indexing_throttle_time": ("indexing_throttle_time", "indexing_throttle_time_per_shard"),
    "merges_total_time": ("merge_time", "merge_time_per_shard"),
    "refresh_total_time": ("refresh_time", "refresh_time_per_shard"),
    "flush_total_time": ("flush_time", "flush_time_per_shard"),
    "merges_total_throttled_time": ("merge_throttle_time", "merge_throttle_time_per_shard"),
}
SUM_METRICS = {
    "merges_total_count": "merge_count",
    "refresh_total_count": "refresh_count",
    "flush_total_count": "flush_count",
    "node_total_young_gen_gc_time": "young_gc_time",
    "node_total_young_gen_gc_count": "young_gc_count",
    "node_total_old_gen_gc_time": "old_gc_time",
    "node_total_old_gen_gc_count": "old_gc_count",
    "node_total_zgc_cycles_gc_time": "zgc_cycles_gc_time",
    "node_total_zgc_cycles_gc_count": "zgc_cycles_gc_count",
    "node_total_zgc_pauses_gc_time": "zgc_pauses_gc_time",
    "node_total_zgc_pauses_gc_count": "zgc_pauses_gc_count",
    "dataset_size_in_bytes": "dataset_size",
    "store_size_in_bytes": "store_size",
    "translog_size_in_bytes": "translog_size",
    "ingest_pipeline_cluster_count": "ingest_pipeline_cluster_count",
    "ingest_pipeline_cluster_time": "ingest_pipeline_cluster_time",
    "ingest_pipeline_cluster_failed": "ingest_pipeline_cluster_failed",
}
MEDIAN_METRICS = {
    "segments_memory_in_bytes": "memory_segments",
    "segments_doc_values_memory_in_bytes": "memory_doc_values",
    "segments_terms_memory_in_bytes": "memory_terms",
    "segments_norms_memory_in_bytes": "memory_norms",
    "segments_points_memory_in_bytes": "memory_points",
    "segments_stored_fields_memory_in_bytes": "memory_stored_fields",
}
TRANSFORM_METRICS = {
    "total_transform_processing_time": "total_transform_processing_times",
    "total_transform_index_time": "total_transform_index_times",
    "total_transform_search_time": "total_transform_search_times",
    "total_transform_throughput": "total_transform_throughput",
}
DISK_METRICS = [
    "disk_usage_total",
    "disk_usage_inverted_index",
    "disk_usage_stored_fields",
    "disk_usage_doc_values",
    "disk_usage_points",
    "disk_usage_norms",
    "disk_usage_term_vectors",
]


_CNT = st.integers(0, 10**7) | st.sampled_from([0, 1, 59999, 60000])
_BIGCNT = _CNT | st.integers(0, 10**12)
_BYTES = st.integers(0, 10**10) | st.sampled_from([2**40 + 5, 3 * 2**40 + 2**39, 2**41, 2**50])  # (fields of more than a TiB exist)
_SUM_TIME_NAMES = st.lists(st.sampled_from(sorted(SUM_TIME_METRICS)), max_size=3, unique=True)
_SUM_NAMES = st.lists(st.sampled_from(sorted(SUM_METRICS)), max_size=4, unique=True)
_MEDIAN_NAMES = st.lists(st.sampled_from(sorted(MEDIAN_METRICS)), max_size=2, unique=True)
_SHARDS = st.lists(_CNT, min_size=1, max_size=5)
_SEG = st.lists(st.integers(0, 5000), max_size=4)
_ML4 = st.lists(st.sampled_from([0.0, 1.0, 2.5]) | st.floats(1e-3, 1e6, allow_nan=False), min_size=4, max_size=4)
_FIELDS = st.lists(st.sampled_from(["_id", "_source", "title", "geo"]), min_size=1, max_size=2, unique=True)
_DISK_PARTS = st.lists(st.tuples(_BYTES, st.booleans()), min_size=len(DISK_METRICS) - 1, max_size=len(DISK_METRICS) - 1)
_FEW = st.sampled_from([0, 0, 1, 2])
# the indices of two races need not be the same, and one that only one race has may sort before one that both have
_INDEX_NAMES = st.sampled_from([[], [], ["idx-0"], ["idx-0", "idx-1"], ["archive", "idx-0"], ["idx-0"], ["idx-1"], ["archive", "idx-0", "idx-1"], ["idx-0", "zz-last"]])


def _global_records(draw):
    g = {"sum_time": {}, "sum": {}, "median": {}, "segments_count": [], "ml": [], "transform": [], "disk": []}
    for name in draw(_SUM_TIME_NAMES):
        docs = []
        for _ in range(draw(ints(1, 2))):
            shards = draw(_SHARDS)
            docs.append({"value": sum(shards) if draw(_BOOL) else draw(_CNT), "per_shard": shards})
        g["sum_time"][name] = docs
    for name in draw(_SUM_NAMES):
        g["sum"][name] = draw(st.lists(_BIGCNT, min_size=1, max_size=3))
    for name in draw(_MEDIAN_NAMES):
        g["median"][name] = draw(st.lists(_BYTES, min_size=1, max_size=4))
    g["segments_count"] = draw(_SEG)
    for j in range(draw(_FEW)):
        vals = sorted(draw(_ML4))
        g["ml"].append({"job": f"job-{j}", "min": vals[0], "mean": vals[1], "median": vals[2], "max": vals[3]})
    for j in range(draw(_FEW)):
        vals = draw(fixed_list(value(1e7), len(TRANSFORM_METRICS)))
        for name, v in zip(sorted(TRANSFORM_METRICS), vals):
            g["transform"].append({"name": name, "id": f"transform-{j}", "value": v})
    for idx in draw(_INDEX_NAMES):
        for field in draw(_FIELDS):
            parts = draw(_DISK_PARTS)
            for name, (v, present) in zip(DISK_METRICS[1:], parts):
                if present:
                    g["disk"].append({"name": name, "index": idx, "field": field, "value": v})
            g["disk"].append({"name": "disk_usage_total", "index": idx, "field": field, "value": sum(v for v, _ in parts)})
    return g


_RACE_KNOBS = st.tuples(
    st.sampled_from([1, 2, 2, 3, 3, 4]),
    st.sampled_from(["small"] * 40 + ["large"] * 6 + ["huge"] * 2),
    st.integers(0, 3),
    st.sampled_from([True, True, False]),
    st.sampled_from([None, None, {"tag": "x"}]),
    st.sampled_from([False, False, False, True]),
    st.sampled_from([["defaults"], ["4gheap", "ea"], "external"]),
    st.sampled_from([{}, {}, {"name": "nightly", "os": "linux"}]),
    st.lists(st.sampled_from([1, 1, 1, 2, 3]), min_size=4, max_size=4),
)


@st.composite
def record_race(draw, max_tasks=4, allow_big=True, with_globals=None):
    """one race described by its metric records"""
    n_tasks, size, big_task, wg, track_meta, auto_challenge, car, user_tags, groups = draw(_RACE_KNOBS)
    n_tasks = min(n_tasks, max_tasks)
    if not allow_big:
        size = "small"
    big_task %= n_tasks
    tasks = [_task_spec(draw, i, size if i == big_task else "small") for i in range(n_tasks)]
    for t in tasks:
        if t["op_type"] != "open-point-in-time" and draw(st.integers(0, 4)) == 0:
            t["sub_requests"] = True
    # a task's name defaults to the name of its operation (docs/track.rst): in a class of cases one task carries the default name while
    # another task with an explicit name runs the same operation (e.g. "warmup-term" and "term", both running operation "term")
    if n_tasks >= 2 and draw(st.integers(0, 2)) == 0:
        i = draw(st.integers(0, n_tasks - 1))
        j = draw(st.integers(0, n_tasks - 2))
        j = j if j < i else j + 1
        tasks[j]["op"], tasks[j]["op_type"] = tasks[i]["op"], tasks[i]["op_type"]
        if tasks[i]["op"] not in [t["name"] for t in tasks]:
            tasks[i]["name"] = tasks[i]["op"]
    # schedule layout: indices grouped; a group of >= 2 is a parallel element
    layout, i = [], 0
    for k in groups:
        if i >= n_tasks:
            break
        layout.append(list(range(i, min(i + k, n_tasks))))
        i += k
    if with_globals is None:
        with_globals = wg
    return {
        "tasks": tasks,
        "layout": layout,
        "globals": _global_records(draw) if with_globals else None,
        "track_meta": track_meta,
        "auto_challenge": auto_challenge,
        "car": car,
        "user_tags": user_tags,
    }


# ------------------------------------------------------------------------------------------------ whole result structures
PCT_KEYS = ["50_0", "90_0", "99_0", "99_9", "99_99", "100_0"]


def _pct_keys_for(level):
    return [["100_0"], ["50_0", "100_0"], ["50_0", "90_0", "100_0"], PCT_KEYS[:3] + ["100_0"], PCT_KEYS[:4] + ["100_0"], PCT_KEYS][level]


_NUM_POS = st.one_of(
    st.sampled_from([0, 0.0, 1, 1.0, 100, 1e-6, 1e-5, 0.004, 0.005, 0.01, 59999, 60000, 1e9]),
    st.integers(0, 10**9),
    st.floats(1e-6, 1e9, allow_nan=False, allow_infinity=False),
    st.floats(1e-3, 5000, allow_nan=False, allow_infinity=False),
)
_NUM_NEG = st.one_of(_NUM_POS, _NUM_POS.map(lambda v: -v))


def result_number(negative=False):
    return _NUM_NEG if negative else _NUM_POS


_ITEM_KNOBS = st.tuples(
    st.sampled_from([None, 0, 1, 2, 3, 4, 5, 5]),
    st.sampled_from([True, True, True, False]),
    st.sampled_from(_TP_UNITS),
    st.booleans(),
    st.sampled_from([o for o, _ in _OPS]),
    st.sampled_from([0.0, 0.0, 0.0, 1.0, 0.5, 1 / 3, 1e-4, 0.00004]),
    st.sampled_from([None, 0, 1234, 600000.0, 86400000]),
    st.booleans(),
)


def _op_metrics_item(draw, name, num):
    level, tp_present, unit, unit_none, op, error_rate, duration, meta = draw(_ITEM_KNOBS)

    def pct():
        if level is None:
            return {}
        keys = _pct_keys_for(level)
        vals = draw(fixed_list(num, len(keys) + 1))
        d = dict(zip(keys, sorted(vals[:-1])))
        d["mean"] = vals[-1]
        d["unit"] = "ms"
        return d

    if tp_present:
        tv = sorted(draw(fixed_list(num, 4)))
        tp = {"min": tv[0], "mean": tv[1], "median": tv[2], "max": tv[3], "unit": unit}
    else:
        tp = {"min": None, "mean": None, "median": None, "max": None, "unit": None if unit_none else unit}
    item = {
        "task": name,
        "operation": op,
        "throughput": tp,
        "latency": pct(),
        "service_time": pct(),
        "processing_time": pct(),
        "error_rate": error_rate,
        "duration": duration,
    }
    if meta:
        item["meta"] = {"tag": "x"}
    return item


_SCALAR_ATTRS = (
    [a for _n, (a, _s) in sorted(SUM_TIME_METRICS.items())] + [a for _n, a in sorted(SUM_METRICS.items())] + [a for _n, a in sorted(MEDIAN_METRICS.items())]
)
_SHARD_ATTRS = [s for _n, (_a, s) in sorted(SUM_TIME_METRICS.items())]
_TASK_NAME_LIST = st.lists(st.sampled_from(_TASK_NAMES), max_size=4)


@functools.lru_cache(maxsize=None)
def _optional_numbers(num, n):
    return st.lists(st.one_of(st.none(), num, num), min_size=n, max_size=n)


@st.composite
def result_dict(draw, task_names=None, negative=False):
    """a result structure with every key Rally writes (GlobalStats.as_dict), absent metrics as None / [] / {}"""
    num = result_number(negative)
    if task_names is None:
        task_names = [f"{n}-{i}" for i, n in enumerate(draw(_TASK_NAME_LIST))]
    d = {"op_metrics": [_op_metrics_item(draw, n, num) for n in task_names]}
    scalars = draw(_optional_numbers(num, len(_SCALAR_ATTRS)))
    d.update(zip(_SCALAR_ATTRS, scalars))
    for shard_attr, present in zip(_SHARD_ATTRS, draw(fixed_list(_BOOL, len(_SHARD_ATTRS)))):
        if present:
            v = sorted(draw(fixed_list(num, 3)))
            d[shard_attr] = {"min": v[0], "median": v[1], "max": v[2], "unit": "ms"}
        else:
            d[shard_attr] = {}
    d["segment_count"] = draw(sf(None, 0, 1, 17, 18, 5000))
    d["ml_processing_time"] = []
    for j in range(draw(_FEW)):
        v = sorted(draw(fixed_list(num, 4)))
        d["ml_processing_time"].append({"job": f"job-{j}", "min": v[0], "mean": v[1], "median": v[2], "max": v[3], "unit": "ms"})
    n_tf = draw(_FEW)
    for _name, attr in sorted(TRANSFORM_METRICS.items()):
        vals = draw(fixed_list(num, n_tf))
        d[attr] = [{"id": f"transform-{j}", "mean": vals[j], "unit": "docs/s" if attr.endswith("throughput") else "ms"} for j in range(n_tf)]
    disk = {name: [] for name in DISK_METRICS}
    for idx in draw(_INDEX_NAMES):
        for field in draw(_FIELDS):
            parts = draw(_DISK_PARTS)
            for name, (v, present) in zip(DISK_METRICS[1:], parts):
                if present:
                    disk[name].append({"index": idx, "field": field, "value": v, "unit": "byte"})
            disk["disk_usage_total"].append({"index": idx, "field": field, "value": sum(v for v, _ in parts), "unit": "byte"})
    d.update(disk)
    return d


# ------------------------------------------------------------------------------------------------ real objects
RACE_TS = datetime.datetime(2024, 3, 1, 12, 30, 15)


class StaticClock:
    NOW = 1_700_000_000.0

    @staticmethod
    def now():
        return StaticClock.NOW

    @staticmethod
    def stop_watch():
        return StaticStopWatch()


class StaticStopWatch:
    def start(self):
        pass

    def stop(self):
        pass

    def split_time(self):
        return 0

    def total_time(self):
        return 0


def make_config(root_dir, race_id, car=None, user_tags=None, ts=RACE_TS):
    from esrally import config

    cfg = config.Config()
    S = config.Scope.application
    cfg.add(S, "node", "root.dir", root_dir)
    cfg.add(S, "node", "rally.cwd", root_dir)
    cfg.add(S, "system", "env.name", "verif")
    cfg.add(S, "system", "time.start", ts)
    cfg.add(S, "system", "race.id", race_id)
    cfg.add(S, "system", "list.max_results", 100)
    cfg.add(S, "reporting", "datastore.type", "in-memory")
    cfg.add(S, "mechanic", "car.names", car if car is not None else ["defaults"])
    cfg.add(S, "mechanic", "car.params", {})
    cfg.add(S, "mechanic", "plugin.params", {})
    cfg.add(S, "race", "user.tags", user_tags or {})
    cfg.add(S, "race", "pipeline", "benchmark-only")
    cfg.add(S, "track", "params", {})
    return cfg


def make_race(cfg, trk, challenge, track_revision="abc123"):
    """as metrics.create_race builds it, minus version.revision() (which forks `git` twice per call)"""
    from esrally import metrics

    return metrics.Race(
        "2.12.0",
        "deadbeef",
        cfg.opts("system", "env.name"),
        cfg.opts("system", "race.id"),
        cfg.opts("system", "time.start"),
        cfg.opts("race", "pipeline"),
        cfg.opts("race", "user.tags", default_value={}, mandatory=False),
        trk,
        cfg.opts("track", "params"),
        challenge,
        cfg.opts("mechanic", "car.names"),
        cfg.opts("mechanic", "car.params"),
        cfg.opts("mechanic", "plugin.params"),
        track_revision,
    )


class Model:
    """what was put, per task and metric, as plain lists (reference input)"""

    def __init__(self):
        self.tasks = {}  # name -> dict(spec=..., normal={metric: [...]}, warm={metric: [...]}, fail_n=[bool], fail_w=[bool], rel_n=[..], rel_w=[..], unit={})
        self.order = []
        self.globals = None


def materialize(race_case, root_dir, race_id, ts=RACE_TS):
    """-> cfg, track, challenge, store, model"""
    from esrally import metrics, track

    cfg = make_config(root_dir, race_id, car=race_case.get("car"), user_tags=race_case.get("user_tags"), ts=ts)
    tasks = []
    for spec in race_case["tasks"]:
        params = {} if spec["report"] else {"include-in-reporting": False}
        op = track.Operation(spec["op"], spec["op_type"], params=params)
        tasks.append(track.Task(spec["name"], op))
    schedule = []
    for group in race_case["layout"]:
        schedule.append(tasks[group[0]] if len(group) == 1 else track.Parallel([tasks[i] for i in group]))
    challenge = track.Challenge("verif-challenge", default=True, auto_generated=race_case.get("auto_challenge", False), schedule=schedule)
    trk = track.Track("verif-track", meta_data=race_case.get("track_meta"), challenges=[challenge])

    store = metrics.InMemoryMetricsStore(cfg, clock=StaticClock)
    store.open(race_id, ts, trk.name, challenge.name, cfg.opts("mechanic", "car.names"))

    model = Model()
    puts = {}  # task name -> the store calls for its records, in the order in which the task produces them
    for spec in race_case["tasks"]:
        name = spec["name"]
        put = puts.setdefault(name, []).append
        m = {"spec": spec, "normal": {}, "warm": {}, "fail_n": [], "fail_w": [], "rel_n": [], "rel_w": [], "unit": {}}
        model.tasks[name] = m
        model.order.append(name)
        for metric in TASK_METRICS:
            w, n = expand_stream(spec["streams"].get(metric))
            m["warm"][metric], m["normal"][metric] = w, n
            unit = spec["tp_unit"] if metric == "throughput" else "ms"
            if w or n:
                m["unit"][metric] = unit
            recs = [(metrics.SampleType.Warmup, i, v) for i, v in enumerate(w)] + [(metrics.SampleType.Normal, i, v) for i, v in enumerate(n)]
            if spec["order"] == "nw":
                recs = recs[len(w) :] + recs[: len(w)]
            elif spec["order"] == "mix":
                recs = recs[0::2] + recs[1::2]
            for st_type, i, v in recs:
                warm = st_type == metrics.SampleType.Warmup
                rel = ((i if warm else len(w) + i) + 1) * spec["dt"]
                meta = None
                if metric in REQUEST_METRICS:
                    failed = fails(spec.get("fail_w") if warm else spec.get("fail_n"), i)
                    meta = {"success": not failed, "client_id": i % 3}
                put(dict(
                    name=metric,
                    value=v,
                    unit=unit,
                    task=name,
                    operation=spec["op"],
                    operation_type=spec["op_type"],
                    sample_type=st_type,
                    absolute_time=StaticClock.NOW + rel,
                    relative_time=rel,
                    meta_data=meta,
                ))
                if metric == "service_time" and spec.get("sub_requests"):
                    # a composite operation: the driver stores one more service_time record per sub-request under the same task name but
                    # with the sub-request's own operation and operation type; they are no samples of the task itself
                    put(dict(
                        name=metric, value=v / 4 + 1, unit=unit, task=name, operation=f"{spec['op']}-sub", operation_type="open-point-in-time",
                        sample_type=st_type, absolute_time=StaticClock.NOW + rel, relative_time=rel, meta_data={"success": True, "client_id": i % 3},
                    ))
            if metric == "service_time":
                m["fail_w"] = [fails(spec.get("fail_w"), i) for i in range(len(w))]
                m["fail_n"] = [fails(spec.get("fail_n"), i) for i in range(len(n))]
                m["rel_w"] = [(i + 1) * spec["dt"] for i in range(len(w))]
                m["rel_n"] = [(len(w) + i + 1) * spec["dt"] for i in range(len(n))]

    # the records of the tasks of a parallel element reach the store interleaved (the driver post-processes the samples of all running
    # tasks together), those of consecutive elements one block after the other
    names = [spec["name"] for spec in race_case["tasks"]]
    for group in race_case["layout"]:
        queues = [list(puts.pop(names[i], [])) for i in group]
        k = 0
        while any(queues):
            for q in queues:
                # (uneven strides, so that the blocks are not of one length)
                for kw in q[: 1 + (k % 3)]:
                    store.put_value_cluster_level(**kw)
                del q[: 1 + (k % 3)]
                k += 1
    for rest in puts.values():
        for kw in rest:
            store.put_value_cluster_level(**kw)

    g = race_case.get("globals")
    model.globals = g
    if g:
        L = metrics.MetaInfoScope.cluster
        for name, docs in sorted(g["sum_time"].items()):
            for d in docs:  # as telemetry.IndexStats.index_time writes them
                store.put_doc({"name": name, "value": d["value"], "unit": "ms", "per-shard": list(d["per_shard"])}, level=L)
        for name, vals in sorted(g["sum"].items()):
            for v in vals:
                if name.endswith("_count") or name.endswith("_failed"):
                    store.put_value_cluster_level(name, v)
                else:
                    store.put_value_cluster_level(name, v, "ms" if name.endswith("time") else "byte")
        for name, vals in sorted(g["median"].items()):
            for v in vals:
                store.put_value_cluster_level(name, v, "byte")
        for v in g["segments_count"]:
            store.put_value_cluster_level("segments_count", v)
        for job in g["ml"]:
            store.put_doc(dict(job, name="ml_processing_time", unit="ms"), level=L)
        for t in g["transform"]:
            unit = "docs/s" if t["name"].endswith("throughput") else "ms"
            store.put_value_cluster_level(t["name"], t["value"], unit, meta_data={"transform_id": t["id"]})
        for d in g["disk"]:
            store.put_value_cluster_level(d["name"], d["value"], meta_data={"index": d["index"], "field": d["field"]}, unit="byte")
    return cfg, trk, challenge, store, model


# ------------------------------------------------------------------------------------------------ reference statistics
def F(x):
    return Fraction(x)


def ref_percentile(sorted_values, p):
    """linear interpolation between closest ranks, rank = p/100 * (n-1) (p100 = max, p50 = median); exact"""
    n = len(sorted_values)
    rank = Fraction(str(p)) / 100 * (n - 1)
    lo = rank.numerator // rank.denominator
    frac = rank - lo
    if frac == 0:
        return F(sorted_values[lo])
    return F(sorted_values[lo]) + (F(sorted_values[lo + 1]) - F(sorted_values[lo])) * frac


def exact_sum(values):
    """exact sum of ints / finite floats (all denominators are powers of two, so one common denominator suffices)"""
    pairs = [v.as_integer_ratio() for v in values]
    den = max(d for _, d in pairs)
    return Fraction(sum(n * (den // d) for n, d in pairs), den)


def ref_mean(values):
    return exact_sum(values) / len(values)


def ref_median(values):
    s = sorted(values)
    n = len(s)
    return F(s[n // 2]) if n % 2 else (F(s[n // 2 - 1]) + F(s[n // 2])) / 2


def ref_percentile_set(n):
    """a percentile p < 100 is reported iff the sample can resolve it: n >= 1 / (1 - p/100); the maximum always"""
    assert n >= 1
    out = [p for p, need in (("50", 2), ("90", 10), ("99", 100), ("99.9", 1000), ("99.99", 10000)) if n >= need]
    return out + ["100"]
