"""
E2 / es_responses: Hypothesis strategies for well-formed Elasticsearch responses (bulk, search, scroll, search_after pages,
composite-aggregation pages) rendered to *text* the way Elasticsearch renders them, plus the small tools the C19 check needs to
talk about such a text without using the code under test (member scanner with offsets, leaf enumeration).

What "the way Elasticsearch renders them" means here (re-derived from SearchResponse / SearchHit / BulkResponse#toXContent):

* compact separators, no whitespace between tokens (everything ES itself writes);
* `_source` is NOT written by ES' serialiser: it is the raw bytes the user indexed, so inside `_source` any JSON formatting is in
  the domain (whitespace after separators, \\uXXXX escapes for non-ASCII, escaped solidus ...);
* strings ES writes itself keep non-ASCII characters as raw UTF-8 (`ensure_ascii=False`); a class of cases renders everything with
  \\uXXXX escapes (an equivalent JSON text, e.g. behind a re-encoding gateway) because the property quantifies over escapes;
* key order.  The default class uses the order ES emits.  The "shuffled" class permutes the members of every object ES writes
  EXCEPT the members of a search hit: `SearchAfterExtractor` works on the text and depends on what follows the last hit's `sort`
  member, and ES always writes a hit as  _index,_id,[_version],_score,[_routing],_source,fields,highlight,sort,matched_queries,
  _explanation,inner_hits  (SearchHit#toInnerXContent).  A failure that needs `_source` *after* `sort` is outside "shapes
  Elasticsearch returns", so that order is never generated.  `aggregations` are written after `hits`; in the shuffled class they
  may come first (harmless for the extractor, a different skipping pattern for `parse`).
"""
from __future__ import annotations

import json
import re

from hypothesis import strategies as st

# ------------------------------------------------------------------------------------------------ rendering


class Raw:
    """a piece of JSON text included verbatim (the `_source` of a hit)"""

    __slots__ = ("text",)

    def __init__(self, text):
        self.text = text


def _java_double(x):
    # Double.toString: 1.0E-5, 1.7976931348623157E308, 100.0  (always a fraction part, upper-case E, no '+')
    r = repr(float(x))
    if "e" in r:
        m, e = r.split("e")
        if "." not in m:
            m += ".0"
        return f"{m}E{int(e)}"
    return r


def ser(obj, ascii_=False, java=True, spaced=False):
    """deterministic JSON serialiser: insertion order of dicts, compact unless `spaced`, Raw included verbatim"""
    out = []
    comma, colon = (", ", ": ") if spaced else (",", ":")

    def w(o):
        if isinstance(o, Raw):
            out.append(o.text)
        elif o is None:
            out.append("null")
        elif o is True:
            out.append("true")
        elif o is False:
            out.append("false")
        elif isinstance(o, int):
            out.append(str(o))
        elif isinstance(o, float):
            out.append(_java_double(o) if java else repr(o))
        elif isinstance(o, str):
            out.append(json.dumps(o, ensure_ascii=ascii_))
        elif isinstance(o, dict):
            out.append("{")
            first = True
            for k, v in o.items():
                if not first:
                    out.append(comma)
                first = False
                out.append(json.dumps(k, ensure_ascii=ascii_))
                out.append(colon)
                w(v)
            out.append("}")
        elif isinstance(o, (list, tuple)):
            out.append("[")
            for i, v in enumerate(o):
                if i:
                    out.append(comma)
                w(v)
            out.append("]")
        else:
            raise TypeError(type(o))

    w(obj)
    return "".join(out)


# ------------------------------------------------------------------------------------------------ text tools (oracle side)
_TOK = re.compile(r'"(?:[^"\\]|\\.)*"|[\[\]{}:,]|[^\s\[\]{}:,"]+', re.S)


def scan_members(text):
    """
    [(path, key_start, value_start, value_end)] for every object member of the JSON text; path = tuple of keys / list indices.
    Independent of json.loads' object model: works on token offsets, so the check can say *where* in the text a member lives.
    """
    toks = [(m.start(), m.group()) for m in _TOK.finditer(text)]
    out = []

    def value(i, path):
        t = toks[i][1]
        if t == "{":
            i += 1
            if toks[i][1] == "}":
                return i + 1
            while True:
                kpos, k = toks[i]
                key = json.loads(k)
                assert toks[i + 1][1] == ":", "scanner: expected ':'"
                vstart = toks[i + 2][0]
                j = value(i + 2, path + (key,))
                vend = toks[j - 1][0] + len(toks[j - 1][1])
                out.append((path + (key,), kpos, vstart, vend))
                if toks[j][1] == ",":
                    i = j + 1
                else:
                    assert toks[j][1] == "}", "scanner: expected '}'"
                    return j + 1
        if t == "[":
            i += 1
            if toks[i][1] == "]":
                return i + 1
            n = 0
            while True:
                j = value(i, path + (n,))
                n += 1
                if toks[j][1] == ",":
                    i = j + 1
                else:
                    assert toks[j][1] == "]", "scanner: expected ']'"
                    return j + 1
        return i + 1

    end = value(0, ())
    assert end == len(toks), "scanner: trailing tokens"
    return out


def leaves(doc):
    """
    [(prefix, value)] for every value of a parsed document in document order, prefix in ijson's documented notation
    (object keys joined by '.', list elements as 'item'); containers are listed too (value = the container).
    """
    out = []

    def walk(o, path):
        out.append((".".join(path), o))
        if isinstance(o, dict):
            for k, v in o.items():
                walk(v, path + [k])
        elif isinstance(o, list):
            for v in o:
                walk(v, path + ["item"])

    walk(doc, [])
    return out


_ADV_CHARS = set('"\\][}{,:')
_ADV_WORDS = ("sort", "errors", "hits", "took", "after_key")


def is_adversarial(s):
    """the NT rule's notion of an adversarial string"""
    if any(c in _ADV_CHARS or ord(c) < 0x20 or ord(c) > 0x7E for c in s):
        return True
    return any(w in s for w in _ADV_WORDS)


def strings_of(o):
    """all strings (keys and values) below o"""
    if isinstance(o, str):
        yield o
    elif isinstance(o, dict):
        for k, v in o.items():
            yield k
            yield from strings_of(v)
    elif isinstance(o, list):
        for v in o:
            yield from strings_of(v)


# ------------------------------------------------------------------------------------------------ alphabets
PLAIN = ["a", "foo", "bar", "2021-01-04T17:09:46.000Z", "user_42", "x y", "10.0.0.1", "vendor-7", "0", "-"]
ADV = [
    '"', "\\", "]", "[", "}", "{", ",", ":",
    'sort"', '"sort":', '"sort"', "sort", "errors", '"errors":true', '"took":1', "hits", "after_key",
    "\n", "\t", "\r", "\x01", "\x1f", "\b", "\f", "/", "\x7f",
    "é", "ß", "日本語", "\u2028", "\xa0", "Ж", "😀", "𝄞",
    '\\"', "\\]", "],[", '"]', "]}", "\\u005d", "\\\\", "null", "true", "1e5", " ",
]  # fmt: skip
RESERVED_KEYS = ["sort", "hits", "took", "after_key", "errors", "total", "timed_out", "_scroll_id", "pit_id", "items", "value", "relation",
                 "aggregations", "status", "_shards", "error"]  # fmt: skip
PLAIN_KEYS = ["f", "name", "ts", "user.id", "geo", "msg", "@timestamp", "n"]
INDEX_NAMES = ["logs", "logs-[2021.01]", "sort", "idx-é", "a.b-000001", "{x}"]
INTS = [0, 1, -1, 7, 42, 299, 1000, 10000, 1609780186, 1609780186000, 2**31, 2**53 + 1, 2**63 - 1, -(2**63), 2**64 - 1]
FLOATS = [0.0, -0.0, 1.0, 1.5, -2.25, 0.1, 1e-5, 1e16, 1.7976931348623157e308, 5e-324, 1609780186000.123, 3.4028235e38, 9.835454e6]


def text(adv, max_parts=4):
    frags = (ADV + ADV + PLAIN) if adv else PLAIN
    return st.lists(st.sampled_from(frags), min_size=0, max_size=max_parts).map("".join)


def name(adv):
    """non-empty object key chosen by a user (field name, source name)"""
    return st.sampled_from(RESERVED_KEYS + PLAIN_KEYS) | text(adv, 3).map(lambda s: s or "k")


def agg_name(adv):
    # ES: "Aggregation names can contain any character except '[', ']', and '>'"
    return name(adv).map(lambda s: s.replace("[", "(").replace("]", ")").replace(">", ")"))


def number():
    return st.sampled_from(INTS) | st.sampled_from(FLOATS) | st.integers(-5, 300)


def scalar(adv):
    return st.one_of(text(adv), text(adv), number(), st.none(), st.booleans())


def json_value(adv, max_leaves=6):
    return st.recursive(
        scalar(adv),
        lambda c: st.lists(c, max_size=3) | st.dictionaries(name(adv), c, max_size=3),
        max_leaves=max_leaves,
    )


def b64ish():
    return st.lists(st.sampled_from(["FGluY2x1ZGVfY29udGV4dF91dWlk", "DXF1ZXJ5QW5kRmV0Y2gB", "46ToAwMDaWR5", "AAAAAAAAAAEWd0k=", "z-_", "=="]), min_size=1, max_size=3).map(
        "".join
    )


def _shuffled(draw, d, on):
    if not on or len(d) < 2:
        return d
    keys = draw(st.permutations(list(d)))
    return {k: d[k] for k in keys}


# ------------------------------------------------------------------------------------------------ search building blocks
@st.composite
def source_doc(draw, adv):
    doc = draw(st.dictionaries(name(adv), json_value(adv, 5), max_size=4))
    big = draw(st.integers(0, 39))
    if big == 0:
        # a long string value: makes the response cross ijson's 16 KiB read buffer, with escapes at arbitrary offsets
        frag = draw(st.sampled_from(['\\"', "x", "]\\", 'é"', '"sort":[', "😀", "\\\\", "abc\n"]))
        reps = draw(st.sampled_from([700, 2048, 4100, 8200]))
        pad = draw(st.integers(0, 9))
        doc[draw(st.sampled_from(["blob", "sort", "message"]))] = "p" * pad + frag * reps
    style = draw(st.sampled_from(["compact", "compact", "compact-ascii", "spaced", "spaced-ascii"]))
    return Raw(ser(doc, ascii_=style.endswith("ascii"), java=False, spaced=style.startswith("spaced")))


def sort_values(adv):
    v = st.one_of(text(adv), text(adv), st.sampled_from(INTS), st.sampled_from(FLOATS), st.integers(0, 50), st.none())
    return st.lists(v, min_size=1, max_size=3)


def total(style, value, relation="eq"):
    if style == "object":
        return {"value": value, "relation": relation}
    return value


@st.composite
def inner_hits(draw, adv, with_sort):
    out = {}
    for nm in draw(st.lists(agg_name(adv), min_size=1, max_size=2, unique=True)):
        hs = []
        for k in range(draw(st.integers(0, 2))):
            h = {"_index": "logs", "_id": str(k), "_nested": {"field": nm, "offset": k}, "_score": 1.0, "_source": draw(source_doc(adv))}
            if with_sort:
                h["sort"] = draw(sort_values(adv))
            hs.append(h)
        out[nm] = {"hits": {"total": {"value": len(hs), "relation": "eq"}, "max_score": None if with_sort else 1.0, "hits": hs}}
    return out


@st.composite
def hit(draw, adv, with_sort, rich):
    """one search hit, members in the order SearchHit#toInnerXContent writes them (never shuffled, see module doc)"""
    h = {"_index": draw(st.sampled_from(INDEX_NAMES)), "_id": draw(text(adv, 2))}
    if draw(st.integers(0, 5)) == 0:
        h["_version"] = draw(st.integers(1, 9))
    h["_score"] = None if with_sort else draw(st.sampled_from(FLOATS))
    if rich and draw(st.integers(0, 4)) == 0:
        h["_routing"] = draw(text(adv, 2))
    h["_source"] = draw(source_doc(adv))
    if rich and draw(st.integers(0, 3)) == 0:
        h["fields"] = draw(st.dictionaries(name(adv), st.lists(scalar(adv), min_size=1, max_size=2), min_size=1, max_size=2))
    if rich and draw(st.integers(0, 3)) == 0:
        h["highlight"] = draw(st.dictionaries(name(adv), st.lists(text(adv).map(lambda s: "<em>" + s + "</em>"), min_size=1, max_size=2), min_size=1, max_size=2))
    if with_sort:
        h["sort"] = draw(sort_values(adv))
    if rich and draw(st.integers(0, 5)) == 0:
        h["matched_queries"] = draw(st.lists(name(adv), min_size=1, max_size=2))
    if rich and draw(st.integers(0, 7)) == 0:
        h["_explanation"] = {"value": 1.5, "description": draw(text(adv)), "details": []}
    if rich and draw(st.integers(0, 4)) == 0:
        h["inner_hits"] = draw(inner_hits(adv, with_sort and draw(st.booleans())))
    return h


@st.composite
def hit_list(draw, adv, with_sort, rich, lo=0, hi=5, allow_long=False):
    size_class = draw(st.integers(0, 19))
    if size_class == 0 and allow_long:
        # many hits from two templates: a long response
        tpl = [draw(hit(adv, with_sort, rich)) for _ in range(2)]
        n = draw(st.sampled_from([40, 120]))
        return [dict(tpl[k % 2], _id=f"{tpl[k % 2]['_id']}{k}") for k in range(n)]
    return [draw(hit(adv, with_sort, rich)) for _ in range(draw(st.integers(lo, hi)))]


@st.composite
def composite_agg_body(draw, adv, after_key):
    a = {}
    if after_key is not None:
        a["after_key"] = after_key
    keys = list(after_key) if after_key else ["k"]
    buckets = []
    for _ in range(draw(st.integers(0, 2))):
        buckets.append({"key": {k: draw(scalar(adv)) for k in keys}, "doc_count": draw(st.integers(0, 99))})
    a["buckets"] = buckets
    return a


@st.composite
def other_agg(draw, adv, depth=0):
    kind = draw(st.sampled_from(["value", "value", "terms", "top_hits", "stats", "filter"] if depth < 2 else ["value", "stats"]))
    if kind == "value":
        return {"value": draw(st.sampled_from(FLOATS) | st.none())}
    if kind == "stats":
        return {"count": 3, "min": 1.0, "max": draw(st.sampled_from(FLOATS)), "avg": 2.0, "sum": 6.0}
    if kind == "terms":
        bs = []
        for _ in range(draw(st.integers(0, 2))):
            b = {"key": draw(text(adv) | st.sampled_from(INTS)), "doc_count": draw(st.integers(0, 99))}
            if draw(st.booleans()):
                b[draw(agg_name(adv))] = draw(other_agg(adv, depth + 1))
            bs.append(b)
        return {"doc_count_error_upper_bound": 0, "sum_other_doc_count": 0, "buckets": bs}
    if kind == "top_hits":
        hs = [draw(hit(adv, True, False)) for _ in range(draw(st.integers(0, 2)))]
        return {"hits": {"total": {"value": len(hs), "relation": "eq"}, "max_score": None, "hits": hs}}
    # single-bucket aggregation with sub-aggregations rendered inline
    a = {"doc_count": draw(st.integers(0, 10**7))}
    for nm in draw(st.lists(agg_name(adv), max_size=2, unique=True)):
        if nm != "doc_count":
            a[nm] = draw(other_agg(adv, depth + 1))
    return a


@st.composite
def aggregations(draw, adv, shuffle, composite_path=None, after_key=None, has_composite=True):
    """aggregations object; when composite_path is given the composite agg sits under that path of single-bucket aggregations"""
    aggs = {}
    for nm in draw(st.lists(agg_name(adv), max_size=2, unique=True)):
        if composite_path and nm == composite_path[0]:
            continue
        aggs[nm] = draw(other_agg(adv))
    if composite_path and has_composite:
        node = draw(composite_agg_body(adv, after_key))
        node = _shuffled(draw, node, shuffle)
        for depth in range(len(composite_path) - 1, 0, -1):
            wrapper = {"doc_count": draw(st.integers(0, 10**7))}
            if draw(st.integers(0, 3)) == 0:
                sib = draw(agg_name(adv))
                if sib not in (composite_path[depth], "doc_count"):
                    wrapper[sib] = draw(other_agg(adv, 2))
            wrapper[composite_path[depth]] = node
            node = _shuffled(draw, wrapper, shuffle)
        aggs[composite_path[0]] = node
        aggs = _shuffled(draw, aggs, True)  # position among the sibling aggregations is arbitrary anyway (a HashMap in ES)
    return aggs


@st.composite
def search_response(
    draw, adv, shuffle, ascii_, hits, total_style, total_value, relation="eq", scroll_id=None, pit_id=None, aggs=None, timed_out=None, took=None
):
    r = {}
    if scroll_id is not None:
        r["_scroll_id"] = scroll_id
    if pit_id is not None:
        r["pit_id"] = pit_id
    r["took"] = draw(st.sampled_from([0, 1, 10, 132, 45000])) if took is None else took
    r["timed_out"] = draw(st.sampled_from([False, False, False, True])) if timed_out is None else timed_out
    if draw(st.integers(0, 9)) == 0:
        r["terminated_early"] = draw(st.booleans())
    sh = {"total": draw(st.integers(1, 9)), "successful": draw(st.integers(0, 9))}
    if draw(st.integers(0, 4)) > 0:
        sh["skipped"] = draw(st.integers(0, 3))
    sh["failed"] = draw(st.sampled_from([0, 0, 0, 1, 2]))
    if sh["failed"]:
        sh["failures"] = [{"shard": 0, "index": "logs", "node": "n1", "reason": {"type": "query_shard_exception", "reason": draw(text(adv))}}]
    r["_shards"] = _shuffled(draw, sh, shuffle)
    h = {}
    if total_style != "absent":
        t = total(total_style, total_value, relation)
        h["total"] = _shuffled(draw, t, shuffle) if isinstance(t, dict) else t
    h["max_score"] = draw(st.sampled_from([None, 1.0, 0.2876821]))
    h["hits"] = hits
    r["hits"] = _shuffled(draw, h, shuffle)
    if aggs:
        r["aggregations"] = aggs
    if draw(st.integers(0, 14)) == 0:
        r["suggest"] = {draw(agg_name(adv)): [{"text": draw(text(adv)), "offset": 0, "length": 4, "options": []}]}
    r = _shuffled(draw, r, shuffle)
    return ser(r, ascii_=ascii_)


# ------------------------------------------------------------------------------------------------ cases
@st.composite
def _render_opts(draw):
    adv = draw(st.integers(0, 9)) < 8
    shuffle = draw(st.integers(0, 9)) < 3
    ascii_ = draw(st.integers(0, 9)) < 3
    return adv, shuffle, ascii_


@st.composite
def bulk_case(draw, tier):
    adv, shuffle, ascii_ = draw(_render_opts())
    T = text(adv)
    mode = draw(st.sampled_from(["ok", "ok", "ok", "mixed", "mixed", "mixed", "mixed", "mixed", "soft"]))
    outcomes = {
        "ok": ["created", "created", "updated", "deleted", "noop", "s299"],
        "soft": ["created", "updated", "shard_failed", "del404"],
        "mixed": ["created", "updated", "deleted", "noop", "s299", "shard_failed", "del404", "fail", "fail", "fail", "fail"],
    }[mode]
    templates = []
    for _ in range(draw(st.integers(1, 5))):
        oc = draw(st.sampled_from(outcomes))
        t = {"_index": draw(st.sampled_from(INDEX_NAMES))}
        if draw(st.integers(0, 5)) == 0:
            t["_type"] = "_doc"
        t["_id"] = draw(text(adv, 2))
        ok_shards = draw(st.sampled_from([{"total": 2, "successful": 1, "failed": 0}, {"total": 2, "successful": 2, "failed": 0}, {"total": 1, "successful": 1, "failed": 0}]))
        if oc == "fail":
            op = draw(st.sampled_from(["index", "index", "create", "update", "delete"]))
            t["status"] = draw(st.sampled_from([400, 400, 404, 409, 429, 429, 500, 503, 300]))
            form = draw(st.sampled_from(["object", "object", "object", "object", "caused_by", "null_reason", "string"]))
            if form == "string":
                t["error"] = "RemoteTransportException[" + draw(T) + "]"
            else:
                e = {"type": draw(st.sampled_from(["mapper_parsing_exception", "version_conflict_engine_exception", "es_rejected_execution_exception", "document_missing_exception"]))}
                e["reason"] = None if form == "null_reason" else draw(T)
                if draw(st.booleans()):
                    e.update({"index_uuid": "aAsFqTI0Tc2W0LCWgPNrOA", "shard": "0", "index": t["_index"]})
                if form == "caused_by":
                    e["caused_by"] = {"type": "illegal_argument_exception", "reason": draw(T)}
                t["error"] = _shuffled(draw, e, shuffle)
        else:
            op, result, status, shards = {
                "created": (draw(st.sampled_from(["index", "create"])), "created", 201, ok_shards),
                "updated": (draw(st.sampled_from(["index", "update"])), "updated", 200, ok_shards),
                "deleted": ("delete", "deleted", 200, ok_shards),
                "noop": ("update", "noop", 200, {"total": 0, "successful": 0, "failed": 0}),
                "s299": ("index", "created", 299, ok_shards),  # boundary value of the status rule, no ES version emits it
                "del404": ("delete", "not_found", 404, ok_shards),
                "shard_failed": (
                    draw(st.sampled_from(["index", "create", "update"])),
                    "created",
                    201,
                    {
                        "total": 2,
                        "successful": 1,
                        "failed": 1,
                        "failures": [{"_index": t["_index"], "_shard": 0, "_node": "n2", "reason": {"type": "node_disconnected_exception", "reason": draw(T)}, "status": "INTERNAL_SERVER_ERROR", "primary": False}],
                    },
                ),
            }[oc]
            t.update({"_version": 1, "result": result, "_shards": _shuffled(draw, shards, shuffle), "_seq_no": 0, "_primary_term": 1, "status": status})
        templates.append((op, _shuffled(draw, t, shuffle)))
    max_rep = 120 if tier == "quick" else 300
    reps = st.sampled_from([1, 1, 1, 1, 2, 3, 7, 40, max_rep])
    runs = draw(st.lists(st.tuples(st.integers(0, len(templates) - 1), reps), min_size=0, max_size=7))
    items = []
    for ti, rep in runs:
        op, t = templates[ti]
        for _ in range(rep):
            if len(items) >= 300:
                break
            it = dict(t)
            it["_id"] = f"{t['_id']}{len(items)}"
            items.append({op: it})
    errors = any("error" in next(iter(i.values())) for i in items)  # BulkResponse#hasFailures: an item failed iff it carries a failure
    took = draw(st.sampled_from([0, 3, 30, 2147483647]))
    layout = "shuffled" if shuffle else draw(st.sampled_from(["es8", "es7"]))
    ingest = draw(st.integers(0, 3)) == 0
    if layout == "es7":
        r = {"took": took}
        if ingest:
            r["ingest_took"] = draw(st.integers(0, 99))
        r["errors"] = errors
        r["items"] = items
    else:
        r = {"errors": errors, "took": took}
        if ingest:
            r["ingest_took"] = draw(st.integers(0, 99))
        r["items"] = items
        r = _shuffled(draw, r, shuffle)
    unit = draw(st.sampled_from(["docs", "docs", "docs", "ops", "MB"]))
    return {
        "kind": "bulk",
        "resp": [ser(r, ascii_=ascii_)],
        "unit": unit,
        "bulk_size": len(items) if unit == "docs" else draw(st.integers(1, 5000)),
    }


def _total_style():
    return st.sampled_from(["object", "object", "object", "int", "int"])


@st.composite
def search_case(draw, tier):
    adv, shuffle, ascii_ = draw(_render_opts())
    hits = draw(hit_list(adv, draw(st.booleans()), True, 0, 6, allow_long=True))
    style = draw(st.sampled_from(["object", "object", "object", "int", "int", "absent"]))
    aggs = draw(aggregations(adv, shuffle)) if draw(st.integers(0, 2)) == 0 else None
    rel = draw(st.sampled_from(["eq", "eq", "gte"]))
    resp = draw(search_response(adv, shuffle, ascii_, hits, style, draw(st.sampled_from([0, 1, len(hits), 10000, 2**40])), rel, aggs=aggs))
    return {"kind": "search", "resp": [resp]}


@st.composite
def scroll_case(draw, tier):
    adv, shuffle, ascii_ = draw(_render_opts())
    size = draw(st.sampled_from([None, 1, 2, 3, 10]))
    style = draw(_total_style())
    n_pages = draw(st.integers(1, 4))
    limit = draw(st.sampled_from(["all", "all", "limit"]))
    rel = draw(st.sampled_from(["eq", "eq", "gte"]))
    resps = []
    if n_pages == 1 and limit == "all" and draw(st.booleans()):
        # everything fits on the first page: fewer hits than the page size (or none at all)
        value = 0 if size in (None, 1) else draw(st.integers(0, size - 1))
        hits = draw(hit_list(adv, False, True, min(value, 1), min(value, 3)))
        resps.append(draw(search_response(adv, shuffle, ascii_, hits, style, value, rel, scroll_id=draw(b64ish()))))
        return {"kind": "scroll", "resp": resps, "size": size, "pages": "all"}
    value = draw(st.sampled_from([10, 10, 37, 10000])) if size is not None else draw(st.sampled_from([1, 10, 10000]))
    value = max(value, size or 1)
    sid = draw(b64ish())
    for k in range(n_pages):
        last = k == n_pages - 1
        empty = last and limit == "all" and n_pages > 1
        hits = [] if empty else draw(hit_list(adv, False, True, 1, 4 if tier == "quick" else 8, allow_long=True))
        resps.append(draw(search_response(adv, shuffle, ascii_, hits, style, value, rel, scroll_id=sid if k == 0 or draw(st.booleans()) else draw(b64ish()))))
    pages = "all" if (limit == "all" and n_pages > 1) else n_pages
    return {"kind": "scroll", "resp": resps, "size": size, "pages": pages}


@st.composite
def paginated_case(draw, tier):
    adv, shuffle, ascii_ = draw(_render_opts())
    size = draw(st.integers(1, 4))
    n_pages = draw(st.sampled_from([1, 1, 2, 2, 2, 3]))
    pit = draw(st.booleans())
    style = draw(_total_style())
    natural = draw(st.booleans())
    if natural:
        value = draw(st.integers(size * (n_pages - 1) + 1, size * n_pages))  # ceil(value / size) == n_pages
        rel = "eq"
        pages = draw(st.sampled_from(["all", n_pages, n_pages + 2]))
    else:
        value = draw(st.sampled_from([10000, 2**33]))
        rel = "gte"
        pages = n_pages
    with_aggs = draw(st.integers(0, 5)) == 0
    resps = []
    for k in range(n_pages):
        hits = draw(hit_list(adv, True, True, 1, size))
        aggs = draw(aggregations(adv, shuffle)) if with_aggs else None
        resps.append(draw(search_response(adv, shuffle, ascii_, hits, style, value, rel, pit_id=draw(b64ish()) if pit else None, aggs=aggs)))
    return {"kind": "paginated", "resp": resps, "size": size, "pages": pages, "pit": pit, "hits_total": draw(st.sampled_from([None, None, 7]))}


def after_key_value(adv):
    return st.one_of(text(adv), text(adv), st.sampled_from(INTS), st.sampled_from(FLOATS), st.booleans(), st.none(), st.integers(0, 9))


@st.composite
def composite_case(draw, tier):
    adv, shuffle, ascii_ = draw(_render_opts())
    path = draw(st.lists(agg_name(adv).map(lambda s: "dc" if s == "doc_count" else s), min_size=1, max_size=3, unique=True))
    sources = draw(st.lists(name(adv), min_size=1, max_size=3, unique=True))
    n_pages = draw(st.sampled_from([1, 2, 2, 3]))
    limit = draw(st.sampled_from(["all", "all", "limit"]))
    pit = draw(st.booleans())
    style = draw(_total_style())
    value = draw(st.sampled_from([0, 3, 10000]))
    resps = []
    for k in range(n_pages):
        last = k == n_pages - 1
        has_key = not (last and limit == "all")
        ak = {s: draw(after_key_value(adv)) for s in sources} if has_key else None
        # the last page of a full traversal: composite present without after_key, or (rarely) the aggregation missing altogether
        has_comp = has_key or draw(st.integers(0, 5)) > 0
        aggs = draw(aggregations(adv, shuffle, path, ak, has_comp))
        hits = draw(hit_list(adv, draw(st.booleans()), False, 0, 2)) if draw(st.integers(0, 3)) == 0 else []
        resps.append(
            draw(search_response(adv, shuffle, ascii_, hits, style, value, draw(st.sampled_from(["eq", "gte"])), pit_id=draw(b64ish()) if pit else None, aggs=aggs or None))
        )
    return {
        "kind": "composite",
        "resp": resps,
        "path": path,
        "sources": sources,
        "size": draw(st.sampled_from([None, 2, 100])),
        "pages": "all" if limit == "all" else n_pages,
        "pit": pit,
        "aggs_key": draw(st.sampled_from(["aggs", "aggregations"])),
        "hits_total": draw(st.sampled_from([None, None, 7])),
    }


def _unique_prefixes(doc):
    seen = {}
    for p, v in leaves(doc):
        seen.setdefault(p, []).append(v)
    return {p: vs[0] for p, vs in seen.items() if len(vs) == 1 and p}


@st.composite
def parse_case(draw, tier):
    """direct differential test of runner.parse with drawn property / list / object selections on any of the response kinds"""
    base = draw(st.one_of(search_case(tier), bulk_case(tier), composite_case(tier), paginated_case(tier)))
    textv = draw(st.sampled_from(base["resp"]))
    doc = json.loads(textv)
    uniq = _unique_prefixes(doc)
    scalars = [p for p, v in uniq.items() if not isinstance(v, (dict, list))]
    lists_ = [p for p, v in uniq.items() if isinstance(v, list)]
    flats = [p for p, v in uniq.items() if isinstance(v, dict) and all(not isinstance(x, (dict, list)) for x in v.values())]
    absent = ["nope", "hits.nope", "took.x", "hits.total.value.x", "items.item.index.status", "aggregations.zz.after_key"]
    absent = [a for a in absent if a not in {p for p, _ in leaves(doc)}]
    props = draw(st.lists(st.sampled_from(scalars), max_size=5, unique=True)) if scalars else []
    props += draw(st.lists(st.sampled_from(absent), max_size=1)) if absent else []
    lists = draw(st.none() | st.lists(st.sampled_from(lists_), max_size=3, unique=True)) if lists_ else draw(st.sampled_from([None, []]))
    objects = draw(st.none() | st.lists(st.sampled_from(flats), max_size=2, unique=True)) if flats else draw(st.sampled_from([None, []]))
    if objects:
        # a property inside a requested object is claimed by `props` (documented precedence is none; callers never do it)
        props = [p for p in props if not any(p.startswith(o + ".") for o in objects)]
    if draw(st.integers(0, 5)) == 0:
        missing = draw(st.sampled_from(["nope.list", "aggregations.zz.after_key"]))
        if missing not in uniq:
            if draw(st.booleans()) and lists is not None:
                lists = lists + [missing]
            elif objects is not None:
                objects = objects + [missing]
    return {"kind": "parse", "resp": [textv], "props": draw(st.permutations(props)) if props else [], "lists": lists, "objects": objects}


def cases(tier):
    return st.one_of(
        bulk_case(tier),
        bulk_case(tier),
        search_case(tier),
        scroll_case(tier),
        scroll_case(tier),
        paginated_case(tier),
        paginated_case(tier),
        paginated_case(tier),
        composite_case(tier),
        composite_case(tier),
        parse_case(tier),
        parse_case(tier),
    )
