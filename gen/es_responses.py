"""
E2 / es_responses: Hypothesis strategies for well-formed Elasticsearch responses (bulk, search, scroll, search_after pages,
composite-aggregation pages) rendered to *text* the way Elasticsearch renders them, plus the small tools the C19 check needs to
talk about such a text without using the code under test (member scanner with offsets, leaf enumeration).

What "the way Elasticsearch renders them" means here (re-derived from SearchResponse / SearchHit / BulkResponse#toXContent):

* compact separators, no whitespace between tokens (everything ES itself writes);
* `_source` is NOT written by ES' serialiser: it is the raw bytes the user indexed, so inside `_source` any JSON formatting is in
  the domain (whitespace after separators, \\uXXXX escapes for non-ASCII, escaped solidus ...);
* strings ES writes itself keep non-ASCII characters as raw UTF-8 (`ensure_ascii=False`); a class of cases renders everything with
  \\uXXXX escapes (an equivalent JSON text, e.g. behind a re-encoding gateway) because the property quantifies over escapes;
* key order.  The default class uses the order ES emits.  The "shuffled" class permutes the members of every object ES writes
  EXCEPT the members of a search hit: `SearchAfterExtractor` works on the text and depends on what follows the last hit's `sort`
  member, and ES always writes a hit as  _index,_id,[_version],_score,[_routing],_source,fields,highlight,sort,matched_queries,
  _explanation,inner_hits  (SearchHit#toInnerXContent).  A failure that needs `_source` *after* `sort` is outside "shapes
  Elasticsearch returns", so that order is never generated.  `aggregations` are written after `hits`; in the shuffled class they
  may come first (harmless for the extractor, a different skipping pattern for `parse`).
"""
from __future__ import annotations

import functools
import json
import re

from hypothesis import strategies as st

# ------------------------------------------------------------------------------------------------ rendering


class Raw:
    """a piece of JSON text included verbatim (the `_source` of a hit)"""

    __slots__ = ("text",)

    def __init__(self, text):
        self.text = text


def _java_double(x):
    # Double.toString: 1.0E-5, 1.7976931348623157E308, 100.0  (always a fraction part, upper-case E, no '+')
    r = repr(float(x))
    if "e" in r:
        m, e = r.split("e")
        if "." not in m:
            m += ".0"
        return f"{m}E{int(e)}"
    return r


def ser(obj, ascii_=False, java=True, spaced=False):
    """deterministic JSON serialiser: insertion order of dicts, compact unless `spaced`, Raw included verbatim"""
    out = []
    comma, colon = (", ", ": ") if spaced else (",", ":")

    def w(o):
        if isinstance(o, Raw):
            out.append(o.text)
        elif o is None:
            out.append("null")
        elif o is True:
            out.append("true")
        elif o is False:
            out.append("false")
        elif isinstance(o, int):
            out.append(str(o))
        elif isinstance(o, float):
            out.append(_java_double(o) if java else repr(o))
        elif isinstance(o, str):
            out.append(json.dumps(o, ensure_ascii=ascii_))
        elif isinstance(o, dict):
            out.append("{")
            first = True
            for k, v in o.items():
                if not first:
                    out.append(comma)
                first = False
                out.append(json.dumps(k, ensure_ascii=ascii_))
                out.append(colon)
                w(v)
            out.append("}")
        elif isinstance(o, (list, tuple)):
            out.append("[")
            for i, v in enumerate(o):
                if i:
                    out.append(comma)
                w(v)
            out.append("]")
        else:
            raise TypeError(type(o))

    w(obj)
    return "".join(out)


# ------------------------------------------------------------------------------------------------ text tools (oracle side)
_TOK = re.compile(r'"(?:[^"\\]|\\.)*"|[\[\]{}:,]|[^\s\[\]{}:,"]+', re.S)


@functools.lru_cache(maxsize=32)
def scan_members(text):
    """
    [(path, key_start, value_start, value_end)] for every object member of the JSON text; path = tuple of keys / list indices.
    Independent of json.loads' object model: works on token offsets, so the check can say *where* in the text a member lives.
    """
    toks = [(m.start(), m.group()) for m in _TOK.finditer(text)]
    out = []

    def value(i, path):
        t = toks[i][1]
        if t == "{":
            i += 1
            if toks[i][1] == "}":
                return i + 1
            while True:
                kpos, k = toks[i]
                key = json.loads(k)
                assert toks[i + 1][1] == ":", "scanner: expected ':'"
                vstart = toks[i + 2][0]
                j = value(i + 2, path + (key,))
                vend = toks[j - 1][0] + len(toks[j - 1][1])
                out.append((path + (key,), kpos, vstart, vend))
                if toks[j][1] == ",":
                    i = j + 1
                else:
                    assert toks[j][1] == "}", "scanner: expected '}'"
                    return j + 1
        if t == "[":
            i += 1
            if toks[i][1] == "]":
                return i + 1
            n = 0
            while True:
                j = value(i, path + (n,))
                n += 1
                if toks[j][1] == ",":
                    i = j + 1
                else:
                    assert toks[j][1] == "]", "scanner: expected ']'"
                    return j + 1
        return i + 1

    end = value(0, ())
    assert end == len(toks), "scanner: trailing tokens"
    return out


def leaves(doc):
    """
    [(prefix, value)] for every value of a parsed document in document order, prefix in ijson's documented notation
    (object keys joined by '.', list elements as 'item'); containers are listed too (value = the container).
    """
    out = []

    def walk(o, path):
        out.append((".".join(path), o))
        if isinstance(o, dict):
            for k, v in o.items():
                walk(v, path + [k])
        elif isinstance(o, list):
            for v in o:
                walk(v, path + ["item"])

    walk(doc, [])
    return out


_ADV_CHARS = set('"\\][}{')


def is_adversarial(s):
    """
    the NT rule's notion of an adversarial string: contains a quote, backslash, bracket, brace, control character or non-ASCII
    character (all need escaping or can derail a textual scan), or contains the word `sort` / `errors` without being exactly a member
    name Elasticsearch writes itself.  (',' and ':' are in the generation alphabet but occur in every timestamp, so they do not count.)
    """
    if any(c in _ADV_CHARS or ord(c) < 0x20 or ord(c) > 0x7E for c in s):
        return True
    return ("sort" in s or "errors" in s) and s not in ("sort", "errors")


def strings_of(o):
    """all strings (keys and values) below o"""
    if isinstance(o, str):
        yield o
    elif isinstance(o, dict):
        for k, v in o.items():
            yield k
            yield from strings_of(v)
    elif isinstance(o, list):
        for v in o:
            yield from strings_of(v)


# ------------------------------------------------------------------------------------------------ alphabets
PLAIN = ["a", "foo", "bar", "2021-01-04T17:09:46.000Z", "user_42", "x y", "10.0.0.1", "vendor-7", "0", "-"]
ADV = [
    '"', "\\", "]", "[", "}", "{", ",", ":",
    'sort"', '"sort":', '"sort"', "sort", "errors", '"errors":true', '"took":1', "hits", "after_key",
    "\n", "\t", "\r", "\x01", "\x1f", "\b", "\f", "/", "\x7f",
    "é", "ß", "日本語", "\u2028", "\xa0", "Ж", "😀", "𝄞",
    '\\"', "\\]", "],[", '"]', "]}", "\\u005d", "\\\\", "null", "true", "1e5", " ",
]  # fmt: skip
RESERVED_KEYS = ["value", "hits", "took", "after_key", "errors", "total", "sort", "timed_out", "_scroll_id", "pit_id", "items", "relation",
                 "aggregations", "status", "_shards", "error"]  # fmt: skip
PLAIN_KEYS = ["f", "name", "ts", "user.id", "geo", "msg", "@timestamp", "n"]
INDEX_NAMES = ["logs", "logs-[2021.01]", "sort", "idx-é", "a.b-000001", "{x}"]
INTS = [0, 1, -1, 7, 42, 299, 1000, 10000, 1609780186, 1609780186000, 2**31, 2**53 + 1, 2**63 - 1, -(2**63), 2**64 - 1]
FLOATS = [0.0, -0.0, 1.0, 1.5, -2.25, 0.1, 1e-5, 1e16, 1.7976931348623157e308, 5e-324, 1609780186000.123, 3.4028235e38, 9.835454e6]


# Strategy objects are built once (Hypothesis validates every new strategy object on first draw, which dominated the run time when
# they were built inside the composites); the building blocks below are plain functions taking `draw`.
_i = functools.lru_cache(maxsize=None)(st.integers)
_B = st.booleans()


@functools.lru_cache(maxsize=None)
def _sf(*values):
    return st.sampled_from(values)


def _one_in(draw, n):
    return draw(_i(0, n - 1)) == 0


@functools.lru_cache(maxsize=None)
def text(adv, max_parts=4):
    frags = (ADV + ADV + PLAIN) if adv else PLAIN
    return st.lists(st.sampled_from(frags), min_size=0, max_size=max_parts).map("".join)


@functools.lru_cache(maxsize=None)
def name(adv):
    """non-empty object key chosen by a user (field name, source name)"""
    return st.sampled_from(RESERVED_KEYS + PLAIN_KEYS) | text(adv, 3).map(lambda s: s or "k")


def _agg_safe(s):
    # ES: "Aggregation names can contain any character except '[', ']', and '>'"; doc_count is what single-bucket aggregations emit
    s = s.replace("[", "(").replace("]", ")").replace(">", ")")
    return "dc" if s == "doc_count" else s


@functools.lru_cache(maxsize=None)
def agg_name(adv):
    return name(adv).map(_agg_safe)


_NUMBER = st.sampled_from(INTS) | st.sampled_from(FLOATS) | st.integers(-5, 300)


@functools.lru_cache(maxsize=None)
def scalar(adv):
    return st.one_of(text(adv), text(adv), _NUMBER, st.none(), st.booleans())


@functools.lru_cache(maxsize=None)
def json_value(adv, max_leaves=5):
    return st.recursive(
        scalar(adv),
        lambda c: st.lists(c, max_size=3) | st.dictionaries(name(adv), c, max_size=3),
        max_leaves=max_leaves,
    )


@functools.lru_cache(maxsize=None)
def _source_dict(adv):
    return st.dictionaries(name(adv), json_value(adv), max_size=3)


@functools.lru_cache(maxsize=None)
def _fields_dict(adv):
    return st.dictionaries(name(adv), st.lists(scalar(adv), min_size=1, max_size=2), min_size=1, max_size=2)


@functools.lru_cache(maxsize=None)
def _highlight_dict(adv):
    return st.dictionaries(name(adv), st.lists(text(adv).map(lambda s: "<em>" + s + "</em>"), min_size=1, max_size=2), min_size=1, max_size=2)


@functools.lru_cache(maxsize=None)
def sort_values(adv):
    frags = (ADV + ADV + PLAIN) if adv else PLAIN
    t1 = st.lists(st.sampled_from(frags), min_size=1, max_size=4).map("".join)  # keyword sort values are mostly non-empty
    v = st.one_of(t1, t1, t1, t1, text(adv), st.sampled_from(INTS), st.sampled_from(FLOATS), st.integers(0, 50), st.none())
    return st.lists(v, min_size=1, max_size=3)


@functools.lru_cache(maxsize=None)
def after_key_value(adv):
    t, i, f, b, n = text(adv), st.sampled_from(INTS), st.sampled_from(FLOATS), st.booleans(), st.integers(0, 9)
    return st.one_of(t, t, t, t, i, i, i, f, f, f, b, b, b, n, n, st.none())  # null (missing bucket) 1 in 16


@functools.lru_cache(maxsize=None)
def _names(adv, lo, hi, agg):
    return st.lists(agg_name(adv) if agg else name(adv), min_size=lo, max_size=hi, unique=True)


@functools.lru_cache(maxsize=None)
def _name_list(adv):
    return st.lists(name(adv), min_size=1, max_size=2)


_B64 = st.lists(st.sampled_from(["FGluY2x1ZGVfY29udGV4dF91dWlk", "DXF1ZXJ5QW5kRmV0Y2gB", "46ToAwMDaWR5", "AAAAAAAAAAEWd0k=", "z-_", "=="]), min_size=1, max_size=3).map(
    "".join
)


def _shuffled(draw, d, on):
    """d with its members permuted (Fisher-Yates over drawn integers) when `on`"""
    if not on or len(d) < 2:
        return d
    keys = list(d)
    for i in range(len(keys) - 1, 0, -1):
        j = draw(_i(0, i))
        keys[i], keys[j] = keys[j], keys[i]
    return {k: d[k] for k in keys}


# ------------------------------------------------------------------------------------------------ search building blocks
_SOURCE_STYLES = ("compact", "compact", "compact-ascii", "spaced", "spaced-ascii")
_BLOB_FRAGS = ('\\"', "x", "]\\", 'é"', '"sort":[', "😀", "\\\\", "abc\n")


def source_doc(draw, adv):
    doc = draw(_source_dict(adv))
    if _one_in(draw, 40):
        # a long string value: makes the response cross ijson's 16 KiB read buffer, with escapes at arbitrary offsets
        frag = draw(_sf(*_BLOB_FRAGS))
        reps = draw(_sf(700, 2048, 4100, 8200))
        pad = draw(_i(0, 9))
        doc[draw(_sf("blob", "sort", "message"))] = "p" * pad + frag * reps
    style = draw(_sf(*_SOURCE_STYLES))
    return Raw(ser(doc, ascii_=style.endswith("ascii"), java=False, spaced=style.startswith("spaced")))


def total(style, value, relation="eq"):
    if style == "object":
        return {"value": value, "relation": relation}
    return value


def inner_hits(draw, adv, with_sort):
    out = {}
    for nm in draw(_names(adv, 1, 2, True)):
        hs = []
        for k in range(draw(_i(0, 2))):
            h = {"_index": "logs", "_id": str(k), "_nested": {"field": nm, "offset": k}, "_score": 1.0, "_source": source_doc(draw, adv)}
            if with_sort:
                h["sort"] = draw(sort_values(adv))
            hs.append(h)
        out[nm] = {"hits": {"total": {"value": len(hs), "relation": "eq"}, "max_score": None if with_sort else 1.0, "hits": hs}}
    return out


def hit(draw, adv, with_sort, rich):
    """one search hit, members in the order SearchHit#toInnerXContent writes them (never shuffled, see module doc)"""
    h = {"_index": draw(_sf(*INDEX_NAMES)), "_id": draw(text(adv, 2))}
    if _one_in(draw, 6):
        h["_version"] = draw(_i(1, 9))
    h["_score"] = None if with_sort else draw(_sf(*FLOATS))
    extras = draw(_i(0, 63)) if rich else 0  # one draw decides which optional members exist
    if extras & 1 and extras & 2:
        h["_routing"] = draw(text(adv, 2))
    h["_source"] = source_doc(draw, adv)
    if extras & 4 and extras & 8:
        h["fields"] = draw(_fields_dict(adv))
    if extras & 16 and extras & 32:
        h["highlight"] = draw(_highlight_dict(adv))
    if with_sort:
        h["sort"] = draw(sort_values(adv))
    if rich:
        after = draw(_i(0, 19))  # members ES writes after `sort`
        if after in (0, 1, 2):
            h["matched_queries"] = draw(_name_list(adv))
        if after in (2, 3):
            h["_explanation"] = {"value": 1.5, "description": draw(text(adv)), "details": []}
        if after in (4, 5, 6, 7):
            h["inner_hits"] = inner_hits(draw, adv, with_sort and after == 7)
    return h


def hit_list(draw, adv, with_sort, rich, lo=0, hi=5, allow_long=False):
    if allow_long and _one_in(draw, 20):
        # many hits from two templates: a long response
        tpl = [hit(draw, adv, with_sort, rich) for _ in range(2)]
        n = draw(_sf(40, 120))
        return [dict(tpl[k % 2], _id=f"{tpl[k % 2]['_id']}{k}") for k in range(n)]
    return [hit(draw, adv, with_sort, rich) for _ in range(draw(_i(lo, hi)))]


def composite_agg_body(draw, adv, after_key):
    a = {}
    if after_key is not None:
        a["after_key"] = after_key
    keys = list(after_key) if after_key else ["k"]
    buckets = []
    for _ in range(draw(_i(0, 2))):
        buckets.append({"key": {k: draw(scalar(adv)) for k in keys}, "doc_count": draw(_i(0, 99))})
    a["buckets"] = buckets
    return a


def other_agg(draw, adv, depth=0):
    kind = draw(_sf("value", "value", "terms", "top_hits", "stats", "filter") if depth < 2 else _sf("value", "stats"))
    if kind == "value":
        return {"value": draw(_sf(None, *FLOATS))}
    if kind == "stats":
        return {"count": 3, "min": 1.0, "max": draw(_sf(*FLOATS)), "avg": 2.0, "sum": 6.0}
    if kind == "terms":
        bs = []
        for _ in range(draw(_i(0, 2))):
            b = {"key": draw(text(adv)) if draw(_B) else draw(_sf(*INTS)), "doc_count": draw(_i(0, 99))}
            if draw(_B):
                b[draw(agg_name(adv))] = other_agg(draw, adv, depth + 1)
            bs.append(b)
        return {"doc_count_error_upper_bound": 0, "sum_other_doc_count": 0, "buckets": bs}
    if kind == "top_hits":
        hs = [hit(draw, adv, True, False) for _ in range(draw(_i(0, 2)))]
        return {"hits": {"total": {"value": len(hs), "relation": "eq"}, "max_score": None, "hits": hs}}
    # single-bucket aggregation with sub-aggregations rendered inline
    a = {"doc_count": draw(_i(0, 10**7))}
    for nm in draw(_names(adv, 0, 2, True)):
        a[nm] = other_agg(draw, adv, depth + 1)
    return a


def aggregations(draw, adv, shuffle, composite_path=None, after_key=None, has_composite=True):
    """aggregations object; when composite_path is given the composite agg sits under that path of single-bucket aggregations"""
    aggs = {}
    for nm in draw(_names(adv, 0, 2, True)):
        if composite_path and nm == composite_path[0]:
            continue
        aggs[nm] = other_agg(draw, adv)
    if composite_path and has_composite:
        node = _shuffled(draw, composite_agg_body(draw, adv, after_key), shuffle)
        for depth in range(len(composite_path) - 1, 0, -1):
            wrapper = {"doc_count": draw(_i(0, 10**7))}
            if _one_in(draw, 4):
                sib = draw(agg_name(adv))
                if sib != composite_path[depth]:
                    wrapper[sib] = other_agg(draw, adv, 2)
            wrapper[composite_path[depth]] = node
            node = _shuffled(draw, wrapper, shuffle)
        aggs[composite_path[0]] = node
        aggs = _shuffled(draw, aggs, True)  # position among the sibling aggregations is arbitrary anyway (a HashMap in ES)
    return aggs


def search_response(
    draw, adv, shuffle, ascii_, hits, total_style, total_value, relation="eq", scroll_id=None, pit_id=None, aggs=None, timed_out=None, took=None
):
    r = {}
    if scroll_id is not None:
        r["_scroll_id"] = scroll_id
    if pit_id is not None:
        r["pit_id"] = pit_id
    r["took"] = draw(_sf(0, 1, 10, 132, 45000)) if took is None else took
    r["timed_out"] = draw(_sf(False, False, False, True)) if timed_out is None else timed_out
    if _one_in(draw, 10):
        r["terminated_early"] = draw(_B)
    sh = {"total": draw(_i(1, 9)), "successful": draw(_i(0, 9))}
    if not _one_in(draw, 5):
        sh["skipped"] = draw(_i(0, 3))
    sh["failed"] = draw(_sf(0, 0, 0, 1, 2))
    if sh["failed"]:
        sh["failures"] = [{"shard": 0, "index": "logs", "node": "n1", "reason": {"type": "query_shard_exception", "reason": draw(text(adv))}}]
    r["_shards"] = _shuffled(draw, sh, shuffle)
    h = {}
    if total_style != "absent":
        t = total(total_style, total_value, relation)
        h["total"] = _shuffled(draw, t, shuffle) if isinstance(t, dict) else t
    h["max_score"] = draw(_sf(None, 1.0, 0.2876821))
    h["hits"] = hits
    r["hits"] = _shuffled(draw, h, shuffle)
    if aggs:
        r["aggregations"] = aggs
    if _one_in(draw, 15):
        r["suggest"] = {draw(_sf("my-suggest", "my-suggest", "sort")): [{"text": draw(text(adv)), "offset": 0, "length": 4, "options": []}]}
    r = _shuffled(draw, r, shuffle)
    return ser(r, ascii_=ascii_)


# ------------------------------------------------------------------------------------------------ cases
def _render_opts(draw):
    o = draw(_i(0, 999))
    adv = o % 10 < 8  # 80 % adversarial alphabet
    shuffle = (o // 10) % 10 < 3
    ascii_ = (o // 100) % 10 < 3
    return adv, shuffle, ascii_


_OK_SHARDS = ({"total": 2, "successful": 1, "failed": 0}, {"total": 2, "successful": 2, "failed": 0}, {"total": 1, "successful": 1, "failed": 0})
_OUTCOMES = {
    "ok": ("created", "created", "updated", "deleted", "noop", "s299"),
    "soft": ("created", "updated", "shard_failed", "del404"),
    "softfail": ("shard_failed", "shard_failed", "del404", "created"),
    "fail": ("fail",),
    "mixed": ("created", "updated", "deleted", "noop", "s299", "shard_failed", "del404", "fail", "fail", "fail", "fail", "fail"),
}
_ERR_TYPES = ("mapper_parsing_exception", "version_conflict_engine_exception", "es_rejected_execution_exception", "document_missing_exception")


def _bulk_template(draw, adv, shuffle, outcomes):
    T = text(adv)
    oc = draw(_sf(*outcomes))
    t = {"_index": draw(_sf(*INDEX_NAMES))}
    if _one_in(draw, 6):
        t["_type"] = "_doc"
    t["_id"] = draw(text(adv, 2))
    if oc == "fail":
        op = draw(_sf("index", "index", "create", "update", "delete"))
        t["status"] = draw(_sf(400, 400, 404, 409, 429, 429, 500, 503, 300))
        form = draw(_sf("object", "object", "object", "caused_by", "null_reason", "string", "string"))
        if form == "string":
            t["error"] = "RemoteTransportException[" + draw(T) + "]"
        else:
            e = {"type": draw(_sf(*_ERR_TYPES))}
            e["reason"] = None if form == "null_reason" else draw(T)
            if draw(_B):
                e.update({"index_uuid": "aAsFqTI0Tc2W0LCWgPNrOA", "shard": "0", "index": t["_index"]})
            if form == "caused_by":
                e["caused_by"] = {"type": "illegal_argument_exception", "reason": draw(T)}
            t["error"] = _shuffled(draw, e, shuffle)
        return op, _shuffled(draw, t, shuffle)
    ok_shards = dict(draw(_sf(0, 1, 2)) and _OK_SHARDS[1] or _OK_SHARDS[0])
    if oc == "created":
        op, result, status, shards = draw(_sf("index", "create")), "created", 201, ok_shards
    elif oc == "updated":
        op, result, status, shards = draw(_sf("index", "update")), "updated", 200, ok_shards
    elif oc == "deleted":
        op, result, status, shards = "delete", "deleted", 200, ok_shards
    elif oc == "noop":
        op, result, status, shards = "update", "noop", 200, {"total": 0, "successful": 0, "failed": 0}
    elif oc == "s299":  # boundary value of the status rule, no ES version emits it
        op, result, status, shards = "index", "created", 299, ok_shards
    elif oc == "del404":
        op, result, status, shards = "delete", "not_found", 404, ok_shards
    else:  # shard_failed: the primary succeeded, a replica did not
        op, result, status = draw(_sf("index", "create", "update")), "created", 201
        shards = {
            "total": 2,
            "successful": 1,
            "failed": 1,
            "failures": [
                {"_index": t["_index"], "_shard": 0, "_node": "n2", "reason": {"type": "node_disconnected_exception", "reason": draw(T)}, "status": "INTERNAL_SERVER_ERROR", "primary": False}
            ],
        }
    t.update({"_version": 1, "result": result, "_shards": _shuffled(draw, shards, shuffle), "_seq_no": 0, "_primary_term": 1, "status": status})
    return op, _shuffled(draw, t, shuffle)


@functools.lru_cache(maxsize=None)
def _bulk_runs(n_templates, max_rep):
    return st.lists(st.tuples(st.integers(0, n_templates - 1), st.sampled_from([1, 1, 1, 2, 3, 7, 40, max_rep, max_rep])), min_size=0, max_size=7)


@st.composite
def bulk_case(draw, tier):
    adv, shuffle, ascii_ = _render_opts(draw)
    mode = draw(_sf("ok", "ok", "ok", "mixed", "mixed", "mixed", "mixed", "mixed", "softfail", "softfail", "soft"))
    templates = [_bulk_template(draw, adv, shuffle, _OUTCOMES[mode]) for _ in range(draw(_i(1, 5)))]
    runs = draw(_bulk_runs(len(templates), 120 if tier == "quick" else 300))
    if mode == "softfail":
        # items Elasticsearch does not flag (failed replica, delete of a missing document) next to one it does: errors is true, so the
        # fast path has to count the unflagged ones by its own rule
        templates.append(_bulk_template(draw, adv, shuffle, _OUTCOMES["fail"]))
        runs = [(0, 1)] + runs + [(len(templates) - 1, 1)]
    items = []
    for ti, rep in runs:
        op, t = templates[ti]
        for _ in range(rep):
            if len(items) >= 300:
                break
            it = dict(t)
            it["_id"] = f"{t['_id']}{len(items)}"
            items.append({op: it})
    errors = any("error" in next(iter(i.values())) for i in items)  # BulkResponse#hasFailures: an item failed iff it carries a failure
    took = draw(_sf(0, 3, 30, 2147483647))
    # `shuffle` governs the members of items, errors and _shards; the top level has its own layout: the two orders Elasticsearch
    # writes (8.x: errors,took,items; 7.x: took,errors,items), items first (the parser has to walk all items), or any permutation
    layout = draw(_sf("es8", "es8", "es7", "items-first", "items-first", "shuffled"))
    ingest = _one_in(draw, 4)
    head = {"took": took, "errors": errors} if layout == "es7" or (layout == "items-first" and draw(_B)) else {"errors": errors, "took": took}
    if ingest:
        head["ingest_took"] = draw(_i(0, 99))
        if layout == "es7":
            head = {"took": took, "ingest_took": head["ingest_took"], "errors": errors}
    if layout == "items-first":
        r = {"items": items, **head}
    else:
        r = {**head, "items": items}
        r = _shuffled(draw, r, layout == "shuffled")
    unit = draw(_sf("docs", "docs", "docs", "ops", "MB"))
    return {
        "kind": "bulk",
        "resp": [ser(r, ascii_=ascii_)],
        "unit": unit,
        "bulk_size": len(items) if unit == "docs" else draw(_i(1, 5000)),
    }


_TOTAL_STYLE = _sf("object", "object", "object", "int", "int")


@st.composite
def search_case(draw, tier):
    adv, shuffle, ascii_ = _render_opts(draw)
    hits = hit_list(draw, adv, draw(_B), True, 0, 5, allow_long=True)
    style = draw(_sf("object", "object", "object", "int", "int", "absent"))
    aggs = aggregations(draw, adv, shuffle) if _one_in(draw, 3) else None
    rel = draw(_sf("eq", "eq", "gte"))
    value = draw(_sf(0, 1, 10000, 2**40, -1))
    resp = search_response(draw, adv, shuffle, ascii_, hits, style, len(hits) if value == -1 else value, rel, aggs=aggs)
    return {"kind": "search", "resp": [resp]}


@st.composite
def scroll_case(draw, tier):
    adv, shuffle, ascii_ = _render_opts(draw)
    size = draw(_sf(None, 1, 2, 3, 10))
    style = draw(_TOTAL_STYLE)
    n_pages = draw(_i(1, 4))
    limit = draw(_sf("all", "all", "limit"))
    rel = draw(_sf("eq", "eq", "gte"))
    resps = []
    if n_pages == 1 and limit == "all" and draw(_B):
        # everything fits on the first page: fewer hits than the page size (or none at all)
        value = 0 if size in (None, 1) else draw(_i(0, size - 1))
        hits = hit_list(draw, adv, False, True, min(value, 1), min(value, 3))
        resps.append(search_response(draw, adv, shuffle, ascii_, hits, style, value, rel, scroll_id=draw(_B64)))
        return {"kind": "scroll", "resp": resps, "size": size, "pages": "all"}
    value = draw(_sf(10, 10, 37, 10000)) if size is not None else draw(_sf(1, 10, 10000))
    value = max(value, size or 1)
    sid = draw(_B64)
    for k in range(n_pages):
        last = k == n_pages - 1
        empty = last and limit == "all" and n_pages > 1
        hits = [] if empty else hit_list(draw, adv, False, True, 1, 3 if tier == "quick" else 8, allow_long=True)
        resps.append(search_response(draw, adv, shuffle, ascii_, hits, style, value, rel, scroll_id=sid if k == 0 or draw(_B) else draw(_B64)))
    pages = "all" if (limit == "all" and n_pages > 1) else n_pages
    return {"kind": "scroll", "resp": resps, "size": size, "pages": pages}


@st.composite
def paginated_case(draw, tier):
    adv, shuffle, ascii_ = _render_opts(draw)
    size = draw(_i(1, 4))
    n_pages = draw(_sf(1, 1, 2, 2, 2, 3))
    pit = draw(_B)
    style = draw(_TOTAL_STYLE)
    if draw(_B):
        value = draw(_i(size * (n_pages - 1) + 1, size * n_pages))  # ceil(value / size) == n_pages
        rel = "eq"
        pages = draw(_sf("all", 0, 2))
        pages = pages if pages == "all" else n_pages + pages
    else:
        value = draw(_sf(10000, 2**33))
        rel = "gte"
        pages = n_pages
    with_aggs = _one_in(draw, 6)
    # a search body that also carries a large terms aggregation: tens of KiB of JSON follow the hits (Elasticsearch writes aggregations
    # after them), far more than any read-ahead or tail window
    big_tail = _one_in(draw, 8)
    resps = []
    for k in range(n_pages):
        hits = hit_list(draw, adv, True, True, 1, size)
        aggs = aggregations(draw, adv, shuffle) if with_aggs else None
        if big_tail:
            aggs = dict(aggs or {})
            aggs["by_term"] = {"doc_count_error_upper_bound": 0, "sum_other_doc_count": 0,
                               "buckets": [{"key": "term-%05d" % i, "doc_count": 100000 - i} for i in range(600)]}
        resps.append(search_response(draw, adv, shuffle, ascii_, hits, style, value, rel, pit_id=draw(_B64) if pit else None, aggs=aggs))
    return {"kind": "paginated", "resp": resps, "size": size, "pages": pages, "pit": pit, "hits_total": draw(_sf(None, None, 7))}


@st.composite
def composite_case(draw, tier):
    adv, shuffle, ascii_ = _render_opts(draw)
    path = draw(_names(adv, 1, 3, True))
    sources = draw(_names(adv, 2, 4, False))
    n_pages = draw(_sf(1, 2, 2, 3))
    limit = draw(_sf("all", "all", "limit"))
    pit = draw(_B)
    style = draw(_TOTAL_STYLE)
    value = draw(_sf(0, 3, 10000))
    resps = []
    for k in range(n_pages):
        last = k == n_pages - 1
        has_key = not (last and limit == "all")
        ak = {s: draw(after_key_value(adv)) for s in sources} if has_key else None
        # the last page of a full traversal: composite present without after_key, or (rarely) the aggregation missing altogether
        has_comp = has_key or not _one_in(draw, 6)
        aggs = aggregations(draw, adv, shuffle, path, ak, has_comp)
        hits = hit_list(draw, adv, draw(_B), False, 0, 2) if _one_in(draw, 4) else []
        resps.append(search_response(draw, adv, shuffle, ascii_, hits, style, value, draw(_sf("eq", "gte")), pit_id=draw(_B64) if pit else None, aggs=aggs or None))
    return {
        "kind": "composite",
        "resp": resps,
        "path": path,
        "sources": sources,
        "size": draw(_sf(None, 2, 100)),
        "pages": "all" if limit == "all" else n_pages,
        "pit": pit,
        "aggs_key": draw(_sf("aggs", "aggregations")),
        "hits_total": draw(_sf(None, None, 7)),
        # the worker's one Query runner / extractor has served another composite aggregation (other name and nesting) before
        "primed": _one_in(draw, 3),
    }


def _unique_prefixes(doc):
    seen = {}
    for p, v in leaves(doc):
        seen.setdefault(p, []).append(v)
    return {p: vs[0] for p, vs in seen.items() if len(vs) == 1 and p}


def _pick(draw, pool, max_n):
    """up to max_n distinct elements of pool, in drawn order"""
    pool = list(pool)
    out = []
    for _ in range(min(draw(_i(0, max_n)), len(pool))):
        out.append(pool.pop(draw(_i(0, len(pool) - 1))))
    return out


_ABSENT = ("nope", "hits.nope", "took.x", "hits.total.value.x", "items.item.index.status", "aggregations.zz.after_key")


@functools.lru_cache(maxsize=None)
def _parse_base(tier):
    return st.one_of(search_case(tier), bulk_case(tier), composite_case(tier), paginated_case(tier), scroll_case(tier))


@st.composite
def parse_case(draw, tier):
    """direct differential test of runner.parse with drawn property / list / object selections on any of the response kinds"""
    base = draw(_parse_base(tier))
    textv = base["resp"][draw(_i(0, len(base["resp"]) - 1))]
    doc = json.loads(textv)
    uniq = _unique_prefixes(doc)
    everything = {p for p, _ in leaves(doc)}
    scalars = [p for p, v in uniq.items() if not isinstance(v, (dict, list))]
    # the paths Rally's callers ask for come first so that they are picked often
    usual = [p for p in ("took", "timed_out", "errors", "hits.total", "hits.total.value", "hits.total.relation", "_scroll_id", "pit_id", "_shards.failed") if p in scalars]
    lists_ = [p for p, v in uniq.items() if isinstance(v, list)]
    flats = [p for p, v in uniq.items() if isinstance(v, dict) and all(not isinstance(x, (dict, list)) for x in v.values())]
    absent = [a for a in _ABSENT if a not in everything]
    props = _pick(draw, usual, 4) + [p for p in _pick(draw, scalars, 3)]
    props = list(dict.fromkeys(props))
    if absent and _one_in(draw, 3):
        props.append(absent[draw(_i(0, len(absent) - 1))])
    lists = None if _one_in(draw, 3) else _pick(draw, lists_, 3)
    objects = None if _one_in(draw, 3) else _pick(draw, flats, 2)
    if objects:
        # a property inside a requested flat object is not a use any caller makes (and `props` would claim the member)
        props = [p for p in props if not any(p.startswith(o + ".") for o in objects)]
    if _one_in(draw, 6):
        missing = draw(_sf("nope.list", "aggregations.zz.after_key"))
        if missing not in everything:
            if draw(_B) and lists is not None:
                lists = lists + [missing]
            elif objects is not None:
                objects = objects + [missing]
    return {"kind": "parse", "resp": [textv], "props": list(_shuffled(draw, dict.fromkeys(props), True)), "lists": lists, "objects": objects}


@functools.lru_cache(maxsize=None)
def cases(tier):
    weights = [(bulk_case, 4), (search_case, 1), (scroll_case, 2), (paginated_case, 5), (composite_case, 5), (parse_case, 3)]
    return st.one_of(*[f(tier) for f, w in weights for _ in range(w)])
