"""
gen/tracks.py - track models for C10 (loader fidelity / rejection), built on gen/schedules.py.

    track_models(...)            Hypothesis strategy -> JSON-able track *model* (valid by construction)
    to_doc(model)                model -> (track JSON document as a dict, {file name: JSON document} for index bodies / templates)
    expected(model, selected)    reference interpretation of docs/track.rst: what the loaded Track must contain (plain dicts)
    observe(track)               the same shape read off a real esrally.track.Track
    render(doc, files, layout, params, directory)   writes track.json (+ parts, + body files) with Jinja parameters; returns
                                 (path of track.json, user supplied track parameters)

MODEL (close to the track JSON, but schedules are gen/schedules.py specs and file contents are inline):
{
  "description": str?, "meta": {..}?,
  "store": "indices" | "data-streams" | "none",
  "indices": [{"name", "types": [str]?, "body": {..}?}],  "data-streams": [{"name"}],
  "templates": [{"name", "index-pattern", "delete-matching-indices"?, "content": {..}}],  "composable-templates": [same],
  "component-templates": [{"name", "content": {..}}],
  "corpora": [{"name", "meta"?, <corpus level defaults>?, "documents": [{"source-file", "document-count", ...}]}],
  "form": "schedule" | "challenge" | "challenges",
  "challenges": [{"name", "description"?, "user-info"?, "default"?, "meta"?, "schedule": <spec>}],
}
LAYOUT: {"order": int (key order permutation), "import": bool, "ops_part": bool, "challenge_parts": bool, "nested_part": bool}
PARAMS: [{"site": int, "supplied": bool}, ...]  - site indexes the deterministic list of scalar values of all rendered documents
"""
from __future__ import annotations

import copy
import hashlib
import json
import os

from hypothesis import strategies as st

from gen import schedules as S

ARCHIVE_EXTENSIONS = (".bz2", ".gz", ".zst", ".zip")


def relies_on_corpus_default_without_store(model):
    """
    True when the track declares neither indices nor data streams and some document set (without action-and-meta-data) takes its
    target-index / target-data-stream / target-type from the corpus-level default (docs/track.rst: "you can specify default values on
    document corpus level")
    """
    if model["indices"] or model["data-streams"]:
        return False
    for c in model["corpora"]:
        for d in c["documents"]:
            if d.get("includes-action-and-meta-data", c.get("includes-action-and-meta-data", False)):
                continue
            if any(k in c and k not in d for k in ("target-index", "target-data-stream", "target-type")):
                return True
    return False
CORPUS_DEFAULT_KEYS = ("base-url", "source-format", "includes-action-and-meta-data", "target-index", "target-type", "target-data-stream")
_BODIES = (
    {"settings": {"index.number_of_shards": 5, "index.number_of_replicas": 0}, "mappings": {"properties": {"f": {"type": "keyword"}}}},
    {"settings": {"index.number_of_shards": 1}},
    {"settings": {"index": {"refresh_interval": "30s", "codec": "best_compression"}}, "mappings": {"dynamic": "strict"}},
)


# ------------------------------------------------------------------------------------------------------------------ strategy
@st.composite
def _corpus(draw, i, store, index_names, ds_names, types_of):
    c = {"name": f"corpus-{i}"}
    if draw(st.integers(0, 3)) == 2:
        c["meta"] = {"license": "x", "n": i}
    if draw(st.integers(0, 2)) == 1:
        c["base-url"] = draw(st.sampled_from(["http://example.org/corpora/a", "https://benchmarks.example.org/c"]))
    if draw(st.integers(0, 4)) == 3:
        c["source-format"] = "bulk"
    if draw(st.integers(0, 3)) == 1:
        c["includes-action-and-meta-data"] = draw(st.booleans())
    # corpus-level target defaults (only where the documented defaulting is unambiguous for the store in use)
    corpus_target = None
    if store == "indices" and draw(st.booleans()):
        corpus_target = c["target-index"] = draw(st.sampled_from(index_names))
        if draw(st.integers(0, 2)) == 1:
            c["target-type"] = "ctype"
    elif store == "data-streams" and draw(st.booleans()):
        corpus_target = c["target-data-stream"] = draw(st.sampled_from(ds_names))
    none_kind = None
    if store == "none":
        # neither indices nor data streams are declared (e.g. the indices are created by create-index operations)
        none_kind = draw(st.sampled_from(["target-index", "target-data-stream"]))
        if draw(st.integers(0, 2)) == 1:
            corpus_target = c[none_kind] = f"{'idx' if none_kind == 'target-index' else 'ds'}-c{i}"
            if none_kind == "target-index" and draw(st.integers(0, 2)) == 1:
                c["target-type"] = "ctype"
    docs = []
    for j in range(draw(st.integers(1, 3))):
        ext = draw(st.sampled_from(("",) + ARCHIVE_EXTENSIONS))
        d = {"source-file": f"{draw(st.sampled_from(['documents', 'docs-part', 'a_b']))}-{i}-{j}.json{ext}", "document-count": draw(st.integers(1, 10**7))}
        if ext and draw(st.booleans()):
            d["compressed-bytes"] = draw(st.integers(1, 10**9))
        if draw(st.booleans()):
            d["uncompressed-bytes"] = draw(st.integers(1, 10**10))
        if draw(st.integers(0, 3)) == 1:
            d["base-url"] = "http://example.org/other"
        if draw(st.integers(0, 4)) == 2:
            d["source-format"] = "bulk"
        if draw(st.integers(0, 3)) == 2:
            d["includes-action-and-meta-data"] = draw(st.booleans())
        if draw(st.integers(0, 4)) == 1:
            d["meta"] = {"part": j}
        iaamd = d.get("includes-action-and-meta-data", c.get("includes-action-and-meta-data", False))
        # targets: written where mandatory, optionally elsewhere
        if store == "indices":
            must = not iaamd and corpus_target is None and len(index_names) > 1
            if must or draw(st.integers(0, 2)) == 1:
                d["target-index"] = draw(st.sampled_from(index_names))
            if draw(st.integers(0, 4)) == 1:
                d["target-type"] = "dtype"
        elif store == "data-streams":
            must = not iaamd and corpus_target is None and len(ds_names) > 1
            if must or draw(st.integers(0, 2)) == 1:
                d["target-data-stream"] = draw(st.sampled_from(ds_names))
        else:
            # the target is written on the document unless the corpus carries a default
            must = not iaamd and corpus_target is None
            if must or draw(st.integers(0, 2)) == 1:
                d[none_kind] = f"{'idx' if none_kind == 'target-index' else 'ds'}-{i}-{j}"
        docs.append(d)
    c["documents"] = docs
    return c


@st.composite
def track_models(
    draw,
    *,
    min_challenges=1,
    max_challenges=3,
    form=None,
    store=None,
    min_corpora=0,
    max_elements=4,
    need_parallel=False,
    need_ref_ops=False,
    schedule_kw=None,
):
    m = {}
    if draw(st.integers(0, 3)) != 2:
        m["description"] = draw(st.sampled_from(["POIs from Geonames", "unit test track #1", "x"]))
    if draw(st.integers(0, 3)) == 1:
        m["meta"] = draw(st.sampled_from([{"owner": "team-a"}, {"k": 1, "l": [1, 2]}]))
    store = store or draw(st.sampled_from(["indices", "indices", "data-streams", "none"]))
    m["store"] = store
    m["indices"], m["data-streams"] = [], []
    types_of = {}
    if store == "indices":
        for i in range(draw(st.integers(1, 2))):
            idx = {"name": f"index-{i}"}
            if draw(st.integers(0, 2)) == 1:
                idx["types"] = [f"type{i}"]
            if draw(st.booleans()):
                idx["body"] = copy.deepcopy(draw(st.sampled_from(_BODIES)))
            m["indices"].append(idx)
            types_of[idx["name"]] = idx.get("types", [])
    elif store == "data-streams":
        m["data-streams"] = [{"name": f"logs-ds-{i}"} for i in range(draw(st.integers(1, 2)))]
    for key in ("templates", "composable-templates"):
        m[key] = []
        if draw(st.integers(0, 3)) == 1:
            t = {"name": f"{key}-0", "index-pattern": "my-index-*", "content": {"index_patterns": ["my-index-*"], "template": {"settings": {"number_of_shards": 2}}}}
            if draw(st.booleans()):
                t["delete-matching-indices"] = draw(st.booleans())
            m[key].append(t)
    m["component-templates"] = []
    if draw(st.integers(0, 4)) == 1:
        m["component-templates"].append({"name": "component-0", "content": {"template": {"mappings": {"properties": {"a": {"type": "long"}}}}}})
    index_names = [i["name"] for i in m["indices"]]
    ds_names = [d["name"] for d in m["data-streams"]]
    m["corpora"] = [draw(_corpus(i, store, index_names, ds_names, types_of)) for i in range(draw(st.integers(min_corpora, 2)))]

    n = draw(st.integers(min_challenges, max_challenges))
    if form is None:
        form = "challenges" if n > 1 else draw(st.sampled_from(["schedule", "challenge", "challenges"]))
    m["form"] = form
    default_idx = draw(st.integers(0, n - 1))
    kw = dict(max_elements=max_elements, max_parallel_tasks=3, max_clients=8, max_ops=3)
    kw.update(schedule_kw or {})
    m["challenges"] = []
    for i in range(n):
        c = {"name": f"{draw(st.sampled_from(['append-no-conflicts', 'challenge', 'Q']))}-{i}"}
        if draw(st.booleans()):
            c["description"] = f"description of challenge {i}"
        if draw(st.integers(0, 3)) == 1:
            c["user-info"] = "deprecated, use something else"
        if draw(st.integers(0, 3)) == 1:
            c["meta"] = {"mix": "ingest", "i": i}
        if n > 1:
            if i == default_idx:
                c["default"] = True
            elif draw(st.integers(0, 2)) == 1:
                c["default"] = False
        elif draw(st.integers(0, 2)) == 1:
            c["default"] = draw(st.booleans())  # a single challenge is the default whatever it says
        spec = draw(S.schedule_specs(op_suffix=f".{i}", **kw))
        if need_parallel and i == 0 and not any(S.is_parallel(el) for el in spec):
            spec.append(draw(S.schedule_specs(op_suffix=f".{i}p", **{**kw, "default_names": False, "min_elements": 1, "max_elements": 1, "p_parallel": 100}))[0])
            _uniquify(spec)
        if need_ref_ops and i == 0:
            for leaf in S.leaves(spec):
                if leaf["operation"]["style"] == "inline":
                    _restyle(spec, leaf["operation"]["name"], "ref")
                    break
        c["schedule"] = spec
        m["challenges"].append(c)
    return m


def _uniquify(spec):
    seen = set()
    for k, leaf in enumerate(S.leaves(spec)):
        name = S.resolved_name(leaf)
        if name in seen:
            leaf["name"] = f"{name}~{k}"
        seen.add(S.resolved_name(leaf))
    # completed-by names are resolved names of tasks of the same element and stay valid: only later duplicates are renamed,
    # except when the renamed task is the one referred to - fix those up
    for el in spec:
        if S.is_parallel(el) and "completed-by" in el and el["completed-by"] != "any":
            names = [S.resolved_name(t) for t in el["tasks"]]
            if el["completed-by"] not in names:
                el["completed-by"] = names[0]


def _restyle(spec, op_name, style):
    for leaf in S.leaves(spec):
        if leaf["operation"]["name"] == op_name:
            leaf["operation"]["style"] = style


# ------------------------------------------------------------------------------------------------------------------ track JSON
def to_doc(model):
    """model -> (track JSON document, {relative file name: JSON document})"""
    doc, files = {}, {}
    for k in ("description", "meta"):
        if k in model:
            doc[k] = copy.deepcopy(model[k])
    if model["indices"]:
        doc["indices"] = []
        for idx in model["indices"]:
            d = {"name": idx["name"]}
            if "types" in idx:
                d["types"] = list(idx["types"])
            if "body" in idx:
                d["body"] = f"{idx['name']}-body.json"
                files[d["body"]] = copy.deepcopy(idx["body"])
            doc["indices"].append(d)
    if model["data-streams"]:
        doc["data-streams"] = copy.deepcopy(model["data-streams"])
    for key in ("templates", "composable-templates", "component-templates"):
        if model.get(key):
            doc[key] = []
            for t in model[key]:
                d = {k: copy.deepcopy(v) for k, v in t.items() if k != "content"}
                d["template"] = f"{t['name']}.json"
                files[d["template"]] = copy.deepcopy(t["content"])
                doc[key].append(d)
    if model["corpora"]:
        doc["corpora"] = copy.deepcopy(model["corpora"])
    ops, seen = [], set()
    rendered = []
    for c in model["challenges"]:
        tj = S.to_track_json(c["schedule"])
        for op in tj.get("operations", []):
            if op["name"] not in seen:
                seen.add(op["name"])
                ops.append(op)
        d = {k: copy.deepcopy(v) for k, v in c.items() if k != "schedule"}
        d["schedule"] = tj["schedule"]
        rendered.append(d)
    if ops:
        doc["operations"] = ops
    if model["form"] == "schedule":
        doc["schedule"] = rendered[0]["schedule"]
    elif model["form"] == "challenge":
        doc["challenge"] = rendered[0]
    else:
        doc["challenges"] = rendered
    return doc, files


# ------------------------------------------------------------------------------------------------------------------ reference interpreter
def _document_model(d, corpus, model):
    """docs/track.rst, section corpora"""
    indices, streams = model["indices"], model["data-streams"]

    def inherited(key, fallback=None):
        if key in d:
            return d[key]
        if key in corpus:
            return corpus[key]
        return fallback

    source_file = d["source-file"]
    archive = source_file if source_file.endswith(ARCHIVE_EXTENSIONS) else None
    iaamd = inherited("includes-action-and-meta-data", False)
    out = {
        "source_format": inherited("source-format", "bulk"),
        "document_file": source_file.rsplit(".", 1)[0] if archive else source_file,
        "document_archive": archive,
        "base_url": inherited("base-url"),
        "includes_action_and_meta_data": iaamd,
        "number_of_documents": d["document-count"],
        "compressed_size_in_bytes": d.get("compressed-bytes"),
        "uncompressed_size_in_bytes": d.get("uncompressed-bytes"),
        "meta": d.get("meta", {}),
    }
    if iaamd:
        out.update(target_index=None, target_type=None, target_data_stream=None)  # "ignored if includes-action-and-meta-data is true"
    else:
        only_index = indices[0] if len(indices) == 1 else None
        out["target_index"] = inherited("target-index", only_index["name"] if only_index else None)
        out["target_data_stream"] = inherited("target-data-stream", streams[0]["name"] if len(streams) == 1 else None)
        only_type = only_index["types"][0] if only_index and len(only_index.get("types", [])) == 1 else None
        out["target_type"] = inherited("target-type", only_type)
    return out


def _task_model(l):
    return {k: copy.deepcopy(v) for k, v in l.items() if k not in ("path", "kind")} | {"kind": "task"}


def expected(model, selected_challenge=None):
    e = {
        "description": model.get("description", ""),
        "meta": model.get("meta", {}),
        "indices": [{"name": i["name"], "types": i.get("types", []), "body": i.get("body") or {}} for i in model["indices"]],
        "data_streams": [d["name"] for d in model["data-streams"]],
        "templates": [
            {"name": t["name"], "pattern": t["index-pattern"], "content": t["content"], "delete_matching_indices": t.get("delete-matching-indices", True)}
            for t in model["templates"]
        ],
        "composable_templates": [
            {"name": t["name"], "pattern": t["index-pattern"], "content": t["content"], "delete_matching_indices": t.get("delete-matching-indices", True)}
            for t in model["composable-templates"]
        ],
        "component_templates": [{"name": t["name"], "content": t["content"]} for t in model["component-templates"]],
        "corpora": [
            {"name": c["name"], "meta": c.get("meta", {}), "documents": [_document_model(d, c, model) for d in c["documents"]]} for c in model["corpora"]
        ],
        "challenges": [],
    }
    n = len(model["challenges"])
    default_name = None
    for c in model["challenges"]:
        named = model["form"] != "schedule"
        is_default = True if n == 1 else bool(c.get("default", False))
        sched = []
        for el in S.model(c["schedule"]):
            if el["kind"] == "parallel":
                sched.append({"kind": "parallel", "clients": el["clients"], "tasks": [_task_model(t) for t in el["tasks"]]})
            else:
                sched.append(_task_model(el))
        ce = {
            "name": c["name"] if named else None,  # the name of the challenge generated for a top-level schedule is not documented
            "description": c.get("description") if named else None,
            "user_info": c.get("user-info") if named else None,
            "meta": c.get("meta", {}) if named else {},
            "default": is_default,
            "schedule": sched,
        }
        e["challenges"].append(ce)
        if is_default:
            default_name = ce["name"]
    e["default_challenge"] = default_name
    names = [c["name"] for c in model["challenges"]]
    e["selected_or_default"] = selected_challenge if (selected_challenge in names and model["form"] != "schedule") else default_name
    return e


def observe(t, exp):
    """reads the loaded esrally.track.Track into the shape of expected(); operation params are read for the keys the model wrote"""

    def task(x, ex):
        op = x.operation
        want_params = ex["operation"]["params"] if ex else {}
        tt = x.target_throughput
        return {
            "kind": "task",
            "name": x.name,
            "operation": {
                "name": op.name,
                "type": op.type,
                # the keys the model wrote, plus every key the file did not write (the loader keeps the operation's own JSON keys and
                # fills in include-in-reporting; anything else is a parameter the file never gave to this operation)
                "params": {
                    **{k: copy.deepcopy(op.params.get(k, "<missing>")) for k in want_params},
                    **{k: copy.deepcopy(v) for k, v in op.params.items()
                       if k not in want_params and k not in ("name", "operation-type", "meta", "param-source", "include-in-reporting")},
                },
                "include_in_reporting": op.include_in_reporting,
            },
            "tags": list(x.tags),
            "meta": copy.deepcopy(x.meta_data),
            "clients": x.clients,
            "warmup_iterations": x.warmup_iterations,
            "iterations": x.iterations,
            "warmup_time_period": x.warmup_time_period,
            "time_period": x.time_period,
            "ramp_up_time_period": x.ramp_up_time_period,
            "completes_parent": bool(x.completes_parent),
            "any_completes_parent": bool(x.any_completes_parent),
            "schedule": x.schedule,
            "target_throughput": None if tt is None else [tt.value, tt.unit],
        }

    def at(lst, i):
        return lst[i] if lst is not None and i < len(lst) else None

    o = {
        "description": t.description,
        "meta": copy.deepcopy(t.meta_data),
        "indices": [{"name": i.name, "types": list(i.types), "body": copy.deepcopy(i.body) or {}} for i in t.indices],
        "data_streams": [d.name for d in t.data_streams],
        "templates": [
            {"name": x.name, "pattern": x.pattern, "content": copy.deepcopy(x.content), "delete_matching_indices": x.delete_matching_indices} for x in t.templates
        ],
        "composable_templates": [
            {"name": x.name, "pattern": x.pattern, "content": copy.deepcopy(x.content), "delete_matching_indices": x.delete_matching_indices}
            for x in t.composable_templates
        ],
        "component_templates": [{"name": x.name, "content": copy.deepcopy(x.content)} for x in t.component_templates],
        "corpora": [],
        "challenges": [],
    }
    for c in t.corpora:
        docs = []
        for d in c.documents:
            docs.append(
                {
                    "source_format": d.source_format,
                    "document_file": d.document_file,
                    "document_archive": d.document_archive,
                    "base_url": d.base_url,
                    "includes_action_and_meta_data": d.includes_action_and_meta_data,
                    "number_of_documents": d.number_of_documents,
                    "compressed_size_in_bytes": d.compressed_size_in_bytes,
                    "uncompressed_size_in_bytes": d.uncompressed_size_in_bytes,
                    "meta": copy.deepcopy(d.meta_data),
                    "target_index": d.target_index,
                    "target_type": d.target_type,
                    "target_data_stream": d.target_data_stream,
                }
            )
        o["corpora"].append({"name": c.name, "meta": copy.deepcopy(c.meta_data), "documents": docs})
    for ci, c in enumerate(t.challenges):
        ex_c = at(exp["challenges"], ci)
        named = ex_c is None or ex_c["name"] is not None
        sched = []
        for ei, el in enumerate(c.schedule):
            ex_el = at(ex_c["schedule"], ei) if ex_c else None
            if hasattr(el, "tasks"):
                ex_tasks = ex_el["tasks"] if ex_el and ex_el["kind"] == "parallel" else None
                sched.append({"kind": "parallel", "clients": el.clients, "tasks": [task(x, at(ex_tasks, k)) for k, x in enumerate(el.tasks)]})
            else:
                sched.append(task(el, ex_el if ex_el and ex_el["kind"] == "task" else None))
        o["challenges"].append(
            {
                "name": c.name if named else None,
                "description": c.description if named else None,
                "user_info": c.user_info if named else None,
                "meta": copy.deepcopy(c.meta_data) if named else {},
                "default": bool(c.default),
                "schedule": sched,
            }
        )
    named = exp["challenges"] and exp["challenges"][0]["name"] is not None
    dc = t.default_challenge
    o["default_challenge"] = dc.name if dc is not None and named else None
    sc = t.selected_challenge_or_default
    o["selected_or_default"] = sc.name if sc is not None and named else None
    return o


def diff(a, b, path=""):
    """list of (path, expected, observed) for every leaf position where the two structures differ"""
    if isinstance(a, dict) and isinstance(b, dict):
        if a.get("kind") == "parallel":
            path += "{parallel}"
        out = []
        for k in sorted(set(a) | set(b)):
            out += diff(a.get(k, "<absent>"), b.get(k, "<absent>"), f"{path}.{k}" if path else k)
        return out
    if isinstance(a, list) and isinstance(b, list):
        if len(a) != len(b):
            return [(path + ".<len>", len(a), len(b))]
        out = []
        for i, (x, y) in enumerate(zip(a, b)):
            out += diff(x, y, f"{path}[{i}]")
        return out
    if isinstance(a, float) or isinstance(b, float):
        try:
            if abs(a - b) <= 1e-12 * max(1.0, abs(a), abs(b)):
                return []
        except TypeError:
            pass
    if type(a) is not type(b) and not (isinstance(a, (int, float)) and isinstance(b, (int, float)) and not isinstance(a, bool) and not isinstance(b, bool)):
        return [(path, a, b)]
    return [] if a == b else [(path, a, b)]


# ------------------------------------------------------------------------------------------------------------------ rendering
def _reorder(o, order):
    if isinstance(o, dict):
        keys = sorted(o, key=lambda k: hashlib.md5(f"{order}:{k}".encode()).hexdigest())
        return {k: _reorder(o[k], order) for k in keys}
    if isinstance(o, list):
        return [_reorder(x, order) for x in o]
    return o


def scalar_sites(docs):
    """deterministic list of (document key, path) of all scalar *values* (str, int, float, bool) in the given {key: document} dict"""
    sites = []

    def walk(o, key, path):
        if isinstance(o, dict):
            for k in sorted(o):
                walk(o[k], key, path + [k])
        elif isinstance(o, list):
            for i, x in enumerate(o):
                walk(x, key, path + [i])
        elif isinstance(o, (str, int, float, bool)) and o is not None:
            if isinstance(o, str) and (not o or any(ch in '"\\{}%' or ord(ch) < 32 for ch in o)):
                return
            sites.append((key, path))

    for key in sorted(docs):
        walk(docs[key], key, [])
    return sites


def _get(o, path):
    for p in path:
        o = o[p]
    return o


def _set(o, path, v):
    for p in path[:-1]:
        o = o[p]
    o[path[-1]] = v


def _other(v):
    if isinstance(v, bool):
        return not v
    if isinstance(v, int):
        return v + 7
    if isinstance(v, float):
        return v + 1.5
    return v + "-tpl"


def _jinja_literal(v):
    if isinstance(v, bool):
        return "true" if v else "false"
    if isinstance(v, str):
        return '"' + v + '"'
    return repr(v)


def render(doc, files, layout, params, directory, prologue=""):
    """
    Writes the track into `directory`: track.json with shuffled key order, optional parts pulled in by rally.collect, index bodies /
    templates as files, scalar values replaced by Jinja parameters `{{ pN | default(<v>) }}` (user supplied: the template default is a
    different value and the user passes the real one). Returns {"track_file", "user_params", "n_params", "parts"}.
    """
    docs = {"track.json": copy.deepcopy(doc)}
    for name, content in files.items():
        docs[name] = copy.deepcopy(content)
    sites = scalar_sites(docs)
    expressions = {}
    helpers = {}
    user_params = {}
    used_sites = set()
    for n, p in enumerate(params):
        if not sites:
            break
        key, path = sites[p["site"] % len(sites)]
        supplied = p["supplied"]
        if p.get("helper") and p["site"] % 2 == 0:
            # the helper with a user value that is falsy (0, false, 0.0): a value like any other
            falsy = [(k, q) for k, q in sites if k == "track.json" and isinstance(q[-1], str) and (k, tuple(q)) not in used_sites and not _get(docs[k], q)]
            if falsy:
                key, path = falsy[(p["site"] // 2) % len(falsy)]
                supplied = True
        if (key, tuple(path)) in used_sites:
            continue
        used_sites.add((key, tuple(path)))
        value = _get(docs[key], path)
        name = f"p{n}"
        if supplied:
            user_params[name] = value
            default = _other(value)
        else:
            default = value
        if p.get("helper") and key == "track.json" and isinstance(path[-1], str):
            # docs/advanced.rst: {{ rally.exists_set_param(setting_name, value, default_value) }} writes '"setting_name": value' with the
            # user's value if the parameter is defined (whatever it is: 0, false and "" are values) and with the default otherwise
            parent = _get(docs[key], path[:-1])
            del parent[path[-1]]
            sentinel = f"@@HELPER{n}@@"
            parent[sentinel] = 0
            helpers[json.dumps(sentinel) + ": 0"] = (
                f' {{{{ rally.exists_set_param({json.dumps(path[-1])}, {name}, default_value={_jinja_literal(default)}, comma=False) }}}} '
            )  # (blanks around it: "{" + "{{" would open a Jinja expression one character early)
            continue
        expr = f"{{{{ {name} | default({_jinja_literal(default)}) }}}}"
        if isinstance(value, bool):
            expr = f"{{{{ {name} | default({_jinja_literal(default)}) | tojson }}}}"
        sentinel = f"@@PARAM{n}@@"
        expressions[sentinel] = (expr, isinstance(value, str))
        _set(docs[key], path, sentinel)

    order = layout.get("order", 0)
    main = _reorder(docs.pop("track.json"), order)
    parts = {}  # relative file name -> text
    collects = {}

    def collect(name, rel_to=""):
        sentinel = f"@@COLLECT{len(collects)}@@"
        collects[sentinel] = f'{{{{ rally.collect(parts="{os.path.relpath(name, rel_to) if rel_to else name}") }}}}'
        return sentinel

    def dumps(o):
        return json.dumps(o, indent=layout.get("indent", 2))

    if layout.get("ops_part") and "operations" in main:
        parts["operations/default.json"] = ",\n".join(dumps(op) for op in main["operations"])
        main["operations"] = [collect("operations/default.json")]
    if layout.get("challenge_parts") and "challenges" in main:
        items = []
        for i, c in enumerate(main["challenges"]):
            c = dict(c)
            if layout.get("nested_part") and i == 0 and c.get("schedule"):
                parts[f"challenges/tasks/schedule-{i}.json"] = ",\n".join(dumps(el) for el in c["schedule"])
                c["schedule"] = [collect(f"challenges/tasks/schedule-{i}.json", rel_to="challenges")]
            parts[f"challenges/challenge-{i}.json"] = dumps(c)
            items.append(collect(f"challenges/challenge-{i}.json"))
        main["challenges"] = items
    texts = {"track.json": dumps(main)}
    if layout.get("import") or collects or helpers:
        texts["track.json"] = '{% import "rally.helpers" as rally with context %}\n' + texts["track.json"]
    if prologue:
        texts["track.json"] = prologue + "\n" + texts["track.json"]
    texts.update(parts)
    for name, content in docs.items():
        texts[name] = dumps(_reorder(content, order))

    def finish(text):
        for sentinel, expr in collects.items():
            text = text.replace(json.dumps(sentinel), expr)
        for sentinel, (expr, is_str) in expressions.items():
            text = text.replace(json.dumps(sentinel), '"' + expr + '"' if is_str else expr)
        for pair, expr in helpers.items():
            text = text.replace(pair, expr)
        return text

    for name, text in texts.items():
        path = os.path.join(directory, name)
        os.makedirs(os.path.dirname(path), exist_ok=True)
        with open(path, "w", encoding="utf-8") as f:
            f.write(finish(text))
    return {"track_file": os.path.join(directory, "track.json"), "user_params": user_params, "n_params": len(expressions) + len(helpers), "parts": bool(parts), "helpers": len(helpers)}
