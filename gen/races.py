"""
E2: strategies for whole races on the simulator (input of sim.race.run_race), used by C01, C07, C09 and C11.
Races are finite by construction: only tasks inside a parallel element with completed-by may be "long" (they are meant to be cut
short); everything else has a handful of iterations or a time period of a few virtual seconds.
"""
from hypothesis import strategies as st

SERVICES = [1 / 64, 1 / 8, 0.25, 0.5, 1.0]
FACTORS = [0.25, 1, 1, 4, 40]


@st.composite
def request_specs(draw, base=None, composite=False, errors=False):
    base = base if base is not None else draw(st.sampled_from(SERVICES))
    n = draw(st.integers(1, 3))
    out = []
    for _ in range(n):
        service = base * draw(st.sampled_from(FACTORS))
        wire = [[0, service]]
        if composite and draw(st.booleans()):
            wire.append([draw(st.sampled_from([0, 1 / 64])), base])
        out.append(
            {
                "pre": draw(st.sampled_from([0, 0, 1 / 128])),
                "wire": wire,
                "post": draw(st.sampled_from([0, 0, 1 / 128])),
                "outcome": draw(st.sampled_from(["ok"] * 6 + ["fail-dict", "api-4xx", "timeout"])) if errors else "ok",
                "shape": "dict",
                "weight": draw(st.sampled_from([1, 1, 10, 500])),
                "unit": "ops",
            }
        )
    return out


@st.composite
def leaf(draw, name, long_running=False, max_clients=4, errors=False):
    spec = {"name": name, "clients": draw(st.integers(1, max_clients)), "stride": draw(st.sampled_from([1, 3, 7]))}
    time_based = draw(st.integers(0, 3)) == 0
    if long_running:
        # a partner task inside a completed-by element: runs until it is told to complete
        if draw(st.booleans()):
            spec["mode"] = "time"
            spec["warmup_time_period"] = draw(st.sampled_from([None, 0, 2]))
            spec["time_period"] = draw(st.sampled_from([40, 90]))
        else:
            spec["mode"] = "iterations"
            spec["warmup_iterations"] = draw(st.sampled_from([None, 0, 3]))
            spec["iterations"] = draw(st.sampled_from([60, 150]))
        spec["requests"] = draw(request_specs(base=draw(st.sampled_from([0.25, 0.5, 1.0])), errors=errors))
        for q in spec["requests"]:
            q["wire"][0][1] = max(q["wire"][0][1], 0.25)
        if draw(st.integers(0, 4)) == 0:
            # its runner can report completion itself (wait-for-transform, custom runners) but is nowhere near done: it is ended like any other
            spec["op_type"] = "sim-op-completing"
        return spec
    if time_based:
        spec["mode"] = "time"
        spec["warmup_time_period"] = draw(st.sampled_from([None, 0, 1, 2]))
        spec["time_period"] = draw(st.sampled_from([1, 3, 6]))
        spec["requests"] = draw(request_specs(base=draw(st.sampled_from([1 / 8, 0.25, 0.5, 1.0])), errors=errors))
        for q in spec["requests"]:
            q["wire"][0][1] = max(q["wire"][0][1], 1 / 8)
    else:
        spec["mode"] = "iterations"
        spec["warmup_iterations"] = draw(st.sampled_from([None, 0, 1, 2]))
        spec["iterations"] = draw(st.integers(1, 4))
        spec["requests"] = draw(request_specs(errors=errors))
    if draw(st.integers(0, 5)) == 0:
        spec["throughput"] = {"kind": "number", "value": draw(st.sampled_from([1, 4, 20])), "unit": "ops/s"}
        for q in spec["requests"]:
            q["weight"] = 1
    return spec


@st.composite
def element(draw, idx, parallel_bias=True, errors=False, allow_completed_by=True, allow_overcommit=True, avoid_named_wrap=False):
    if draw(st.integers(0, 9)) < (7 if parallel_bias else 3):
        n = draw(st.integers(1, 3))
        completed_by = None
        if allow_completed_by and n >= 1 and draw(st.integers(0, 9)) < 5:
            completed_by = draw(st.sampled_from(["name", "name", "any"]))
        tasks = []
        named = draw(st.integers(0, n - 1))
        for j in range(n):
            long_running = completed_by is not None and ((completed_by == "name" and j != named) or (completed_by == "any" and j != named))
            if long_running and completed_by == "name" and draw(st.integers(0, 3)) == 0:
                long_running = False  # a finite sibling that may well finish before the completing task does
            t = draw(leaf(f"e{idx}t{j}", long_running=long_running, max_clients=3, errors=errors))
            if completed_by is not None and not long_running and t["mode"] == "iterations" and draw(st.booleans()):
                # the completing task itself: several co-located clients that finish at different times
                t["clients"] = draw(st.sampled_from([2, 2, 3]))
                t["iterations"] = max(t["iterations"], 2)
                t["stride"] = 1
                base = t["requests"][0]
                slow = dict(base, wire=[[0, base["wire"][0][1] * 4]])
                t["requests"] = [base, slow, slow][: t["clients"]]
            tasks.append(t)
        total = sum(t["clients"] for t in tasks)
        cap = None
        r = draw(st.integers(0, 9))
        if allow_overcommit and r < 3 and total > 1:
            cap = draw(st.integers(1, total - 1))
        elif r < 5:
            cap = total + draw(st.integers(0, 2))
        el = {"parallel": tasks, "clients": cap, "completed_by": None}
        if completed_by == "name":
            el["completed_by"] = tasks[named]["name"]
            if avoid_named_wrap and cap is not None and cap < total:
                # steer around the known finding: all clients of the completing task sit in the first column
                tasks.insert(0, tasks.pop(named))
                el["clients"] = max(cap, tasks[0]["clients"])
        elif completed_by == "any":
            el["completed_by"] = "any"
        return el
    return draw(leaf(f"e{idx}", errors=errors))


@st.composite
def ramped_element(draw, idx):
    """
    scenario template: a parallel element with ramp-up-time-period (docs/track.rst: clients start gradually; requires a warm-up period of
    at least that length and no iterations). Every task runs until its finite parameter source is exhausted (like bulk indexing), so an
    early client of a task may well be done before a later one has started; optionally completed-by.
    """
    def req(service):
        return {"pre": 0, "wire": [[0, service]], "post": 0, "outcome": "ok", "shape": "dict", "weight": 1, "unit": "ops"}

    ramp = draw(st.sampled_from([1, 2, 4]))
    n = draw(st.integers(1, 3))
    completed_by = draw(st.sampled_from([None, "name", "name", "any"]))
    tasks = []
    for j in range(n):
        partner = completed_by == "name" and j > 0
        tasks.append({
            "name": f"e{idx}t{j}", "clients": draw(st.integers(1, 3)), "stride": 1, "mode": "time",
            "warmup_time_period": ramp + draw(st.sampled_from([0, 0, 1])), "time_period": None, "ramp_up": ramp,
            "source_size": draw(st.sampled_from([40, 90])) if partner else draw(st.integers(1, 5)),
            "requests": [req(draw(st.sampled_from([0.25, 0.5, 1.0]) if partner else st.sampled_from([1 / 64, 1 / 8, 0.5, 1.0])))],
        })
    if completed_by == "name" and draw(st.booleans()):
        tasks[0]["clients"] = draw(st.sampled_from([2, 3]))  # the completing task itself: co-located clients that start at different times
    return {"parallel": tasks, "clients": None, "completed_by": tasks[0]["name"] if completed_by == "name" else completed_by}


@st.composite
def overcommitted_completed_by(draw):
    """
    scenario template: an over-committed parallel element whose tasks spread unevenly over its clients (3 or 5 one-client tasks on 2 clients:
    one client's row ends in a filler), completed by its first - short - task while the other client still has a task of the element ahead
    of it; two or three more elements follow, because a worker that loses count of its join points only shows later
    """
    def req(service):
        return {"pre": 0, "wire": [[0, service]], "post": 0, "outcome": "ok", "shape": "dict", "weight": 1, "unit": "ops"}

    n = draw(st.sampled_from([3, 5, 5]))
    tasks = [{"name": "oc0", "clients": 1, "stride": 1, "mode": "iterations", "warmup_iterations": None, "iterations": draw(st.integers(1, 2)),
              "requests": [req(draw(st.sampled_from([1 / 8, 0.5])))]}]
    for j in range(1, n):
        tasks.append({"name": f"oc{j}", "clients": 1, "stride": 1, "mode": "iterations", "warmup_iterations": None,
                      "iterations": draw(st.integers(2, 5)), "requests": [req(draw(st.sampled_from([0.5, 1.0, 2.5])))]})
    if n == 5 and draw(st.booleans()):
        # "window" flavour: the completing client's worker is through at once (its own queued tasks are skipped), the other worker's
        # first task ends between two of its wake-ups; together with a slow JoinPointReached (see race_case) the request to complete
        # the element reaches that worker while it is idle but still has a task of the element queued
        for j in (0, 2, 4):
            tasks[j]["iterations"], tasks[j]["requests"] = 1, [req(1 / 8)]
        tasks[1]["iterations"], service = draw(st.sampled_from([(5, 0.125), (41, 0.125), (6, 1.0), (12, 0.5), (5, 2.5), (3, 2.5), (7, 0.125), (9, 0.125)]))
        tasks[1]["requests"] = [req(service)]
    out = [{"parallel": tasks, "clients": 2, "completed_by": draw(st.sampled_from(["oc0", "oc0", "any"]))}]
    for k in range(draw(st.integers(2, 3))):
        out.append(draw(leaf(f"after{k}", max_clients=2)))
    return out


@st.composite
def two_completed_by_elements(draw, errors=False):
    """
    scenario template (state carried from one completed-by element to the next): the completing task of the first element runs on
    several workers and finishes at different times while a finite sibling finishes in between, so the element may end at its barrier
    without a completion broadcast; the second element has a completing task with fewer clients, a long-running partner and - because
    it needs fewer clients - idle workers that reach the join point at once
    """
    def req(service):
        return {"pre": 0, "wire": [[0, service]], "post": 0, "outcome": "ok", "shape": "dict", "weight": 1, "unit": "ops"}

    fast = draw(st.sampled_from([1 / 64, 1 / 8]))
    slow = draw(st.sampled_from([1.0, 2.5]))
    named1 = {"name": "e0t0", "clients": draw(st.sampled_from([2, 2, 3])), "stride": 1, "mode": "iterations", "warmup_iterations": None,
              "iterations": draw(st.integers(2, 4)), "requests": [req(fast), req(slow), req(slow)]}
    sibling = {"name": "e0t1", "clients": 1, "stride": 1, "mode": "iterations", "warmup_iterations": None, "iterations": draw(st.integers(1, 3)),
               "requests": [req(draw(st.sampled_from([1 / 8, 0.5])))]}
    named2 = {"name": "e1t0", "clients": draw(st.integers(1, named1["clients"] - 1)), "stride": 1, "mode": "iterations", "warmup_iterations": None,
              "iterations": draw(st.integers(3, 6)), "requests": [req(draw(st.sampled_from([0.5, 1.0])))]}
    partner = draw(leaf("e1t1", long_running=True, max_clients=1, errors=errors))
    out = [
        {"parallel": [named1, sibling], "clients": None, "completed_by": "e0t0"},
        {"parallel": [named2, partner], "clients": None, "completed_by": "e1t0"},
    ]
    if draw(st.booleans()):
        out.insert(0, draw(leaf("pre", max_clients=2, errors=errors)))
    if draw(st.booleans()):
        out.append(draw(leaf("post", max_clients=2, errors=errors)))
    return out


@st.composite
def race_case(draw, min_elements=1, max_elements=4, errors=False, allow_completed_by=True, allow_overcommit=True, max_hosts=3,
              avoid_named_wrap=False, preemption=True):
    n = draw(st.integers(min_elements, max_elements))
    schedule = [
        draw(element(i, errors=errors, allow_completed_by=allow_completed_by, allow_overcommit=allow_overcommit, avoid_named_wrap=avoid_named_wrap))
        for i in range(n)
    ]
    template = allow_completed_by and max_elements >= 2 and draw(st.integers(0, 9)) == 0
    if template:
        schedule = draw(two_completed_by_elements(errors))
    elif allow_completed_by and draw(st.integers(0, 7)) == 0:
        schedule[draw(st.integers(0, n - 1))] = draw(ramped_element(99))
    elif allow_completed_by and allow_overcommit and max_elements >= 3 and draw(st.integers(0, 9)) == 0:
        schedule = draw(overcommitted_completed_by())
    n_hosts = draw(st.sampled_from([1, 1, 2, 2, 3][: 2 * max_hosts - 1]))
    hosts = [draw(st.integers(1, 4)) for _ in range(n_hosts)]
    overrides = None
    if schedule and schedule[0].get("parallel") and schedule[0]["parallel"][0]["name"] == "oc0":
        hosts = [draw(st.sampled_from([2, 2, 4]))] * n_hosts  # (two workers for the element's two clients)
        overrides = draw(st.sampled_from([None, {"JoinPointReached": 4}, {"JoinPointReached": 5}, {"JoinPointReached": 6}, {"JoinPointReached": 7}]))
    if template:
        hosts = [draw(st.sampled_from([3, 4]))] * n_hosts  # every client gets a worker of its own
    # all hosts are assumed to have the same number of cores (Rally uses the coordinator's core count for every host)
    hosts = [hosts[0]] * n_hosts
    return {
        "schedule": schedule,
        "hosts": hosts,
        **({"delay_overrides": overrides} if overrides else {}),
        "test_mode": draw(st.booleans()),
        "offsets": draw(st.lists(st.sampled_from([0.0, 1000.0, -500.5, 86400.25]), min_size=1, max_size=4)),
        "delays": draw(st.lists(st.integers(0, 7), min_size=1, max_size=12)),
        "wake_late": draw(st.lists(st.integers(0, 4), min_size=1, max_size=4)),
        "prep_tasks": draw(st.lists(st.sampled_from([0.0, 0.5, 3.0, 11.0]), max_size=3)),
        "seed": draw(st.integers(0, 100)),
        "quiet": draw(st.integers(0, 3)) == 0,
        # pre-emption windows at Future.done() inside actor handlers (None = handlers are atomic w.r.t. their executor)
        "preempt": draw(st.none() | st.lists(st.integers(0, 4), min_size=1, max_size=6)) if preemption else None,
    }


def over_committed(el):
    return "parallel" in el and el.get("clients") is not None and el["clients"] < sum(t["clients"] for t in el["parallel"])


def is_f6_region(case):
    """over-committed parallel element with completed-by (known finding C01/worker-stuck-on-skipped-tasks)"""
    return any(over_committed(el) and el.get("completed_by") for el in case["schedule"])
