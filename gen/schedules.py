"""
gen/schedules.py - engine E2: schedules, task filters, host layouts  (shared by C01 / C02 / C05 / C10 / C11)

One JSON-able *schedule spec* is the single source; four views are derived from it so that all checks speak about the same thing:

    schedule_specs(**knobs)      Hypothesis strategy  -> spec            (valid by construction, no filtering)
    model(spec)                  spec -> plain-dict model used by oracles (reference interpretation of docs/track.rst)
    build_schedule(spec)         spec -> [esrally.track.Task | esrally.track.Parallel]   (real objects, built directly)
    to_track_json(spec)          spec -> {"schedule": [...], "operations": [...]?}        (track JSON for the real loader)

plus   filter_specs(spec)        strategy -> {"mode": "include"|"exclude", "filters": ["name", "type:x", "tag:y", ...]}
       reference_filter(model, mode, filters)   docs semantics of --include-tasks / --exclude-tasks on the model
       apply_real_filter(schedule, mode, filters)   the real TaskFilterTrackProcessor on real objects
       host_layouts(...)         strategy -> list of core counts (one entry per load-driver host)

----------------------------------------------------------------------------------------------------------------------------
SPEC FORMAT  (everything optional is *absent* when not written - never None - so "written" and "inherited" stay distinct)

spec     := [element, ...]                                       # executed in order
element  := leaf | parallel                                      # parallel  <=>  "tasks" in element   (see is_parallel)
leaf     := {
   "operation": {"name": str, "type": str, "params": {..}, "style": "inline" | "ref" | "string" | "unnamed"},
                                      # style = how the track JSON writes it: inline object / name of an entry of the top-level
                                      # "operations" block / bare string (then name == type and params == {})
   "name": str,                       # optional; default: the operation's name.  Resolved names are unique in a spec.
   "tags": str | [str, ...],          # optional
   "meta": {..},                      # optional
   "clients": int >= 1,               # optional; default 1
   "warmup-iterations": int >= 0, "iterations": int >= 1,             # optional   } a leaf is iteration-based, time-based
   "warmup-time-period": int >= 0, "time-period": int >= 1,           # optional   } or neither - never a mixture
   "ramp-up-time-period": int >= 0,   # optional; only with a (written or inherited) warmup-time-period >= it
   "target-throughput": number | "<n> <unit>/s",   "target-interval": number,     # optional, at most one of them
   "schedule": "deterministic" | "poisson",        # optional
}
parallel := {
   "tasks": [leaf, ...],              # >= 1
   "clients": int >= 1,               # optional cap: below, equal to or above the sum of the tasks' clients
   "completed-by": str,               # optional: resolved name of one of its tasks, or "any"
   "warmup-iterations" / "iterations" / "warmup-time-period" / "time-period" / "ramp-up-time-period": int
                                      # optional defaults inherited by every task that does not write the key itself
}

MODEL  (model(spec): what docs/track.rst says the spec means; no Rally code involved)

model    := [melement, ...]
mleaf    := {"kind": "task", "path": [i] | [i, j], "name", "operation": {"name", "type", "params", "include_in_reporting"},
             "tags": [..], "meta": {..}, "clients": int, "warmup_iterations", "iterations", "warmup_time_period", "time_period",
             "ramp_up_time_period" (each int | None), "completes_parent": bool, "any_completes_parent": bool,
             "schedule": str | None, "target_throughput": None | [value: float, unit: str]}
mparallel:= {"kind": "parallel", "path": [i], "tasks": [mleaf, ...], "clients_cap": int | None,
             "clients": int (cap if written else sum of task clients), "task_clients": int (the sum), "completed_by": str | None}
"path" locates the element in the spec (and in build_schedule(spec)) so that oracles can speak about object identity.

Names never contain ':' or ',' (a filter "a:b" is a type/tag filter, and CSV splitting happens on ','), and no task is called "any".
Some task names are deliberately related: "<earlier name>-b" (an earlier name is a proper prefix) and the case-swapped earlier name.

KNOBS of schedule_specs (all keyword-only): min_elements / max_elements (1 / 5), max_parallel_tasks (4), max_clients (5), max_ops (4, size
of the operation pool the tasks draw from), op_types, op_styles, tags, p_parallel (per cent of parallel elements, 45; 100 = only parallel
elements), parallel / caps / completed_by / inherit / time_based / iteration_based / ramp_up / throughput / schedule_names / meta /
default_names (switch a feature off with False), op_suffix (appended to generated operation names; keeps operation names unique when
several schedules end up in one track).

HELPERS: is_parallel(el), leaves(spec_or_model), resolved_name(leaf), leaf_json(leaf), op_json(op), op_model(op),
target_throughput_model(leaf), object_at(schedule, path), filter_matches(filter, mleaf), parallels_emptied_by(model, mode, filters).

Typical use:
    spec = draw(schedule_specs(max_elements=3, op_types=("sim-op",), op_styles=("inline",)))
    schedule = build_schedule(spec)          # hand to driver.Allocator / a Challenge
    m = model(spec)                          # what the oracle reasons about; object_at(schedule, m[i]["path"]) is the real object
"""
from __future__ import annotations

import copy

from hypothesis import strategies as st

# ------------------------------------------------------------------------------------------------------------------ constants
TIMING_KEYS = ("warmup-iterations", "iterations", "warmup-time-period", "time-period", "ramp-up-time-period")
LEAF_KEYS = ("name", "tags", "meta", "clients") + TIMING_KEYS + ("target-throughput", "target-interval", "schedule")

# operation types: a few built-in ones (force-merge / sleep are administrative) and two user-defined ones
OP_TYPES = ("bulk", "search", "force-merge", "sleep", "sim-op", "custom-operation-type", "node_storage")  # (plugins register types with "_" too)
# docs/track.rst: include-in-reporting "defaults to true for normal operations and to false for administrative operations"
ADMIN_OP_TYPES = frozenset({"force-merge", "sleep", "refresh", "cluster-health", "put-pipeline", "create-index", "delete-index", "put-settings"})
BUILTIN_OP_TYPES = frozenset({"bulk", "search", "force-merge", "sleep", "raw-request", "refresh", "cluster-health", "put-pipeline",
                              "create-index", "delete-index", "put-settings", "index-stats", "node-stats"})
TAGS = ("setup", "read-op", "write", "x")
OP_STYLES = ("inline", "ref", "string", "unnamed")
_OP_STEMS = ("index-append", "match-all", "fm", "zz op", "Query_1")
_TASK_STEMS = ("t", "search #", "index-", "q_", "T")
_THROUGHPUTS = (1, 5, 100, 1000, 0.5, 12.5, "10 docs/s", "2.5 ops/s", "100 pages/s", "7 MB/s")
_INTERVALS = (0.5, 2, 10, 0.125)


def is_parallel(element):
    return "tasks" in element


def leaves(spec_or_model):
    """all leaf dicts of a spec or of a model, in schedule order"""
    for el in spec_or_model:
        if "tasks" in el:
            yield from el["tasks"]
        else:
            yield el


def resolved_name(leaf):
    return leaf.get("name", leaf["operation"]["name"])


# ------------------------------------------------------------------------------------------------------------------ generator
# string values as tracks really contain them: JSON escapes (new line, backslash, quote, non-ASCII written as \uXXXX by the renderer)
AWKWARD_STRINGS = ["ctx._source.n += 1;\nctx._source.m = 'x'", "app-[0-9]+\\.log", "dir\\\\file", 'say "hi"', "caf\u00e9 \u65e5\u672c", "tab\there", "a\\1b\\g<0>"]


def _op_params(typ):
    if typ == "bulk":
        return st.fixed_dictionaries({}, optional={"bulk-size": st.sampled_from([1, 50, 5000]), "pipeline": st.just("p1")})
    if typ == "search":
        return st.fixed_dictionaries(
            {},
            optional={
                "body": st.sampled_from([{"query": {"match_all": {}}}, {"query": {"term": {"f": "v"}}, "size": 3}])
                | st.sampled_from(AWKWARD_STRINGS).map(lambda v: {"query": {"regexp": {"f": v}}, "script_fields": {"s": {"script": {"source": v}}}}),
                "cache": st.booleans(),
            },
        )
    if typ == "force-merge":
        return st.fixed_dictionaries({}, optional={"mode": st.sampled_from(["blocking", "polling"]), "include-in-reporting": st.booleans()})
    if typ == "sleep":
        return st.fixed_dictionaries({"duration": st.sampled_from([0, 1, 3])})
    return st.fixed_dictionaries({}, optional={"service-time": st.sampled_from([0.001, 0.25, 2]), "include-in-reporting": st.booleans(), "k": st.just([1, "a"]),
                                             "note": st.sampled_from(AWKWARD_STRINGS)})


@st.composite
def schedule_specs(
    draw,
    *,
    min_elements=1,
    max_elements=5,
    max_parallel_tasks=4,
    max_clients=5,
    op_types=OP_TYPES,
    op_styles=OP_STYLES,
    tags=TAGS,
    parallel=True,  # generate parallel elements at all
    caps=True,  # "clients" on parallel elements (below / equal / above the sum)
    completed_by=True,
    inherit=True,  # defaults on the parallel element inherited by its tasks
    time_based=True,
    iteration_based=True,
    ramp_up=True,
    throughput=True,
    schedule_names=True,
    meta=True,
    default_names=True,  # leave "name" out where the operation name is still free
    max_ops=4,
    p_parallel=45,  # per cent of the elements that are parallel elements
    op_suffix="",  # appended to generated operation names (keeps them unique across several schedules of one track)
):
    # ---- operation pool
    pool = []
    string_types = set()
    unnamed_types = set()
    for i in range(draw(st.integers(1, max_ops))):
        typ = draw(st.sampled_from(op_types))
        style = draw(st.sampled_from(op_styles))
        if style == "string" and typ in string_types:
            style = "inline" if "inline" in op_styles else op_styles[0]
        if style == "unnamed" and typ in unnamed_types:
            style = "inline" if "inline" in op_styles else op_styles[0]
        if style == "string":
            string_types.add(typ)
            pool.append({"name": typ, "type": typ, "params": {}, "style": "string"})
        elif style == "unnamed":
            # an inline operation *object* without "name": the name defaults to the operation type. It may coexist with a bare
            # string operation of the same type (same name, no parameters) - the two are different operations
            unnamed_types.add(typ)
            pool.append({"name": typ, "type": typ, "params": draw(_op_params(typ)), "style": "unnamed"})
        else:
            pool.append({"name": f"{draw(st.sampled_from(_OP_STEMS))}-{i}{op_suffix}", "type": typ, "params": draw(_op_params(typ)), "style": style})

    state = {"n": 0, "default_named": set(), "names": []}

    def timing(ctx, top_level):
        """ctx: None or {"mode": "iter"|"time", "defaults": {...}} of the enclosing parallel element"""
        out = {}
        if ctx is None:
            modes = ["none"]
            if iteration_based:
                modes += ["iter", "iter"]
            if time_based:
                modes += ["time", "time"]
            mode = draw(st.sampled_from(modes))
            if mode == "iter":
                which = draw(st.sampled_from(["both", "both", "it", "wi"]))
                if which in ("both", "wi"):
                    out["warmup-iterations"] = draw(st.integers(0, 3))
                if which in ("both", "it"):
                    out["iterations"] = draw(st.integers(1, 6))
            elif mode == "time":
                which = draw(st.sampled_from(["both", "both", "tp", "wtp"]))
                if which in ("both", "wtp"):
                    out["warmup-time-period"] = draw(st.integers(0, 4))
                if which in ("both", "tp"):
                    out["time-period"] = draw(st.integers(1, 10))
                if ramp_up and top_level and "warmup-time-period" in out and draw(st.integers(0, 2)) == 0:
                    out["ramp-up-time-period"] = draw(st.integers(0, out["warmup-time-period"]))
            return out
        d = ctx["defaults"]
        if ctx["mode"] == "iter":
            if draw(st.integers(0, 2)) == 0:
                out["warmup-iterations"] = draw(st.integers(0, 3))
            if draw(st.integers(0, 2)) == 0:
                out["iterations"] = draw(st.integers(1, 6))
        else:
            ramp = d.get("ramp-up-time-period")
            lo = ramp if ramp is not None else 0
            must = "warmup-time-period" not in d and ramp is not None
            if must or draw(st.integers(0, 2)) == 0:
                out["warmup-time-period"] = draw(st.integers(lo, lo + 4))
            if draw(st.integers(0, 2)) == 0:
                out["time-period"] = draw(st.integers(1, 10))
            if ramp is not None and draw(st.integers(0, 5)) == 0:
                out["ramp-up-time-period"] = ramp  # writing the very same value is allowed
        return out

    def leaf(ctx, top_level):
        op = draw(st.sampled_from(pool))
        el = {"operation": copy.deepcopy(op)}
        if default_names and op["name"] not in state["default_named"] and draw(st.booleans()):
            state["default_named"].add(op["name"])
        else:
            state["n"] += 1
            related = draw(st.integers(0, 5)) if state["names"] else 0
            if related == 4 and state["names"][-1] + "-b" not in state["names"]:
                el["name"] = state["names"][-1] + "-b"  # an earlier name is a proper prefix of this one
            elif related == 5 and state["names"][-1].swapcase() not in state["names"] and state["names"][-1].swapcase() != state["names"][-1]:
                el["name"] = state["names"][-1].swapcase()  # differs from an earlier name by case only
            else:
                el["name"] = f"{draw(st.sampled_from(_TASK_STEMS))}{state['n']}"
            state["names"].append(el["name"])
        tag_kind = draw(st.sampled_from(["none", "none", "str", "list", "list"])) if tags else "none"
        if tag_kind == "str":
            el["tags"] = draw(st.sampled_from(tags))
        elif tag_kind == "list":
            el["tags"] = draw(st.lists(st.sampled_from(tags), min_size=1, max_size=3, unique=True))
        if meta and draw(st.integers(0, 4)) == 0:
            el["meta"] = draw(st.sampled_from([{"team": "a"}, {"k": 1, "nested": {"x": [1, 2]}}]))
        if draw(st.integers(0, 3)) != 0:
            el["clients"] = draw(st.integers(1, max_clients))
        el.update(timing(ctx, top_level))
        if throughput:
            tk = draw(st.sampled_from(["none", "none", "none", "tt", "tt", "ti"]))
            if tk == "tt":
                el["target-throughput"] = draw(st.sampled_from(_THROUGHPUTS))
            elif tk == "ti":
                el["target-interval"] = draw(st.sampled_from(_INTERVALS))
        if schedule_names and draw(st.integers(0, 3)) == 0:
            el["schedule"] = draw(st.sampled_from(["deterministic", "poisson"]))
        return el

    def parallel_element():
        el = {}
        ctx = None
        if inherit and (time_based or iteration_based):
            kinds = ["none", "none"]
            if iteration_based:
                kinds.append("iter")
            if time_based:
                kinds.append("time")
            kind = draw(st.sampled_from(kinds))
            d = {}
            if kind == "iter":
                which = draw(st.sampled_from(["both", "it", "wi"]))
                if which in ("both", "wi"):
                    d["warmup-iterations"] = draw(st.integers(0, 3))
                if which in ("both", "it"):
                    d["iterations"] = draw(st.integers(1, 6))
            elif kind == "time":
                which = draw(st.sampled_from(["both", "tp", "wtp", "ramp-only" if ramp_up else "both"]))
                if which in ("both", "wtp"):
                    d["warmup-time-period"] = draw(st.integers(0, 4))
                if which in ("both", "tp"):
                    d["time-period"] = draw(st.integers(1, 10))
                if ramp_up and which == "ramp-only":
                    d["ramp-up-time-period"] = draw(st.integers(0, 3))
                elif ramp_up and "warmup-time-period" in d and draw(st.booleans()):
                    d["ramp-up-time-period"] = draw(st.integers(0, d["warmup-time-period"]))
            if kind != "none":
                ctx = {"mode": kind, "defaults": d}
                el.update(d)
        tasks = [leaf(ctx, False) for _ in range(draw(st.integers(1, max_parallel_tasks)))]
        if ctx is not None and ctx["mode"] == "time" and "ramp-up-time-period" in el:
            # a task may override the inherited warm-up period only with one that still covers the ramp-up (done in timing())
            pass
        el["tasks"] = tasks
        total = sum(t.get("clients", 1) for t in tasks)
        if caps:
            kind = draw(st.sampled_from(["none", "none", "below", "below", "equal", "above"]))
            delta = draw(st.integers(1, 3))
            if kind == "below" and total > 1:
                el["clients"] = max(1, total - delta)
            elif kind == "equal" or (kind == "below" and total == 1):
                el["clients"] = total
            elif kind == "above":
                el["clients"] = total + delta
        if completed_by:
            kind = draw(st.sampled_from(["none", "none", "task", "task", "any"]))
            if kind == "task":
                el["completed-by"] = resolved_name(tasks[draw(st.integers(0, len(tasks) - 1))])
            elif kind == "any":
                el["completed-by"] = "any"
        return el

    spec = []
    for _ in range(draw(st.integers(min_elements, max_elements))):
        if parallel and (p_parallel >= 100 or draw(st.integers(0, 99)) < p_parallel):
            spec.append(parallel_element())
        else:
            spec.append(leaf(None, True))
    return spec


def host_layouts(max_hosts=3, max_cores=4):
    """list of core counts, one per load-driver host"""
    return st.lists(st.integers(1, max_cores), min_size=1, max_size=max_hosts)


# ------------------------------------------------------------------------------------------------------------------ model
def target_throughput_model(leaf):
    """docs: target-interval is 1 / target-throughput; a string "<n> <unit>/s" carries its unit, a number means ops/s"""
    tt = leaf.get("target-throughput")
    ti = leaf.get("target-interval")
    if ti is not None and ti != 0:
        return [1.0 / float(ti), "ops/s"]
    if tt is None or tt == 0:
        return None
    if isinstance(tt, str):
        value, unit = tt.split(" ", 1)
        return [float(value), unit] if float(value) else None
    return [float(tt), "ops/s"]


def op_model(op):
    params = copy.deepcopy(op["params"])
    if "include-in-reporting" in params:
        iir = params["include-in-reporting"]
    else:
        iir = op["type"] not in ADMIN_OP_TYPES
    return {"name": op["name"], "type": op["type"], "params": params, "include_in_reporting": iir}


def _leaf_model(leaf, defaults, completed_by, path):
    name = resolved_name(leaf)
    tags = leaf.get("tags")
    m = {
        "kind": "task",
        "path": path,
        "name": name,
        "operation": op_model(leaf["operation"]),
        "tags": [tags] if isinstance(tags, str) else list(tags or []),
        "meta": copy.deepcopy(leaf.get("meta", {})),
        "clients": leaf.get("clients", 1),
        "completes_parent": completed_by is not None and completed_by != "any" and completed_by == name,
        "any_completes_parent": completed_by == "any",
        "schedule": leaf.get("schedule"),
        "target_throughput": target_throughput_model(leaf),
    }
    for k in TIMING_KEYS:
        m[k.replace("-", "_")] = leaf[k] if k in leaf else defaults.get(k)
    return m


def model(spec):
    out = []
    for i, el in enumerate(spec):
        if is_parallel(el):
            defaults = {k: el[k] for k in TIMING_KEYS if k in el}
            cb = el.get("completed-by")
            tasks = [_leaf_model(t, defaults, cb, [i, j]) for j, t in enumerate(el["tasks"])]
            total = sum(t["clients"] for t in tasks)
            cap = el.get("clients")
            out.append(
                {"kind": "parallel", "path": [i], "tasks": tasks, "clients_cap": cap, "clients": cap if cap is not None else total,
                 "task_clients": total, "completed_by": cb}
            )
        else:
            out.append(_leaf_model(el, {}, None, [i]))
    return out


# ------------------------------------------------------------------------------------------------------------------ track JSON
def op_json(op):
    """the operation as an object of the track JSON format"""
    d = {"name": op["name"], "operation-type": op["type"]}
    if op.get("style") == "unnamed":
        del d["name"]
    d.update(copy.deepcopy(op["params"]))
    return d


def leaf_json(leaf):
    d = {}
    op = leaf["operation"]
    if op["style"] in ("inline", "unnamed"):
        d["operation"] = op_json(op)
    else:
        d["operation"] = op["name"]
    for k in LEAF_KEYS:
        if k in leaf:
            d[k] = copy.deepcopy(leaf[k])
    return d


def to_track_json(spec):
    """{"schedule": [...]} plus "operations": [...] when some operation is written by reference"""
    ops, seen = [], set()
    schedule = []
    for el in spec:
        if is_parallel(el):
            p = {k: el[k] for k in ("clients", "completed-by") + TIMING_KEYS if k in el}
            p["tasks"] = [leaf_json(t) for t in el["tasks"]]
            schedule.append({"parallel": p})
        else:
            schedule.append(leaf_json(el))
    for leaf in leaves(spec):
        op = leaf["operation"]
        if op["style"] == "ref" and op["name"] not in seen:
            seen.add(op["name"])
            ops.append(op_json(op))
    out = {"schedule": schedule}
    if ops:
        out["operations"] = ops
    return out


# ------------------------------------------------------------------------------------------------------------------ real objects
def build_schedule(spec):
    """
    Real esrally.track.Task / track.Parallel objects for the spec, built directly with the constructors (not through the loader)
    with the values of model(spec). As the loader does, Task.params is the task's JSON object, Operation.params the operation's
    JSON object (with include-in-reporting filled in for built-in types) and an operation written by reference is one shared object.
    """
    from esrally import track

    shared = {}

    def operation(op):
        if op["style"] == "ref" and op["name"] in shared:
            return shared[op["name"]]
        params = {} if op["style"] == "string" else op_json(op)
        if op["type"] in BUILTIN_OP_TYPES and "include-in-reporting" not in params:
            params["include-in-reporting"] = op["type"] not in ADMIN_OP_TYPES
        o = track.Operation(name=op["name"], operation_type=op["type"], params=params)
        if op["style"] == "ref":
            shared[op["name"]] = o
        return o

    def task(leaf, m):
        return track.Task(
            name=m["name"],
            operation=operation(leaf["operation"]),
            tags=copy.deepcopy(leaf.get("tags")),
            meta_data=copy.deepcopy(leaf.get("meta")),
            warmup_iterations=m["warmup_iterations"],
            iterations=m["iterations"],
            warmup_time_period=m["warmup_time_period"],
            time_period=m["time_period"],
            ramp_up_time_period=m["ramp_up_time_period"],
            clients=m["clients"],
            completes_parent=m["completes_parent"],
            any_completes_parent=m["any_completes_parent"],
            schedule=m["schedule"],
            params=leaf_json(leaf),
        )

    out = []
    for el, m in zip(spec, model(spec)):
        if is_parallel(el):
            out.append(track.Parallel([task(l, lm) for l, lm in zip(el["tasks"], m["tasks"])], clients=m["clients_cap"]))
        else:
            out.append(task(el, m))
    return out


def object_at(schedule, path):
    """the object of build_schedule(spec) that a model "path" names"""
    el = schedule[path[0]]
    return el if len(path) == 1 else el.tasks[path[1]]


# ------------------------------------------------------------------------------------------------------------------ task filters
@st.composite
def filter_specs(draw, spec):
    """
    {"mode": "include" | "exclude", "filters": [...]} built from names / "type:x" / "tag:y" present in the spec and absent ones.
    Special classes: all tasks of one parallel element named; only absent filters.
    """
    m = model(spec)
    names = [l["name"] for l in leaves(m)]
    types = sorted({l["operation"]["type"] for l in leaves(m)})
    tags = sorted({t for l in leaves(m) for t in l["tags"]})
    present = names + [f"type:{t}" for t in types] + [f"tag:{t}" for t in tags]
    absent = ["nosuch-task", "type:nosuch-type", "tag:nosuch-tag"] + [f"type:{t}" for t in OP_TYPES if t not in types] + [
        f"tag:{t}" for t in TAGS if t not in tags
    ]
    # near misses: filters are case-sensitive and match whole names / types / tags
    near_misses = []
    swapped = tuple(f"type:{t.replace('_', '-') if '_' in t else t.replace('-', '_')}" for t in types if "_" in t or "-" in t)
    for near in (names[0].swapcase(), names[0][:-1], names[-1] + "-b", f"type:{types[0].upper()}", f"type:{types[0][:-1]}") + swapped[:2] + tuple(
        f"tag:{v}" for t in tags[:2] for v in (t.upper(), t[:-1], t[1:], t + "s") if v
    ):
        if near and near not in names and near not in absent and near not in present and near not in near_misses:
            near_misses.append(near)
    absent += near_misses
    parallels = [el for el in m if el["kind"] == "parallel"]
    kinds = ["generic", "generic", "generic", "absent-only"]
    if parallels:
        kinds += ["all-of-parallel", "some-of-parallel"]
    kind = draw(st.sampled_from(kinds))
    mode = draw(st.sampled_from(["exclude", "include"]))
    if kind == "generic":
        filters = draw(st.lists(st.sampled_from(present + absent[:3] + near_misses), min_size=1, max_size=3, unique=True))
    elif kind == "absent-only":
        filters = draw(st.lists(st.sampled_from(absent), min_size=1, max_size=2, unique=True))
    elif kind == "all-of-parallel":
        p = draw(st.sampled_from(parallels))
        how = draw(st.sampled_from(["names", "names", "types", "mixed"]))
        if how == "names":
            filters = [t["name"] for t in p["tasks"]]
        elif how == "types":
            filters = sorted({f"type:{t['operation']['type']}" for t in p["tasks"]})
        else:
            filters = []
            for t in p["tasks"]:
                f = f"tag:{t['tags'][0]}" if t["tags"] else t["name"]
                if f not in filters:
                    filters.append(f)
        if draw(st.booleans()):
            extra = draw(st.sampled_from(present + absent[:3]))
            if extra not in filters:
                filters.append(extra)
    else:  # some but not all tasks of one parallel element, by name
        p = draw(st.sampled_from(parallels))
        k = draw(st.integers(1, max(1, len(p["tasks"]) - 1)))
        filters = [t["name"] for t in p["tasks"][:k]]
    return {"mode": mode, "filters": filters}


def filter_matches(filter_string, mleaf):
    """docs/command_line_reference.rst: an item is a task name, 'type:<operation type>' or 'tag:<tag>'; case-sensitive"""
    parts = filter_string.split(":")
    if len(parts) == 1:
        return mleaf["name"] == filter_string
    if parts[0] == "type":
        return mleaf["operation"]["type"] == parts[1]
    if parts[0] == "tag":
        return parts[1] in mleaf["tags"]
    raise ValueError(f"not a task filter: {filter_string}")


def reference_filter(m, mode, filters):
    """
    include: keep the leaf tasks matching >= 1 filter; exclude: keep those matching none. A parallel element keeps its surviving tasks
    in order and disappears when none survives. No filters: everything stays. Returns a new model (entries keep their "path").
    """
    if not filters:
        return copy.deepcopy(m)

    def keep(l):
        hit = any(filter_matches(f, l) for f in filters)
        return hit if mode == "include" else not hit

    out = []
    for el in m:
        if el["kind"] == "parallel":
            survivors = [copy.deepcopy(t) for t in el["tasks"] if keep(t)]
            if survivors:
                p = {k: copy.deepcopy(v) for k, v in el.items() if k != "tasks"}
                p["tasks"] = survivors
                p["task_clients"] = sum(t["clients"] for t in survivors)
                p["clients"] = p["clients_cap"] if p["clients_cap"] is not None else p["task_clients"]
                out.append(p)
        elif keep(el):
            out.append(copy.deepcopy(el))
    return out


def parallels_emptied_by(m, mode, filters):
    """paths of the parallel elements of which no task survives the filter"""
    if not filters:
        return []
    out = []
    for el in m:
        if el["kind"] == "parallel":
            hits = [any(filter_matches(f, t) for f in filters) for t in el["tasks"]]
            if (mode == "exclude" and all(hits)) or (mode == "include" and not any(hits)):
                out.append(el["path"])
    return out


def apply_real_filter(schedule, mode, filters, extra_challenges=()):
    """
    Runs the real TaskFilterTrackProcessor, configured as rally.py configures it from --include-tasks / --exclude-tasks, on a track
    whose (default) challenge has the given schedule. Returns the track; the filtered schedule is track.challenges[0].schedule.
    """
    from esrally import config, track
    from esrally.track import loader

    cfg = config.Config()
    cfg.add(config.Scope.applicationOverride, "track", "include.tasks", list(filters) if mode == "include" else None)
    cfg.add(config.Scope.applicationOverride, "track", "exclude.tasks", list(filters) if mode == "exclude" else None)
    challenges = [track.Challenge("c0", default=True, schedule=schedule)]
    for i, s in enumerate(extra_challenges):
        challenges.append(track.Challenge(f"c{i + 1}", schedule=s))
    t = track.Track(name="verif", challenges=challenges)
    loader.TaskFilterTrackProcessor(cfg).on_after_load_track(t)
    return t
