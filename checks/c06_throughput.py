"""
C06 - Throughput counts every operation exactly once, however samples are batched.

Real code: esrally.driver.driver.SamplePostprocessor + ThroughputCalculator, fed with real Sample objects.
Generated: per-task sample streams from several workers/clients, a shipment/tick plan (which worker ships how many
samples next, when the driver post-processes), and a second independent plan for the same stream.
Oracle: conservation through a sentinel flush, per-emission lower/upper bound, metamorphic (two plans), monotone
sample type, at least one normal value, unit, pass-through of runner-supplied throughput.
"""
import hashlib

from hypothesis import strategies as st

from esrally import metrics, track
from esrally.driver import driver

ID = "C06"
LEVEL = "exploration"
TECHNIQUE = "property-based testing (Hypothesis): conservation + bound + metamorphic oracles over generated sample streams and batch cuts"
RULE = (
    "Generated: 1-3 tasks, each with 1-4 workers x 1-3 clients; each client a time-ordered list of samples (inter-arrival from "
    "{1/1024, 0.2, 0.9, 1.1, 5, 40} s, ops 0-5000, warm-up prefix then normal); a plan = sequence of (worker ships next n samples | "
    "driver post-processing tick), so arrival is in order per worker and out of order across workers; every case is run under two "
    "independently drawn plans (1 in 120: a burst of 20 000 samples of one task inside one bucket); samples carry their client's progress (k of n, none for one client in three). Non-trivial = (some task sees >= 3 non-empty batches of which two consecutive ones emit no throughput "
    "value) or (a batch contains a sample older than one already delivered in an earlier batch). Distinct = distinct canonical JSON."
)
ASSUMPTIONS = [
    "samples of one client are shipped in completion order (Sampler is a FIFO queue) and absolute_time = task start + time_period as AsyncExecutor computes them",
    "a task either always or never gets its throughput from the runner",
    "relative tolerance 1e-9 for products/quotients of floats",
]
BUDGET = {"quick": 2500, "thorough": 20000}
REQUIRED_CLASSES = {"out-of-order": 50, "two-consecutive-silent-batches": 50, "failed-requests-recorded-as-ops": 50}

EPOCH = 1_700_000_000.0
GAPS = [1 / 1024, 205 / 1024, 922 / 1024, 1126 / 1024, 5.0, 40.0]
SENTINEL_AFTER = 10_000.0
TOL = 1e-9


# ------------------------------------------------------------------------------------------------ generator
@st.composite
def _client(draw):
    n = draw(st.integers(0, 12))
    pace = draw(st.sampled_from(["fast", "fast", "mixed", "any"]))
    gap_idx = {"fast": st.sampled_from([0, 0, 1, 1, 1, 2]), "mixed": st.sampled_from([0, 1, 1, 2, 3]), "any": st.integers(0, len(GAPS) - 1)}[pace]
    gaps = draw(st.lists(gap_idx, min_size=n, max_size=n))
    ops = draw(st.lists(st.sampled_from([0, 1, 1, 1, 2, 7, 100, 1000, 5000]) | st.integers(0, 5000), min_size=n, max_size=n))
    warmup = draw(st.integers(0, n))
    # a failed request is recorded with 0 operations and the unit "ops" (execute_single), whatever the task's unit is
    return {"gaps": gaps, "ops": ops, "warmup": warmup, "failures_as_ops": draw(st.sampled_from([False, False, True]))}


@st.composite
def _plan(draw, n_workers):
    # tick-heavy plans make the driver post-process after (almost) every shipment, ship-heavy ones accumulate
    tick = draw(st.sampled_from([st.just("tick"), st.sampled_from(["tick", "ship"]), st.sampled_from(["tick", "ship", "ship", "ship"])]))
    steps = draw(st.lists(st.tuples(tick, st.integers(0, n_workers - 1), st.integers(1, 4)), max_size=40))
    out = []
    for kind, w, n in steps:
        out.append(["ship", w, n])
        if kind == "tick":
            out.append(["tick", 0, 0])
    return out


@st.composite
def _case(draw):
    n_tasks = draw(st.integers(1, 3))
    n_workers = draw(st.integers(1, 4))
    tasks = []
    for _ in range(n_tasks):
        tasks.append(
            {
                "unit": draw(st.sampled_from(["docs", "ops", "pages"])),
                "runner_throughput": draw(st.booleans()) and draw(st.booleans()),
                "start_offset": draw(st.sampled_from([0.0, 0.5, 3.0])),
            }
        )
    workers = []
    for _ in range(n_workers):
        n_clients = draw(st.integers(1, 3))
        clients = []
        for _ in range(n_clients):
            c = draw(_client())
            c["task"] = draw(st.integers(0, n_tasks - 1))
            c["client_offset"] = draw(st.sampled_from([0.0, 0.0, 1 / 1024, 0.25]))
            clients.append(c)
        workers.append(clients)
    case = {"tasks": tasks, "workers": workers, "plan_a": draw(_plan(n_workers)), "plan_b": draw(_plan(n_workers))}
    # (derived from a drawn ticket: Hypothesis would visit a rare branch of a sampled_from far more often than its share)
    if int(hashlib.sha256(str(draw(st.integers(0, 2**32))).encode()).hexdigest(), 16) % 120 == 0:
        # volume: tens of thousands of samples of one task inside a single one-second bucket, cut into two batches in the middle of it
        n = 20000
        case["workers"][0][0]["burst"] = n
        case["tasks"][case["workers"][0][0]["task"]]["runner_throughput"] = False  # (pass-through emits one value per sample)
        case["workers"][0][0]["failures_as_ops"] = False
        own = len(case["workers"][0][0]["gaps"])
        case["plan_a"] = [["ship", 0, own + draw(st.sampled_from([n // 2, n - 1000, 17000]))], ["tick", 0, 0]]
        case["plan_b"] = []
    return case


def strategy(tier, known):
    return _case()


# ------------------------------------------------------------------------------------------------ execution
class _Store:
    def __init__(self):
        self.records = []

    def put_value_cluster_level(self, **kw):
        if kw["name"] == "throughput":
            self.records.append(kw)

    def flush(self, refresh=True):
        pass


def _build_streams(case):
    tasks = []
    for i, t in enumerate(case["tasks"]):
        op = track.Operation(f"op{i}", "bulk", {})
        tasks.append(track.Task(f"task{i}", op, clients=8))
    streams = []
    client_id = 0
    for w in case["workers"]:
        merged = []
        for c in w:
            ti = c["task"]
            tspec = case["tasks"][ti]
            start = EPOCH + tspec["start_offset"] + c["client_offset"]
            t = 0.0
            gaps = [GAPS[g] for g in c["gaps"]] + [1 / 65536] * c.get("burst", 0)
            all_ops = list(c["ops"]) + [1] * c.get("burst", 0)
            for k, (gap, ops) in enumerate(zip(gaps, all_ops)):
                t += gap
                st_type = metrics.SampleType.Warmup if k < c["warmup"] else metrics.SampleType.Normal
                # (a runner may well report a throughput of exactly 0: recovery of an empty index, a stalled job)
                tp = (0.0 if ops == 0 else ops * 3 + 1.5) if tspec["runner_throughput"] else None
                s = driver.Sample(
                    client_id,
                    start + t,  # absolute_time
                    1000.0 + tspec["start_offset"] + c["client_offset"] + t,  # request_start (perf counter domain)
                    1000.0 + tspec["start_offset"],  # task_start
                    tasks[ti],
                    st_type,
                    None,
                    gap,
                    gap,
                    gap,
                    tp,
                    ops,
                    "ops" if (ops == 0 and c.get("failures_as_ops")) else tspec["unit"],
                    t,  # time_period: elapsed since this client started the task
                    # progress of *this client* as the executor reports it: k of n requests for two clients in three, none for the
                    # others (a task that runs until another one completes); a client's last sample says 1.0 while others carry on
                    (k + 1) / len(all_ops) if client_id % 3 != 2 else None,
                )
                merged.append(s)
            client_id += 1
        merged.sort(key=lambda s: s.absolute_time)  # completion order within one worker (stable: ties keep client order)
        streams.append(merged)
    return tasks, streams


def _batches(streams, plan):
    pos = [0] * len(streams)
    batches, cur = [], []
    for kind, w, n in plan:
        if kind == "ship":
            cur.extend(streams[w][pos[w] : pos[w] + n])
            pos[w] += n
        else:
            batches.append(cur)
            cur = []
    for w, s in enumerate(streams):  # what is left is shipped at the step boundary
        cur.extend(s[pos[w] :])
    batches.append(cur)
    return batches


def _close(a, b):
    return abs(a - b) <= TOL * max(1.0, abs(a), abs(b))


def _run_plan(tasks, streams, plan, obs, tag, case_units=None):
    case_units = case_units or [None] * len(tasks)
    mixed_units = [False]
    by_time = {}  # task -> absolute time -> samples delivered so far
    store = _Store()
    pp = driver.SamplePostprocessor(store, 1, {}, {})
    batches = _batches(streams, plan)
    delivered = {t: [] for t in tasks}  # samples delivered so far per task
    start_time = {}
    nonempty_batches = {t: 0 for t in tasks}
    silent_run = {t: 0 for t in tasks}
    max_silent_run = {t: 0 for t in tasks}
    last_type = {}
    normal_values = {t: 0 for t in tasks}
    out_of_order = False
    max_seen = {t: None for t in tasks}
    totals = {}

    for batch in batches:
        per_task = {}
        for s in batch:
            per_task.setdefault(s.task, []).append(s)
        for t, ss in per_task.items():
            if t not in start_time:
                first = min(ss, key=lambda s: s.absolute_time)  # stable: first of equal minima, as sorted() would give
                start_time[t] = first.absolute_time - first.time_period
            if max_seen[t] is not None and min(s.absolute_time for s in ss) < max_seen[t]:
                out_of_order = True
            mx = max(s.absolute_time for s in ss)
            max_seen[t] = mx if max_seen[t] is None else max(max_seen[t], mx)
        before = len(store.records)
        pp(batch)
        emitted = store.records[before:]
        for t, ss in per_task.items():
            delivered[t].extend(ss)
        by_task = {}
        for r in emitted:
            by_task.setdefault(r["task"], []).append(r)
        for t, ss in per_task.items():
            nonempty_batches[t] += 1
            recs = by_task.get(t.name, [])
            idx = tasks.index(t)
            if recs:
                silent_run[t] = 0
            else:
                silent_run[t] += 1
                max_silent_run[t] = max(max_silent_run[t], silent_run[t])
            total_delivered = sum(s.total_ops for s in delivered[t])
            ss_ids = {id(x) for x in ss}
            # (the sample a value is reported at may have been delivered in an earlier batch: the carry-over of an unfinished bucket)
            ss_by_time = by_time.setdefault(t, {})
            for x in ss:
                ss_by_time.setdefault(x.absolute_time, []).append(x)
            ss_mixed = any(x.total_ops_unit != case_units[idx] for x in ss)
            for r in recs:
                # the unit of a value is the unit of the sample it is reported at; at a failed request (0 "ops") the task's own unit is
                # accepted as well (the statement does not say which of the two a value reported there should carry)
                task_unit = case_units[idx]
                at_samples = ss_by_time.get(r["absolute_time"]) or ss
                accepted = {f"{x.total_ops_unit}/s" for x in at_samples} | ({f"{task_unit}/s"} if any(x.total_ops_unit != task_unit for x in at_samples) else set())
                obs.check(r["unit"] in accepted, "unit", f"{tag}: task{idx} unit {r['unit']!r} at a sample with ops unit {sorted(x.total_ops_unit for x in at_samples)} (task unit {task_unit!r})")
                if ss_mixed:
                    mixed_units[0] = True
                if not obs.check(isinstance(r["value"], (int, float)) and not isinstance(r["value"], bool), "not-a-number", f"{tag}: task{idx} throughput value {r['value']!r}"):
                    continue
                obs.check(r["value"] >= 0, "negative", f"{tag}: negative throughput {r['value']}")
                if t in last_type and ss[0].throughput is None:
                    # runner-supplied values carry the type of their own sample (pass-through), calculated ones must be monotone
                    obs.check(r["sample_type"] >= last_type[t], "sample-type-regressed", f"{tag}: task{idx} {last_type[t]} -> {r['sample_type']}")
                last_type[t] = r["sample_type"]
                if r["sample_type"] == metrics.SampleType.Normal:
                    normal_values[t] += 1
                if ss[0].throughput is None:
                    # reference interval: max elapsed over all delivered samples not later than the emitting one in this batch,
                    # plus everything delivered in earlier batches
                    at = r["absolute_time"]
                    # elapsed time: the calculator uses the largest elapsed time seen so far; "elapsed at the emitting sample" is
                    # accepted as well (they differ only under out-of-order arrival)
                    seen = [s for s in delivered[t] if (id(s) not in ss_ids) or s.absolute_time <= at]
                    # (operations, elapsed time) have to belong together: everything delivered so far over the largest elapsed time, or
                    # what was completed up to the emitting sample over the elapsed time at that sample - not the operations of later
                    # samples over the elapsed time of an earlier one
                    upto = sum(s.total_ops for s in delivered[t] if s.absolute_time <= at)
                    intervals = {max(s.absolute_time - start_time[t] for s in seen): total_delivered, at - start_time[t]: upto}
                    if len(intervals) == 1:
                        intervals[at - start_time[t]] = total_delivered
                    lower = sum(s.total_ops for s in delivered[t] if s.absolute_time < at)
                    ok = False
                    for interval, upper in intervals.items():
                        got = r["value"] * interval
                        if got >= lower * (1 - TOL) - TOL and got <= upper * (1 + TOL) + TOL:
                            ok = True
                    obs.check(
                        ok,
                        "bound",
                        f"{tag}: task{idx} emitted {r['value']} at +{at - EPOCH:.4f}s: value*interval={[r['value'] * i for i in intervals]} "
                        f"not in [{lower}, {total_delivered}]",
                    )
            if ss[0].throughput is not None:
                want = sorted((s.absolute_time, s.throughput, int(s.sample_type)) for s in ss)
                have = sorted((r["absolute_time"], r["value"], int(r["sample_type"])) for r in recs)
                obs.check(want == have, "pass-through", f"{tag}: task{idx} runner throughput not passed through 1:1: {want} vs {have}")

    # conservation through a sentinel flush
    for t in tasks:
        if not delivered[t] or delivered[t][0].throughput is not None:
            continue
        idx = tasks.index(t)
        last = max(s.absolute_time for s in delivered[t])
        any_normal = any(s.sample_type == metrics.SampleType.Normal for s in delivered[t])
        elapsed = max(s.absolute_time - start_time[t] for s in delivered[t])
        if any_normal and elapsed > 0:
            obs.check(normal_values[t] >= 1, "no-normal-value", f"{tag}: task{idx} has normal samples and elapsed {elapsed} but no normal throughput value")
        sentinel_abs = last + SENTINEL_AFTER
        sentinel = driver.Sample(
            99, sentinel_abs, 0.0, 0.0, t, metrics.SampleType.Normal, None, 0, 0, 0, None, 0, delivered[t][0].total_ops_unit,
            sentinel_abs - start_time[t], None,
        )
        before = len(store.records)
        pp([sentinel])
        recs = [r for r in store.records[before:] if r["task"] == t.name]
        if not obs.check(len(recs) >= 1, "sentinel-silent", f"{tag}: task{idx} sentinel produced no value"):
            continue
        interval = sentinel_abs - start_time[t]
        total = sum(s.total_ops for s in delivered[t])
        got = recs[-1]["value"] * interval
        obs.check(
            abs(got - total) <= 1e-6 * max(1.0, total),
            "conservation",
            f"{tag}: task{idx} counted {got:.3f} operations, samples carry {total} (batches: {[len(b) for b in batches]})",
        )
        totals[idx] = (round(got, 3), recs[-1]["sample_type"])
    nt = any(nonempty_batches[t] >= 3 and max_silent_run[t] >= 2 for t in tasks)
    if mixed_units[0]:
        obs.cls("failed-requests-recorded-as-ops")
    return totals, nt, out_of_order


def run_case(case, obs):
    tasks, streams = _build_streams(case)
    units = [t["unit"] for t in case["tasks"]]
    ta, nt_a, ooo_a = _run_plan(tasks, streams, case["plan_a"], obs, "plan_a", units)
    tasks, streams = _build_streams(case)  # fresh Sample objects (dependent state is mutable)
    tb, nt_b, ooo_b = _run_plan(tasks, streams, case["plan_b"], obs, "plan_b", units)
    obs.check(ta == tb, "metamorphic", f"two batchings disagree: {ta} vs {tb}")
    if nt_a or nt_b:
        obs.cls("two-consecutive-silent-batches")
    if ooo_a or ooo_b:
        obs.cls("out-of-order")
    if len(case["workers"]) >= 2:
        obs.cls("multi-worker")
    if any(t["runner_throughput"] for t in case["tasks"]):
        obs.cls("runner-throughput")
    if any(c.get("burst") for w in case["workers"] for c in w):
        obs.cls("volume")
    obs.mark_nontrivial(nt_a or nt_b or ooo_a or ooo_b)


# fixed probes for findings (signature -> case)
PROBES = {
    "conservation": {
        "tasks": [{"unit": "docs", "runner_throughput": False, "start_offset": 0.0}],
        "workers": [[{"gaps": [1, 1, 1, 1, 1, 4], "ops": [10, 10, 10, 10, 10, 0], "warmup": 0, "task": 0, "client_offset": 0.0}]],
        "plan_a": [["ship", 0, 2], ["tick", 0, 0], ["ship", 0, 1], ["tick", 0, 0], ["ship", 0, 1], ["tick", 0, 0], ["ship", 0, 1], ["tick", 0, 0]],
        "plan_b": [],
    }
}
