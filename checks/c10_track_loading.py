"""
C10 - A loaded track is exactly what the file says; invalid tracks are rejected.

Real code: esrally.track.loader.TrackFileReader.read (TemplateSource / rally.collect assembly, Jinja rendering with track parameters,
JSON schema validation, TrackSpecificationReader, CompleteTrackParams accounting) on a real track directory written per case.
Generated: a track model (gen/tracks.py; schedules from gen/schedules.py) rendered to track.json with shuffled key order, optional parts,
index bodies / templates as files and 0-4 Jinja parameters; negative cases apply exactly one rule violation to the valid document.
Oracle: positive - the loaded Track equals the model under a reference interpreter of docs/track.rst (gen/tracks.expected);
negative - the load raises TrackSyntaxError / InvalidSyntax / TrackConfigError; a successful load or any other exception is a violation.
"""
import copy
import hashlib
import logging
import os
import re
import shutil
import tempfile

from hypothesis import strategies as st

import esrally
from esrally import config, exceptions
from esrally.track import loader
from esrally.utils import console
from gen import schedules as S
from gen import tracks as T

ID = "C10"
LEVEL = "exploration"
TECHNIQUE = "property-based testing (Hypothesis): model-based round trip through the real loader against a reference interpreter of the docs + single-rule mutation of valid tracks"
RULE = (
    "Generated: track model with optional description/meta, indices (1-2, optional types and body file) or data streams (1-2) or neither, "
    "0-1 legacy/composable/component templates, 0-2 corpora x 1-3 document sets with corpus-level defaults, 1-3 challenges (or a single "
    "'challenge' / bare top-level 'schedule'), each schedule 1-4 elements from gen/schedules.py (leaf tasks and parallel elements with caps, "
    "completed-by, inherited defaults, iteration/time based, ramp-up, throughput targets, tags, inline / referenced / bare-string operations); "
    "rendered to a directory: track.json with permuted key order, optionally operations / challenges / a schedule split into parts pulled in by "
    "{{ rally.collect(parts=...) }} (also nested), index bodies and templates as files, 0-4 scalar values anywhere replaced by "
    "the documented helper {{ rally.exists_set_param(key, param, default_value) }} (a third of them, in track.json and its parts) or by "
    "{{ pN | default(v) }} with the value supplied by the user or defaulted, optional --challenge selection. Half of the cases are negative: "
    "exactly one violation out of 40 kinds (duplicate task/challenge/corpus/operation, no/two default challenges, iterations mixed with time "
    "periods directly or through parallel defaults, four ramp-up rules (one with warm-up iterations next to an otherwise valid ramp-up), unknown / ambiguous completed-by, indices with data streams, unused / "
    "reserved track parameter, missing mandatory elements, 16 schema violations). Non-trivial = positive case with a parallel element of which a "
    "task inherits >= 1 default and >= 1 Jinja parameter in use; negative case whose violation was applied. Distinct = distinct canonical JSON."
)
ASSUMPTIONS = [
    "track parameters arrive as a dict of str/int/float/bool values under track/params, the challenge selection under track/challenge.name (as rally.py stores them)",
    "every rally.collect pattern matches exactly one file (with several matches the order is the file system's)",
    "string values contain none of \" \\ { } % and no newline (they are pasted into Jinja/JSON text)",
    "combinations neither docs nor code pronounce on are not generated: iterations together with time-period, .tar* / bare .zip corpus names, target-type with data streams, "
    "target-index mixed with target-data-stream in one corpus, a task called 'any'",
    "the name of the challenge generated for a top-level 'schedule' is not compared (undocumented); operation params are compared for the keys written in the file "
    "(the loader may add keys), include-in-reporting through Operation.include_in_reporting",
    "track plugins (track.py) and load-time processors (task filters, test mode) are out of scope here",
]
BUDGET = {"quick": 1000, "thorough": 9000}
WALL_BUDGET_S = {"quick": 80, "thorough": 1200}

KNOWN_CORPUS_DEFAULT = "corpora/corpus-level-target-ignored-without-indices"
REJECTIONS = (loader.TrackSyntaxError, exceptions.InvalidSyntax, exceptions.TrackConfigError)

# violation kind -> knobs the model needs
NEEDS = {
    "dup-task": {"two_leaves": True},
    "dup-task-default-name": {"two_leaves": True},
    "dup-task-within-one-parallel": {"parallel": True},
    "dup-challenge": {"challenges": 2},
    "dup-corpus": {"corpora": 2},
    "dup-operation": {"ref_ops": True},
    "no-default-challenge": {"challenges": 2},
    "two-default-challenges": {"challenges": 2},
    "warmup-iterations+time-period": {},
    "warmup-time-period+iterations": {},
    "inherited-warmup-iterations+time-period": {"parallel": True},
    "inherited-warmup-time-period+iterations": {"parallel": True},
    "ramp-up-without-warmup": {},
    "ramp-up-exceeds-warmup": {},
    "ramp-up-with-iterations": {},
    "ramp-up-on-parallel-task-only": {"parallel": True},
    "ramp-up-differs-from-parallel": {"parallel": True},
    "unknown-completed-by": {"parallel": True},
    "two-tasks-match-completed-by": {"parallel": True},
    "indices+data-streams": {},
    "unused-track-param": {},
    "reserved-track-param": {},
    "missing-operation": {},
    "missing-document-count": {"corpora": 1},
    "schema/challenge-without-name": {"form": "challenges"},
    "schema/challenge-without-schedule": {"form": "challenges"},
    "schema/operation-without-type": {"ref_ops": True},
    "schema/corpus-without-documents": {"corpora": 1},
    "schema/document-without-source-file": {"corpora": 1},
    "schema/index-without-name": {"store": "indices"},
    "schema/clients-string": {},
    "schema/clients-zero": {},
    "schema/iterations-zero": {},
    "schema/time-period-fraction": {},
    # track-schema.json is a draft-04 schema: 4.0 is a number, not an integer (what `{{ clients / 2 }}` renders to)
    "schema/clients-integral-float": {},
    "schema/iterations-integral-float": {},
    "schema/empty-schedule": {},
    "schema/empty-parallel-tasks": {"parallel": True},
    "schema/parallel-without-tasks": {"parallel": True},
    "schema/description-not-string": {},
    "schema/negative-target-throughput": {},
    "schema/default-not-boolean": {"form": "challenges"},
}
KINDS = sorted(NEEDS)
REQUIRED_CLASSES = {"positive": 300, "positive:inherits-default": 60, "positive:params>=1": 150, "positive:parts": 60, "positive:nontrivial": 30, "positive:exists_set_param-helper": 60}
REQUIRED_CLASSES.update({f"violation:{k}": 4 for k in KINDS})

_DIR = {"root": None, "n": 0}


def setup():
    console.init(quiet=True)
    lg = logging.getLogger("esrally")
    lg.addHandler(logging.NullHandler())
    lg.propagate = False
    _DIR["root"] = tempfile.mkdtemp(prefix="verif-c10-")


def teardown():
    if _DIR["root"]:
        shutil.rmtree(_DIR["root"], ignore_errors=True)


# ------------------------------------------------------------------------------------------------ generator
@st.composite
def _case(draw, tier):
    negative = draw(st.booleans())
    # (hashed: Hypothesis favours small and round integers, which left a third of the kinds without a generated case)
    kind = KINDS[int(hashlib.sha256(str(draw(st.integers(0, 2**32))).encode()).hexdigest(), 16) % len(KINDS)] if negative else None
    need = NEEDS[kind] if kind else {}
    kw = {}
    if need.get("challenges"):
        kw.update(min_challenges=need["challenges"], form="challenges")
    if need.get("form"):
        kw["form"] = need["form"]
    if need.get("corpora"):
        kw["min_corpora"] = need["corpora"]
    if need.get("store"):
        kw["store"] = need["store"]
    if need.get("parallel"):
        kw["need_parallel"] = True
    if need.get("ref_ops"):
        kw["need_ref_ops"] = True
        kw["schedule_kw"] = {"op_styles": ("inline", "ref")}
    if need.get("two_leaves"):
        kw["schedule_kw"] = {"min_elements": 2}
    if tier == "thorough":
        kw["max_elements"] = 6
    model = draw(T.track_models(**kw))
    n_params = draw(st.sampled_from([0, 1, 1, 2, 3, 4]))
    params = [{"site": draw(st.integers(0, 10_000)), "supplied": draw(st.booleans()), "helper": draw(st.sampled_from([False, False, True]))} for _ in range(n_params)]
    layout = {
        "order": draw(st.integers(0, 50)),
        "indent": draw(st.sampled_from([2, None])),
        "import": draw(st.booleans()),
        "ops_part": draw(st.booleans()),
        "challenge_parts": draw(st.booleans()),
        "nested_part": draw(st.booleans()),
    }
    case = {"track": model, "params": params, "layout": layout, "selected": None, "violation": None}
    if draw(st.integers(0, 2)) == 1 and model["form"] != "schedule":
        case["selected"] = model["challenges"][draw(st.integers(0, len(model["challenges"]) - 1))]["name"]
    if negative:
        case["violation"] = {"kind": kind, "a": draw(st.integers(0, 50)), "b": draw(st.integers(0, 50))}
    return case


def strategy(tier, known):
    return _case(tier)


def is_excluded(case, known):
    return KNOWN_CORPUS_DEFAULT in known and not case.get("violation") and T.relies_on_corpus_default_without_store(case["track"])


# ------------------------------------------------------------------------------------------------ violations
def _challenge_docs(doc):
    if "schedule" in doc:
        return [doc]  # the document itself carries the schedule
    if "challenge" in doc:
        return [doc["challenge"]]
    return doc["challenges"]


def _leaf_slots(schedule):
    """(parallel dict or None, leaf dict) for every leaf of a schedule in track JSON form"""
    out = []
    for el in schedule:
        if "parallel" in el:
            out += [(el["parallel"], t) for t in el["parallel"].get("tasks", [])]
        else:
            out.append((None, el))
    return out


def _name_of(leaf):
    if "name" in leaf:
        return leaf["name"]
    op = leaf["operation"]
    return op if isinstance(op, str) else op.get("name", op.get("operation-type"))


def _strip_timing(leaf):
    for k in S.TIMING_KEYS:
        leaf.pop(k, None)


def _first_parallel(schedule):
    return next(el["parallel"] for el in schedule if "parallel" in el)


def apply_violation(doc, user_params, v, model):
    """mutates the valid track document (and the user's track parameters) so that exactly one documented rule is broken"""
    kind, a, b = v["kind"], v["a"], v["b"]
    chs = _challenge_docs(doc)
    if NEEDS[kind].get("parallel"):
        ch = next(c for c in chs if any("parallel" in el for el in c["schedule"]))
    elif NEEDS[kind].get("two_leaves"):
        ch = next(c for c in chs if len(_leaf_slots(c["schedule"])) >= 2)
    else:
        ch = chs[a % len(chs)]
    slots = _leaf_slots(ch["schedule"])
    par, leaf = slots[b % len(slots)]

    if kind in ("dup-task", "dup-task-default-name"):
        i = b % len(slots)
        j = (i + 1 + a % (len(slots) - 1)) % len(slots)
        (par1, first), (par2, second) = slots[i], slots[j]
        old_names = {id(first): _name_of(first), id(second): _name_of(second)}
        if kind == "dup-task":
            second["name"] = _name_of(first)
        else:
            # two tasks run the same operation and neither says "name"
            second.pop("name", None)
            first.pop("name", None)
            second["operation"] = copy.deepcopy(first["operation"])
        # a completed-by that referred to a renamed task follows it, so that the duplicate name is the only broken rule
        for p, t in ((par1, first), (par2, second)):
            if p is not None and p.get("completed-by") == old_names[id(t)]:
                p["completed-by"] = _name_of(t)
    elif kind == "dup-task-within-one-parallel":
        # both copies of the name sit in the same parallel element; no completed-by refers to it (that would be another rule)
        p = _first_parallel(ch["schedule"])
        if len(p["tasks"]) < 2:
            p["tasks"].append(copy.deepcopy(p["tasks"][0]))
            p["tasks"][1]["name"] = _name_of(p["tasks"][0]) + "-twin"
        first = p["tasks"][a % len(p["tasks"])]
        second = p["tasks"][(a + 1 + b % (len(p["tasks"]) - 1)) % len(p["tasks"])]
        if b % 2:
            second["name"] = _name_of(first)
        else:
            first.pop("name", None)
            second.pop("name", None)
            second["operation"] = copy.deepcopy(first["operation"])
        if p.get("completed-by") not in (None, "any") and p["completed-by"] not in [_name_of(t) for t in p["tasks"] if t is not first and t is not second]:
            p.pop("completed-by")
        if "clients" in p:
            p.pop("clients")
    elif kind == "dup-challenge":
        doc["challenges"][1 + a % (len(doc["challenges"]) - 1)]["name"] = doc["challenges"][0]["name"]
    elif kind == "dup-corpus":
        doc["corpora"][1]["name"] = doc["corpora"][0]["name"]
    elif kind == "dup-operation":
        dup = copy.deepcopy(doc["operations"][a % len(doc["operations"])])
        dup["x-second-definition"] = True
        doc["operations"].append(dup)
    elif kind == "no-default-challenge":
        for c in doc["challenges"]:
            c.pop("default", None) if a % 2 else c.update(default=False)
    elif kind == "two-default-challenges":
        others = [c for c in doc["challenges"] if not c.get("default")]
        others[a % len(others)]["default"] = True
    elif kind == "warmup-iterations+time-period":
        _strip_timing(leaf)
        leaf.update({"warmup-iterations": a % 4, "time-period": 1 + b % 9})
    elif kind == "warmup-time-period+iterations":
        _strip_timing(leaf)
        leaf.update({"warmup-time-period": a % 4, "iterations": 1 + b % 9})
    elif kind in ("inherited-warmup-iterations+time-period", "inherited-warmup-time-period+iterations"):
        p = _first_parallel(ch["schedule"])
        for k in S.TIMING_KEYS:
            p.pop(k, None)
        for t in p["tasks"]:
            _strip_timing(t)
        t = p["tasks"][b % len(p["tasks"])]
        if kind.startswith("inherited-warmup-iterations"):
            p["warmup-iterations"] = a % 4
            t["time-period"] = 1 + b % 9
        else:
            p["warmup-time-period"] = a % 4
            t["iterations"] = 1 + b % 9
    elif kind == "ramp-up-without-warmup":
        _strip_timing(leaf)
        if par is not None:
            for k in S.TIMING_KEYS:
                par.pop(k, None)
            for t in par["tasks"]:
                _strip_timing(t)
            par["ramp-up-time-period"] = 1 + a % 3
            leaf = par  # ramp-up on the parallel element, nothing else: its tasks have no warm-up period
        else:
            leaf["ramp-up-time-period"] = 1 + a % 3
        if b % 2:
            leaf["time-period"] = 5
    elif kind == "ramp-up-exceeds-warmup":
        _strip_timing(leaf)
        if par is not None:
            for k in S.TIMING_KEYS:
                par.pop(k, None)
            for t in par["tasks"]:
                _strip_timing(t)
            par.update({"ramp-up-time-period": 3 + a % 3, "warmup-time-period": 3 + a % 3, "time-period": 5})
            leaf["warmup-time-period"] = a % 3  # overrides the inherited warm-up with one that is too short
        else:
            leaf.update({"warmup-time-period": a % 3, "ramp-up-time-period": 3 + a % 3, "time-period": 5})
    elif kind == "ramp-up-with-iterations":
        _strip_timing(leaf)
        if par is not None:
            for k in S.TIMING_KEYS:
                par.pop(k, None)
            for t in par["tasks"]:
                _strip_timing(t)
            par.update({"ramp-up-time-period": 2})
            if b % 3 == 2:
                # warm-up by iterations next to a ramp-up whose own rules (a warm-up period that is long enough) are met
                par["warmup-time-period"] = 2 + a % 2
                for t in par["tasks"]:
                    t["warmup-iterations"] = 1 + a % 3
            else:
                for t in par["tasks"]:
                    t["iterations"] = 1 + a % 5
        elif b % 3 == 2:
            leaf.update({"ramp-up-time-period": 2, "warmup-time-period": 2 + a % 2, "warmup-iterations": 1 + a % 3})
        else:
            leaf.update({"ramp-up-time-period": 2, "iterations": 1 + a % 5})
            if b % 2:
                leaf["warmup-iterations"] = a % 3
    elif kind == "ramp-up-on-parallel-task-only":
        p = _first_parallel(ch["schedule"])
        for k in S.TIMING_KEYS:
            p.pop(k, None)
        for t in p["tasks"]:
            _strip_timing(t)
        t = p["tasks"][b % len(p["tasks"])]
        t.update({"warmup-time-period": 4 + a % 3, "ramp-up-time-period": 1 + a % 3, "time-period": 9})
    elif kind == "ramp-up-differs-from-parallel":
        p = _first_parallel(ch["schedule"])
        for k in S.TIMING_KEYS:
            p.pop(k, None)
        for t in p["tasks"]:
            _strip_timing(t)
        p.update({"warmup-time-period": 6, "ramp-up-time-period": 3, "time-period": 9})
        p["tasks"][b % len(p["tasks"])]["ramp-up-time-period"] = 1 + a % 2
    elif kind == "unknown-completed-by":
        _first_parallel(ch["schedule"])["completed-by"] = "no-such-task"
    elif kind == "two-tasks-match-completed-by":
        p = _first_parallel(ch["schedule"])
        if len(p["tasks"]) < 2:
            p["tasks"].append(copy.deepcopy(p["tasks"][0]))
        p["tasks"][0]["name"] = p["tasks"][1]["name"] = "the-completing-task"
        p["completed-by"] = "the-completing-task"
    elif kind == "indices+data-streams":
        if "indices" not in doc:
            doc["indices"] = [{"name": "some-index"}]
        if "data-streams" not in doc:
            doc["data-streams"] = [{"name": "some-data-stream"}]
    elif kind == "unused-track-param":
        user_params[["unused_param", "number_of_shardz", "p99"][a % 3]] = [1, "x", True][b % 3]
    elif kind == "reserved-track-param":
        name = ["now", "glob", "build_flavor", "serverless_operator"][a % 4]
        user_params[name] = [1, "x", True][b % 3]
        if b % 2:
            # the track itself uses Rally's variable of that name, as tracks do
            return "{% set verif_uses_internal_variable = " + name + " %}"
    elif kind == "missing-operation":
        del leaf["operation"]
    elif kind == "missing-document-count":
        c = doc["corpora"][a % len(doc["corpora"])]
        del c["documents"][b % len(c["documents"])]["document-count"]
    elif kind == "schema/challenge-without-name":
        del doc["challenges"][a % len(doc["challenges"])]["name"]
    elif kind == "schema/challenge-without-schedule":
        del doc["challenges"][a % len(doc["challenges"])]["schedule"]
    elif kind == "schema/operation-without-type":
        del doc["operations"][a % len(doc["operations"])][["operation-type", "name"][b % 2]]
    elif kind == "schema/corpus-without-documents":
        del doc["corpora"][a % len(doc["corpora"])]["documents"]
    elif kind == "schema/document-without-source-file":
        c = doc["corpora"][a % len(doc["corpora"])]
        del c["documents"][b % len(c["documents"])]["source-file"]
    elif kind == "schema/index-without-name":
        del doc["indices"][a % len(doc["indices"])]["name"]
    elif kind == "schema/clients-string":
        leaf["clients"] = str(1 + a % 4)
    elif kind == "schema/clients-zero":
        (par if par is not None and a % 2 else leaf)["clients"] = 0
    elif kind == "schema/iterations-zero":
        _strip_timing(leaf)
        leaf["iterations"] = 0
    elif kind == "schema/clients-integral-float":
        (par if par is not None and a % 2 else leaf)["clients"] = float(1 + a % 4)
    elif kind == "schema/iterations-integral-float":
        _strip_timing(leaf)
        leaf[["iterations", "warmup-iterations", "time-period", "warmup-time-period"][a % 4]] = float(2 + b % 5)
        if a % 4 == 3:
            leaf["time-period"] = 10
    elif kind == "schema/time-period-fraction":
        _strip_timing(leaf)
        leaf["time-period"] = 1.5 + a % 3
    elif kind == "schema/empty-schedule":
        ch["schedule"] = []
    elif kind == "schema/empty-parallel-tasks":
        _first_parallel(ch["schedule"])["tasks"] = []
    elif kind == "schema/parallel-without-tasks":
        del _first_parallel(ch["schedule"])["tasks"]
    elif kind == "schema/description-not-string":
        doc["description"] = [5, True, {"text": "x"}][a % 3]
    elif kind == "schema/negative-target-throughput":
        leaf.pop("target-interval", None)
        leaf["target-throughput"] = -1 - a % 5
    elif kind == "schema/default-not-boolean":
        doc["challenges"][a % len(doc["challenges"])]["default"] = ["yes", 1, "true"][b % 3]
    else:
        raise AssertionError(kind)


# ------------------------------------------------------------------------------------------------ execution
def _load(track_file, directory, user_params, selected):
    cfg = config.Config()
    cfg.add(config.Scope.application, "node", "rally.root", os.path.dirname(os.path.abspath(esrally.__file__)))
    if user_params:
        cfg.add(config.Scope.applicationOverride, "track", "params", user_params)
    if selected:
        cfg.add(config.Scope.applicationOverride, "track", "challenge.name", selected)
    old = tempfile.tempdir
    tempfile.tempdir = directory  # TrackFileReader leaves its rendered copy behind (delete=False): keep it inside the case directory
    try:
        return loader.TrackFileReader(cfg).read("verif-track", track_file, directory)
    finally:
        tempfile.tempdir = old


def _signature_of(path):
    p = re.sub(r"\[\d+\]", "", path)
    p = p.replace("challenges.schedule{parallel}.tasks.", "task.").replace("challenges.schedule{parallel}.", "parallel.").replace("challenges.schedule.", "task.")
    return "fidelity/" + p


def run_case(case, obs):
    model = case["track"]
    v = case.get("violation")
    doc, files = T.to_doc(model)
    user_params = {}
    prologue = ""
    if v:
        prologue = apply_violation(doc, user_params, v, model) or ""
    _DIR["n"] += 1
    root = _DIR["root"] or tempfile.gettempdir()
    directory = tempfile.mkdtemp(prefix=f"case{_DIR['n']}-", dir=root)
    try:
        r = T.render(doc, files, case["layout"], case["params"], directory, prologue=prologue)
        track_file, n_params, parts = r["track_file"], r["n_params"], r["parts"]
        user_params.update(r["user_params"])
        if v:
            obs.cls("negative", f"violation:{v['kind']}")
            try:
                _load(track_file, directory, user_params, case.get("selected"))
            except REJECTIONS as e:
                obs.cls("rejected:" + type(e).__name__)
            except Exception as e:  # pylint: disable=broad-except
                obs.violation(
                    f"negative/wrong-exception/{v['kind']}/{type(e).__name__}",
                    f"violation {v} must be rejected with a track syntax / config error but raised {type(e).__name__}: {str(e)[:300]}",
                )
            else:
                obs.violation(f"negative/accepted/{v['kind']}", f"a track with violation {v} was loaded without an error")
            obs.mark_nontrivial(True)
            return

        obs.cls("positive", f"form:{model['form']}", f"store:{model['store']}")
        exp = T.expected(model, case.get("selected"))
        in_region = T.relies_on_corpus_default_without_store(model)
        if in_region:
            obs.cls("positive:corpus-default-without-indices")
        try:
            t = _load(track_file, directory, user_params, case.get("selected"))
        except REJECTIONS as e:
            msg = str(e)
            if in_region:
                obs.violation(KNOWN_CORPUS_DEFAULT, f"a valid track was rejected: {msg[:400]}")
                return
            cause = re.sub(r"[^a-z]+", "-", re.sub(r"'[^']*'|\[[^\]]*\]|\d+", "", msg.lower().split("\n")[0]))[:60].strip("-")
            obs.violation(f"positive/rejected/{type(e).__name__}/{cause}", f"a valid track was rejected: {msg[:600]}")
            return
        got = T.observe(t, exp)
        diffs = T.diff(exp, got)
        seen = set()
        for path, want, have in diffs[:20]:
            sig = _signature_of(path)
            if in_region and sig.startswith("fidelity/corpora.documents.target_"):
                sig = KNOWN_CORPUS_DEFAULT
            if sig in seen:
                continue
            seen.add(sig)
            obs.violation(sig, f"{path}: the file says {want!r}, the loaded track has {have!r}")

        # ---- classes / non-trivial
        inherits = False
        for c in model["challenges"]:
            for el in c["schedule"]:
                if S.is_parallel(el):
                    obs.cls("positive:parallel")
                    defaults = [k for k in S.TIMING_KEYS if k in el]
                    if defaults and any(any(k not in t_ for k in defaults) for t_ in el["tasks"]):
                        inherits = True
                    if "completed-by" in el:
                        obs.cls("positive:completed-by")
        if inherits:
            obs.cls("positive:inherits-default")
        if n_params >= 1:
            obs.cls("positive:params>=1")
        if r["user_params"]:
            obs.cls("positive:param-supplied")
        if parts:
            obs.cls("positive:parts")
        if r.get("helpers"):
            obs.cls("positive:exists_set_param-helper")
        if model["corpora"]:
            obs.cls("positive:corpora")
        if len(model["challenges"]) > 1:
            obs.cls("positive:several-challenges")
        if case.get("selected"):
            obs.cls("positive:challenge-selected")
        if inherits and n_params >= 1:
            obs.cls("positive:nontrivial")
        obs.mark_nontrivial(inherits and n_params >= 1)
    finally:
        shutil.rmtree(directory, ignore_errors=True)


# ------------------------------------------------------------------------------------------------ enumerated sub-domain
def _op(name, typ, style="inline", **params):
    return {"name": name, "type": typ, "params": params, "style": style}


_BULK = _op("index-append.0", "bulk", "ref", **{"bulk-size": 500})
_SEARCH = _op("match-all.0", "search", "ref", body={"query": {"match_all": {}}})
_BASE_MODELS = [
    {
        "description": "base track one",
        "meta": {"owner": "team-a"},
        "store": "indices",
        "indices": [{"name": "index-0", "types": ["type0"], "body": {"settings": {"index.number_of_shards": 5}}}, {"name": "index-1"}],
        "data-streams": [],
        "templates": [{"name": "tpl-0", "index-pattern": "my-index-*", "content": {"index_patterns": ["my-index-*"], "settings": {"number_of_shards": 2}}}],
        "composable-templates": [],
        "component-templates": [],
        "corpora": [
            {"name": "corpus-0", "target-index": "index-0", "base-url": "http://example.org/corpora/a",
             "documents": [{"source-file": "documents-0.json.bz2", "document-count": 1000, "compressed-bytes": 100, "uncompressed-bytes": 5000},
                           {"source-file": "documents-1.json", "document-count": 7, "target-index": "index-1"}]},
            {"name": "corpus-1", "documents": [{"source-file": "other.json.gz", "document-count": 5, "includes-action-and-meta-data": True}]},
        ],
        "form": "challenges",
        "challenges": [
            {
                "name": "main", "default": True, "description": "the main challenge",
                "schedule": [
                    {"name": "index", "operation": _BULK, "clients": 4, "warmup-time-period": 2, "time-period": 6, "tags": ["write"]},
                    {"warmup-iterations": 2, "iterations": 5, "completed-by": "q1",
                     "tasks": [
                         {"name": "q1", "operation": _SEARCH, "clients": 2, "target-throughput": 10},
                         {"name": "q2", "operation": _op("term.0", "search", body={"query": {"term": {"f": "v"}}}), "iterations": 3, "tags": "read-op"},
                         {"operation": _op("force-merge", "force-merge", "string")},
                     ]},
                    {"name": "pause", "operation": _op("sleepy.0", "sleep", duration=1), "meta": {"team": "a"}},
                ],
            },
            {
                "name": "other",
                "schedule": [
                    {"operation": _op("custom.1", "sim-op", **{"service-time": 0.25}), "iterations": 2, "target-interval": 0.5, "schedule": "poisson"},
                    {"clients": 2, "tasks": [{"name": "a", "operation": _op("bulk.1", "bulk"), "clients": 2}, {"name": "b", "operation": _op("bulk2.1", "bulk"), "clients": 3}]},
                ],
            },
        ],
    },
    {
        "store": "data-streams",
        "indices": [],
        "data-streams": [{"name": "logs-ds-0"}],
        "templates": [],
        "composable-templates": [{"name": "ct-0", "index-pattern": "logs-*", "delete-matching-indices": False, "content": {"index_patterns": ["logs-*"], "data_stream": {}}}],
        "component-templates": [{"name": "component-0", "content": {"template": {"mappings": {"properties": {"a": {"type": "long"}}}}}}],
        "corpora": [
            {"name": "logs", "documents": [{"source-file": "logs-1.json.zst", "document-count": 20}, {"source-file": "logs-2.json", "document-count": 30, "target-data-stream": "logs-ds-0"}]},
            {"name": "more-logs", "meta": {"k": 1}, "documents": [{"source-file": "logs-3.json", "document-count": 1}]},
        ],
        "form": "challenges",
        "challenges": [
            {"name": "c-0", "schedule": [
                {"operation": _op("bulk.0", "bulk", "ref"), "clients": 8, "warmup-time-period": 3, "ramp-up-time-period": 2, "time-period": 10},
                {"operation": _op("force-merge", "force-merge", "string"), "name": "fm-1"},
            ]},
            {"name": "c-1", "default": True, "user-info": "heads up", "schedule": [
                {"warmup-time-period": 4, "ramp-up-time-period": 2, "time-period": 8, "completed-by": "any", "clients": 6,
                 "tasks": [{"name": "x", "operation": _op("bulk.1", "bulk", "ref"), "clients": 2}, {"name": "y", "operation": _op("s.1", "search"), "warmup-time-period": 5, "clients": 2}]},
                {"name": "z", "operation": _op("s2.1", "search", "ref"), "iterations": 1},
            ]},
            {"name": "c-2", "default": False, "schedule": [{"name": "only", "operation": _op("sleep", "sleep", "string")}, {"name": "only-2", "operation": _op("sleep", "sleep", "string")}]},
        ],
    },
    # a track without corpora (search-only / fed by a custom parameter source), written with a bare schedule
    {
        "description": "queries only",
        "store": "indices",
        "indices": [{"name": "existing-index"}],
        "data-streams": [],
        "templates": [],
        "composable-templates": [],
        "component-templates": [],
        "corpora": [],
        "form": "schedule",
        "challenges": [
            {"name": "c", "schedule": [
                {"name": "warm", "operation": _op("match-all.2", "search", "ref", body={"query": {"match_all": {}}}), "clients": 2, "warmup-iterations": 1, "iterations": 2},
                {"clients": 3, "tasks": [{"name": "p1", "operation": _op("term.2", "search", body={"query": {"term": {"f": "v"}}}), "clients": 2, "warmup-time-period": 2, "time-period": 4},
                                         {"name": "p2", "operation": _op("sleep", "sleep", "string")}]},
            ]},
        ],
    },
]


def enumerate_cases(tier):
    """every violation kind x the two hand-written base tracks x a small grid of positions; plus the base tracks themselves (positive)"""
    grid = [(0, 0), (1, 1), (2, 3), (3, 2)] if tier == "quick" else [(a, b) for a in range(4) for b in range(4)]
    layouts = [
        {"order": 0, "indent": 2, "import": False, "ops_part": False, "challenge_parts": False, "nested_part": False},
        {"order": 7, "indent": None, "import": True, "ops_part": True, "challenge_parts": True, "nested_part": True},
    ]
    for mi, model in enumerate(_BASE_MODELS):
        for li, layout in enumerate(layouts):
            yield {"track": model, "params": [{"site": 3 + 11 * li, "supplied": bool(li)}, {"site": 40, "supplied": False}], "layout": layout,
                   "selected": model["challenges"][li]["name"] if li and model["form"] != "schedule" else None, "violation": None}
        for kind in KINDS:
            need = NEEDS[kind]
            if need.get("store") == "indices" and model["store"] != "indices":
                continue
            if need.get("corpora", 0) > len(model["corpora"]) or need.get("challenges", 1) > len(model["challenges"]) or need.get("form", model["form"]) != model["form"]:
                continue
            for gi, (a, b) in enumerate(grid):
                yield {"track": model, "params": [{"site": 5 * gi + mi, "supplied": bool(gi % 2)}] if gi else [], "layout": layouts[(gi + mi) % 2],
                       "selected": None, "violation": {"kind": kind, "a": a, "b": b}}


PROBES = {
    # corpus-level target-index is only honoured when the track also declares indices
    KNOWN_CORPUS_DEFAULT: {
        "track": {
            "store": "none", "indices": [], "data-streams": [], "templates": [], "composable-templates": [], "component-templates": [],
            "corpora": [{"name": "corpus-0", "target-index": "idx-c0", "documents": [{"source-file": "documents.json", "document-count": 10}]}],
            "form": "schedule",
            "challenges": [{"name": "c", "schedule": [{"operation": _op("force-merge", "force-merge", "string")}]}],
        },
        "params": [], "layout": {"order": 0, "indent": 2, "import": False, "ops_part": False, "challenge_parts": False, "nested_part": False},
        "selected": None, "violation": None,
    }
}


def evidence_extra():
    return {
        "exhaustive_subdomain": f"{len(KINDS)} violation kinds x 3 hand-written base tracks (one of them without corpora, written with a bare schedule) x 3 (thorough 16) positions x 2 layouts, plus the base tracks "
        "themselves under 2 layouts (count: exhaustive_subdomain_cases)"
    }
