"""
C05 - Iterations, time periods, warm-up, progress and pacing follow the task spec.

Engine E1 (loop only), same scenario runner as C04 (real AsyncIoAdapter.run / AsyncExecutor / schedule_for / ScheduleHandle /
TimePeriodBased / IterationBased / schedulers). Oracle: exact counts, flag boundaries, monotonicity and the pacing formula
computed by a reference model from the task spec and from the weights the scripted runner reported.
"""
from esrally import track

from gen import tasks as gen_tasks
from sim import kernel, loadgen

ID = "C05"
LEVEL = "exploration"
ENGINE = "E1 virtual-time asyncio loop + Hypothesis"
TECHNIQUE = "property-based testing on a virtual-time simulator: reference loop-control and pacing model as oracle"
RULE = (
    "Generated: one task, 1-4 clients; mode iteration-based (warm-up 0-3 / None, iterations 1-8; 1 in 5 with a runner that can report completion but does not within the iterations) | time-based (warm-up 0..4 s / None, "
    "period 1..10 s, optional ramp-up <= warm-up with global client index / total clients) | finite parameter source (equal or different length per client, then in half of the cases as the task that completes its parallel element) | runner-defined "
    "completion | nothing specified; target throughput number / '<n> unit/s' / target-interval / none; deterministic / poisson / no "
    "schedule; throughput strings written as a track author may (0.5 / .5 / 0.50 / 00.5 / tab before the unit); weights changing between requests, failing requests (weight 0), unit mismatches; service times 1/1024..12.5 s. "
    "Non-trivial = (time-based with a request straddling the warm-up or the end boundary) or (warm-up > 0 and iterations > 0 and "
    "clients >= 2) or (throttled and the reported weight changed between requests). Distinct = distinct canonical JSON."
)
ASSUMPTIONS = [
    "virtual time only advances in await asyncio.sleep; instants are dyadic rationals, sums/differences exact (1e-9 abs tolerance)",
    "pacing quotient weight*C/T compared with 1e-12 relative tolerance",
    "Poisson schedule: only strict monotonicity is claimed (no distributional claim)",
]
BUDGET = {"quick": 3000, "thorough": 20000}
REQUIRED_CLASSES = {"straddles-boundary": 100, "weight-change": 100, "ramp-up": 50, "time-based": 300, "behind-schedule": 100, "ramp-up-with-allocations-from-the-real-allocator": 30}
TOL = 1e-9


KNOWN_RUNNER_PROGRESS = "final-progress/runner-reports-own-progress"


def _runner_reports_progress(case):
    return case["mode"] == "iterations" and case.get("op_type") == "sim-op-completing" and case.get("runner_completes_after") is not None


def strategy(tier, known):
    return gen_tasks.task_spec(focus="control")


def _eq(a, b, tol=TOL):
    return abs(a - b) <= tol


def _effective(spec):
    """(weight, unit) the runner reports for a request script"""
    if spec["outcome"] == "fail-dict":
        return spec["weight"], spec["unit"]
    if spec["outcome"] != "ok":
        return 0, "ops"
    if spec["shape"] in ("tuple", "dict"):
        return spec["weight"], spec["unit"]
    return 1, "ops"


def run_case(case, obs):
    r = loadgen.run_task(case)
    err = r["error"]
    tp = gen_tasks.reference_throughput(case.get("throughput"))
    task = r["task"]
    # reference parse of the target throughput
    real_tp = task.target_throughput
    if tp is None:
        obs.check(real_tp is None, "throughput-parse", f"parsed {real_tp} from no target")
    else:
        obs.check(
            real_tp is not None and _eq(real_tp.value, tp[0], 1e-12 * max(1, tp[0])) and real_tp.unit == tp[1],
            "throughput-parse",
            f"parsed {real_tp}, reference {tp}",
        )
    mismatch_possible = tp is not None and tp[1] != "ops/s" and any(
        (_effective(q)[1] + "/s") != tp[1] and _effective(q)[0] > 0 for q in case["requests"]
    )
    if err is not None:
        if isinstance(err, (kernel.Quiescent, kernel.HorizonExceeded)):
            obs.violation("hang", f"task never finished: {type(err).__name__}")
            return
        if mismatch_possible and "is specified in" in str(err):
            obs.cls("unit-mismatch-raised")
            return
        obs.violation("unexpected-error", f"{type(err).__name__}: {err}")
        return

    c = case["clients"]
    mode = case["mode"]
    stride = case.get("stride", 7)
    reqs_by_client = {}
    for q in r["requests"]:
        reqs_by_client.setdefault(q["client"], []).append(q)
    samples_by_client = {}
    for s in r["samples"]:
        samples_by_client.setdefault(s.client_id, []).append(s)
    goff = case.get("global_offset", 0)
    total_clients = case.get("total_clients", c + goff)
    straddle = False
    weight_change = False
    behind = False
    w_it = case.get("warmup_iterations") or 0
    wtp = case.get("warmup_time_period") or 0
    for ci in range(c):
        reqs = reqs_by_client.get(ci, [])
        handed = r["handed"].get(ci, [])
        smp = samples_by_client.get(r["client_ids"][ci], [])
        start_t, start_pc = r["starts"][ci]
        tag = f"client {ci}"
        n = len(reqs)
        obs.check(len(handed) == n and len(smp) == n, "handed-executed-sampled", f"{tag}: handed {len(handed)} executed {n} samples {len(smp)}")
        if len(handed) != n or len(smp) != n:
            continue
        # ------------------------------------------------------------------ counts and flags
        if mode == "iterations":
            want = w_it + case["iterations"]
            obs.check(n == want, "iteration-count", f"{tag}: executed {n} requests, spec says {w_it}+{case['iterations']}")
            for k, h in enumerate(handed):
                flag = 0 if k < w_it else 1
                obs.check(h["sample_type"] == flag, "iteration-warmup-flag", f"{tag}: request {k} flagged {h['sample_type']}, want {flag} (warm-up {w_it})")
            if n:
                # known finding: a runner that reports its own progress (wait-for-transform, custom runners) overrides the schedule's
                # progress, so an iteration-based task with such a runner does not end at 1
                sig = KNOWN_RUNNER_PROGRESS if _runner_reports_progress(case) else "final-progress"
                obs.check(smp[-1].percent_completed == 1.0, sig, f"{tag}: final progress {smp[-1].percent_completed}")
        elif mode == "default":
            obs.check(n == 1, "default-one-iteration", f"{tag}: executed {n} requests for a task without any loop spec")
        elif mode == "finite-source":
            size = case["source_size"][ci % len(case["source_size"])] if isinstance(case["source_size"], list) else case["source_size"]
            obs.check(n == size, "finite-source-count", f"{tag}: executed {n}, source has {size}")
        elif mode == "runner-completion":
            obs.check(n == case["runner_completes_after"], "runner-completion-count", f"{tag}: executed {n}, runner completes after {case['runner_completes_after']}")
            if n:
                obs.check(smp[-1].percent_completed == 1.0, "final-progress", f"{tag}: final progress {smp[-1].percent_completed}")
        elif mode == "time":
            end = start_pc + wtp + case["time_period"]
            warm_end = start_pc + wtp
            late = 0
            for k, (h, q) in enumerate(zip(handed, reqs)):
                obs.check(h["pc"] < end, "handed-after-end", f"{tag}: request {k} handed out at +{h['pc'] - start_pc} >= {wtp}+{case['time_period']}")
                if q["pc_enter"] >= end:
                    late += 1
                if q["pc_exit"] < warm_end:
                    obs.check(h["sample_type"] == 0, "time-warmup-flag", f"{tag}: request {k} ended at +{q['pc_exit'] - start_pc} < warm-up {wtp} but flagged normal")
                elif h["pc"] >= warm_end:
                    obs.check(h["sample_type"] == 1, "time-warmup-flag", f"{tag}: request {k} handed at +{h['pc'] - start_pc} >= warm-up {wtp} but flagged warm-up")
                else:
                    straddle = True
                if h["pc"] < end <= q["pc_exit"]:
                    straddle = True
            obs.check(late <= 1, "issued-after-end", f"{tag}: {late} requests issued after warm-up + time period elapsed")
            obs.check(n >= 1, "time-based-empty", f"{tag}: no request at all")
            if n:
                obs.check(reqs[-1]["pc_exit"] >= end - TOL, "stopped-early", f"{tag}: stopped at +{reqs[-1]['pc_exit'] - start_pc} before {wtp}+{case['time_period']} elapsed")
        # ------------------------------------------------------------------ monotone flags / progress / schedule
        prev_type, prev_s, prev_pct = 0, None, None
        for k, h in enumerate(handed):
            obs.check(h["sample_type"] >= prev_type, "flag-regressed", f"{tag}: request {k} back to warm-up")
            prev_type = h["sample_type"]
            if prev_s is not None:
                obs.check(h["s"] >= prev_s, "schedule-decreased", f"{tag}: scheduled {h['s']} after {prev_s}")
            prev_s = h["s"]
            p = smp[k].percent_completed
            if p is not None:
                obs.check(0.0 <= p <= 1.0, "progress-range", f"{tag}: progress {p}")
                if prev_pct is not None:
                    obs.check(p >= prev_pct, "progress-decreased", f"{tag}: progress {prev_pct} -> {p}")
                prev_pct = p
            elif mode in ("iterations", "time"):
                obs.violation("progress-missing", f"{tag}: request {k} has no progress")
            obs.check(int(smp[k].sample_type) == h["sample_type"], "sample-flag", f"{tag}: sample {k} type {smp[k].sample_type} vs handed {h['sample_type']}")
        # ------------------------------------------------------------------ ramp-up
        ramp = case.get("ramp_up")
        if n:
            want_wait = ramp * (goff + ci) / total_clients if ramp else 0.0
            got_wait = handed[0]["t"] - start_t
            obs.check(_eq(got_wait, want_wait, 1e-9), "ramp-up", f"{tag}: first request handed out {got_wait} s after start, ramp-up says {want_wait}")
            if ramp:
                obs.cls("ramp-up")
                if case.get("via_allocator") is not None:
                    obs.cls("ramp-up-with-allocations-from-the-real-allocator")
        # ------------------------------------------------------------------ pacing
        if tp is not None and n:
            sched = case.get("schedule") or "deterministic"
            cur_w = None
            expected_s = 0.0
            obs.check(handed[0]["s"] == 0, "first-schedule", f"{tag}: first request scheduled at {handed[0]['s']}")
            for k in range(n - 1):
                spec = case["requests"][(ci * stride + reqs[k]["ordinal"]) % len(case["requests"])]
                w, unit = _effective(spec)
                if w > 0:
                    if (unit + "/s") != tp[1]:
                        w = 1  # only reachable for ops/s targets (otherwise the run raised)
                    if cur_w is not None and cur_w != w:
                        weight_change = True
                    cur_w = w
                nxt = handed[k + 1]["s"]
                if cur_w is None:
                    obs.check(nxt == 0, "pacing-before-first-weight", f"{tag}: request {k + 1} scheduled at {nxt} before any weight is known")
                    expected_s = 0.0
                elif sched == "deterministic":
                    expected_s = handed[k]["s"] + cur_w * c / tp[0]
                    obs.check(
                        _eq(nxt, expected_s, 1e-12 * max(1.0, abs(expected_s))),
                        "pacing",
                        f"{tag}: request {k + 1} scheduled at {nxt}, want {handed[k]['s']} + {cur_w}*{c}/{tp[0]} = {expected_s}",
                    )
                else:
                    obs.check(nxt > handed[k]["s"], "poisson-not-increasing", f"{tag}: request {k + 1} scheduled at {nxt} after {handed[k]['s']}")
        elif n:
            for k, h in enumerate(handed):
                obs.check(h["s"] == 0, "unthrottled-scheduled", f"{tag}: unthrottled request {k} scheduled at {h['s']}")
        # ------------------------------------------------------------------ the schedule is what is executed
        # a request is issued at its scheduled time (relative to the client's start), or at once if the client is already behind: a slow
        # response delays what follows but never displaces the schedule
        for k, (h, q) in enumerate(zip(handed, reqs)):
            due = max(h["pc"], start_pc + h["s"])
            obs.check(_eq(q["pc_enter"], due, 1e-9), "issued-off-schedule",
                      f"{tag}: request {k} scheduled at +{h['s']}, handed out at +{h['pc'] - start_pc}, issued at +{q['pc_enter'] - start_pc}")
            if h["s"] > 0 and h["pc"] > start_pc + h["s"] + TOL:
                behind = True
    obs.cls(mode if mode != "time" else "time-based")
    if mode == "iterations" and case.get("op_type") == "sim-op-completing":
        obs.cls("iterations-with-completion-capable-runner")
    if straddle:
        obs.cls("straddles-boundary")
    if weight_change:
        obs.cls("weight-change")
    if tp is not None:
        obs.cls("throttled")
    if behind:
        obs.cls("behind-schedule")
    obs.mark_nontrivial(straddle or weight_change or (mode == "iterations" and w_it > 0 and c >= 2))


PROBES = {
    # an iteration-based task (1 + 3 iterations) whose runner reports its own progress (4 of 11): the last sample says 0.36, not 1
    KNOWN_RUNNER_PROGRESS: {'clients': 1, 'stride': 1, 'seed': 0, 'perf_offset': 0.0, 'on_error': 'continue', 'mode': 'iterations', 'warmup_iterations': 1, 'iterations': 3, 'op_type': 'sim-op-completing', 'runner_completes_after': 11, 'schedule': None, 'requests': [{'pre': 0, 'wire': [[0, 0.125]], 'post': 0, 'outcome': 'ok', 'shape': 'dict', 'weight': 1, 'unit': 'ops'}]},
}
