"""
C03 - Bulk indexing ingests every corpus document exactly once across clients.

Real code: esrally.track.params (BulkIndexParamSource / PartitionBulkIndexParamSource, bounds, number_of_bulks, create_readers,
chain, Slice, the three IndexDataReaders, GenerateActionMetaData) and esrally.utils.io (MmapSource, prepare_file_offset_table,
skip_lines, FileOffsetTable), driven the way driver.AsyncIoAdapter.run / schedule_for drive them: per worker ONE parameter source per
task (track.operation_parameters), `partition(client_index_in_task, task.clients)` once per co-located client in ascending client
order, then `params()` on the returned objects until every client has seen StopIteration.

Three kinds of cases
  files       real document files in a temp dir (offset tables by the real prepare_file_offset_table), a contiguous split of the N
              clients into worker groups, bulk/batch size, ingest percentage, conflict settings, two call orders
  arith       no files: bounds()/number_of_bulks() for up to 10^12 documents and 1024 clients under a drawn contiguous split
  arith-grid  enumerated: every contiguous split of N <= 9 clients for every document count 0..60

Oracle (never the implementation): the file's own lines read back in binary; see RULE / the clause list in run_case.
"""
import hashlib
import json
import math
import os
import random
import re
import shutil
import tempfile
from fractions import Fraction

from hypothesis import strategies as st

from esrally import exceptions
from esrally.track import loader, params, track
from esrally.utils import console
from esrally.utils import io as rio
from gen import corpora as gc

ID = "C03"
LEVEL = "exploration"
TECHNIQUE = (
    "property-based testing (Hypothesis): exact-cover / order / pairing / prefix / metamorphic oracles against the document files' "
    "own bytes, plus an arithmetic tiling oracle on bounds/number_of_bulks (partly enumerated)"
)
RULE = (
    "files cases: 1-3 corpora x 1-3 document files written to a temp dir (0-400 documents; a separate class with one file of "
    "50 001-120 000 lines so that .offset entries are used), lines are JSON objects built from a drawn pool of ASCII and 2/3/4-byte "
    "UTF-8 fragments, LF or CRLF, with/without final newline, with/without action-and-meta-data lines, index or data-stream targets, "
    "optional 'corpora'/'indices' selection; N = 1-17 clients cut into contiguous worker groups; bulk size 1-5000, batch = k x bulk; "
    "ingest percentage 100 or (0,100] (table values, integers, floats; template: an integer percentage of 25-300 bulks that is a whole number of bulks); conflicts none/sequential/random x probability x on-conflict x recency with Rally's RNG seeded "
    "from the case; two drawn orders in which co-located clients call params(). Per group one real BulkIndexParamSource is partitioned "
    "for its clients and drained at 100 % under order A, again at 100 % under order B (same multiset of bulks), and with the drawn "
    "ingest percentage under order A (prefix of the documented length); what a client was handed must not change while it holds it; a sample of the "
    "cases is run end to end through the real AsyncIoAdapter + bulk runner, unthrottled or throttled, in half of these runs next to a second task that refers to the same operation. "
    "arith cases: 1-3 files with up to 10^12 documents, up to 1024 clients, drawn contiguous split, bulk size up to 10^6. "
    "arith-grid (enumerated): all contiguous splits of N <= 9 clients x 0..60 documents x with/without meta-data. "
    "Non-trivial (files) = (>= 2 groups and >= 2 targeted files) or a group starts at or beyond line 50 000 of a file (offset entry used) or "
    "multi-byte content or ingest % < 100 or conflicts on; (arith) = >= 2 groups and at least one file with >= 10^6 documents or more "
    "than 17 clients. Distinct = distinct canonical JSON."
)
ASSUMPTIONS = [
    "co-located clients of one task share one parameter source that is partitioned in ascending client order before the first params() "
    "call (AsyncIoAdapter.run/schedule_for; the end-to-end sample through the real AsyncIoAdapter is added separately)",
    "the clients of one task that run on one worker in one allocation column form a contiguous range of client indices "
    "(Allocator + calculate_worker_assignments hand out contiguous blocks; over-commit wraps into a new column with its own source)",
    "the declared document count of a file equals its real line count (C14 checks that) and no line contains a lone CR",
    "ingest percentage: ceil(p% x total bulks) is accepted both in exact arithmetic and as evaluated in double precision "
    "(they differ only when the product is within 1e-9 of an integer, e.g. 100 bulks at 7 %)",
    "ids generated for conflicts are compared per document file; two files that target the same index reuse ids by design of the code",
    "10^12-document corpora are covered by arithmetic on bounds/number_of_bulks only",
]
BUDGET = {"quick": 1500, "thorough": 12000}
WALL_BUDGET_S = {"quick": 85, "thorough": 1300}
REQUIRED_CLASSES = {
    "files": 300,
    "multi-group-multi-file": 75,
    "multibyte": 75,
    "ingest<100": 75,
    "conflicts": 75,
    "on-conflict-update": 30,
    "meta-included": 75,
    "large-file": 2,
    "offset-entry-used": 2,
    "arith": 75,
    "arith-huge": 30,
}

MARKER = re.compile(rb'"k":"(c\d+f\d+)"')
PERCENTS = [0.001, 1, 5, 7, 10, 12.5, 20, 25, 30, 33.3, 50, 60, 66.6, 75, 90, 99, 99.9]


def setup():
    console.init(quiet=True)


# ------------------------------------------------------------------------------------------------ generator
def _group_sizes(draw, n, max_cuts=None):
    """a contiguous split of range(n): list of group sizes"""
    if n == 1:
        return [1]
    style = draw(st.sampled_from(["one", "each", "cuts", "cuts", "cuts"]))
    if style == "one":
        return [n]
    if style == "each" and n <= 32:
        return [1] * n
    cuts = sorted(draw(st.sets(st.integers(1, n - 1), min_size=1, max_size=min(n - 1, max_cuts or 6))))
    sizes, prev = [], 0
    for c in cuts + [n]:
        sizes.append(c - prev)
        prev = c
    return sizes


def _ingest(kind):
    if kind == "full":
        return st.sampled_from([100, 100, 100.0])
    if kind == "table":
        return st.sampled_from(PERCENTS)
    if kind == "integer":
        return st.integers(1, 99)
    return st.floats(0.01, 100.0, allow_nan=False, allow_infinity=False)


BULK_SIZES = st.one_of(st.integers(1, 12), st.sampled_from([1, 2, 3, 5, 10, 16, 50, 100, 128, 1000, 5000]), st.integers(1, 5000))


@st.composite
def _files_case(draw, large):
    conflicts = draw(st.sampled_from([None, None, None, "sequential", "random", "random"]))
    if large:
        corp = draw(gc.large_corpora(plain_only=conflicts is not None))
        pool = draw(gc.pools(max_len=4))
        clients = draw(st.sampled_from([1, 2, 2, 3, 4, 5, 6, 7, 8]))
        bulk = draw(st.sampled_from([500, 977, 1000, 2500, 3333, 5000]))
        batch_k = draw(st.sampled_from([1, 1, 2, 5]))
    else:
        corp = draw(gc.small_corpora(plain_only=conflicts is not None))
        pool = draw(gc.pools())
        clients = draw(st.integers(1, 17))
        bulk = draw(BULK_SIZES)
        batch_k = draw(st.sampled_from([1, 1, 1, 2, 3, 10]))
    if large and clients >= 2:
        # always a group that starts in the second half of the clients, i.e. (for files > 100 000 lines) behind an offset-table entry
        cuts = draw(st.sets(st.integers(1, clients - 1), max_size=3)) | {draw(st.integers((clients + 1) // 2, clients - 1))}
        groups = [b - a for a, b in zip([0] + sorted(cuts), sorted(cuts) + [clients])]
    else:
        groups = _group_sizes(draw, clients)
    case = {
        "kind": "files",
        "seed": draw(st.integers(0, 2**16)),
        "pool": pool,
        "corpora": corp,
        "clients": clients,
        "groups": groups,
        "bulk": bulk,
        "batch_k": batch_k,
        "ingest": draw(st.sampled_from(["full", "full", "full", "table", "table", "float", "integer"]).flatmap(_ingest)),
        "conflicts": conflicts,
        "order_a": draw(st.lists(st.integers(0, 16), max_size=12)),
        "order_b": draw(st.lists(st.integers(0, 16), max_size=12)),
        "select": {"corpora": None, "indices": None},
        # the bulk task is listed after sub-tasks with this many clients in a parallel element (its clients' partition indexes come
        # out of the real Allocator)
        "preceding_clients": draw(st.sampled_from([0, 0, 1, 2, 3, 5])),
    }
    if not large and draw(st.integers(0, 7)) == 0:
        # template: p % of the group's bulks is a whole number (25 / 50 / 100 / 200 bulks, integer percentage): one single group reads one file
        n_bulks = draw(st.sampled_from([25, 50, 100, 100, 200, 300]))
        step = 100 // math.gcd(100, n_bulks)
        case["ingest"] = step * draw(st.integers(1, max(1, 99 // step)))
        case["bulk"] = draw(st.sampled_from([1, 1, 2, 3]))
        f0 = dict(case["corpora"][0]["files"][0], docs=n_bulks * case["bulk"])
        case["corpora"] = [{"name": case["corpora"][0]["name"], "files": [f0]}]
        if draw(st.booleans()):
            case["clients"] = 1
        case["groups"] = [case["clients"]]
        case["conflicts"] = None
        case["batch_k"] = 1
        case["select"] = {"corpora": None, "indices": None}
        case["template"] = "whole-percentage-of-bulks"
        return case
    if conflicts is not None:
        case["probability"] = draw(st.sampled_from([0, 10, 25, 50, 75, 100]) | st.floats(0, 100, allow_nan=False))
        case["on_conflict"] = draw(st.sampled_from(["index", "update", "update", None]))
        case["recency"] = draw(st.sampled_from([None, 0, 0, 0.3, 1]) | st.floats(0, 1, allow_nan=False))
    # selection of corpora / indices: the first corpus and the target of its first file always stay selected
    if len(corp) > 1 and draw(st.booleans()):
        chosen = [corp[0]["name"]] + [c["name"] for c in corp[1:] if draw(st.booleans())]
        case["select"]["corpora"] = chosen[0] if (len(chosen) == 1 and draw(st.booleans())) else chosen
    first = corp[0]["files"][0] if not large else max((f for c in corp for f in c["files"]), key=lambda f: f["docs"])
    if not first["ds"] and draw(st.sampled_from([False, False, False, True])):
        names = sorted({f["target"] for c in corp for f in c["files"] if not f["ds"]})
        case["select"]["indices"] = [n for n in names if n == first["target"] or draw(st.booleans())]
    return case


HUGE_DOCS = st.one_of(
    st.integers(0, 2000),
    st.integers(0, 10**12),
    st.builds(lambda e, d: max(0, 10**e + d), st.integers(3, 12), st.integers(-3, 3)),
    st.builds(lambda e, d: max(0, 2**e + d), st.integers(10, 39), st.integers(-3, 3)),
)


@st.composite
def _arith_case(draw):
    clients = draw(st.one_of(st.integers(1, 17), st.integers(1, 1024), st.sampled_from([1, 2, 3, 7, 8, 16, 64, 100, 1000, 1023, 1024])))
    n_files = draw(st.sampled_from([1, 1, 2, 3]))
    files = []
    for _ in range(n_files):
        d = draw(st.one_of(HUGE_DOCS, st.builds(lambda k, e: max(0, k * clients + e), st.integers(0, 10**9), st.integers(-2, 2))))
        files.append({"docs": min(d, 10**12), "meta": draw(st.sampled_from([False, False, True]))})
    return {
        "kind": "arith",
        "files": files,
        "clients": clients,
        "groups": _group_sizes(draw, clients, max_cuts=8),
        "bulk": draw(st.one_of(st.integers(1, 12), st.sampled_from([100, 500, 1000, 5000, 10000, 10**6]), st.integers(1, 5000))),
    }


def _kind_of(ticket, tier):
    # the kind of a case is a hash of a drawn integer, so that the share of the (expensive) large-file cases does not depend on how
    # Hypothesis happens to weight the branches of a one_of/sampled_from under a given seed
    h = int.from_bytes(hashlib.sha1(b"c03-%d" % ticket).digest()[:4], "big") % 1000
    large = 20 if tier == "quick" else 25  # per mille; a large-file case costs 0.3-2 s
    if h < large:
        return "large"
    return "arith" if h < large + 200 else "small"


def strategy(tier, known):
    return st.integers(0, 2**40).flatmap(
        lambda ticket: _arith_case() if _kind_of(ticket, tier) == "arith" else _files_case(large=(_kind_of(ticket, tier) == "large"))
    )


def _compositions(n):
    for mask in range(1 << (n - 1)):
        sizes, cur = [], 1
        for bit in range(n - 1):
            if mask >> bit & 1:
                sizes.append(cur)
                cur = 1
            else:
                cur += 1
        sizes.append(cur)
        yield sizes


def enumerate_cases(tier):
    for n in range(1, 10):
        for meta in (False, True):
            yield {"kind": "arith-grid", "clients": n, "meta": meta, "max_docs": 60, "bulks": [1, 3, 7]}


# ------------------------------------------------------------------------------------------------ arithmetic oracle
def _ranges(sizes):
    out, start = [], 0
    for s in sizes:
        out.append((start, start + s - 1))
        start += s
    return out


def _fake_corpora(files):
    docs = [
        track.Documents(
            source_format=track.Documents.SOURCE_FORMAT_BULK,
            number_of_documents=f["docs"],
            includes_action_and_meta_data=f["meta"],
            target_index="idx",
        )
        for f in files
    ]
    return [track.DocumentCorpus("c0", docs)]


def _check_tiling(obs, total, meta, clients, ranges, where):
    """the shares handed to the groups tile [0,total) in client order; returns the list of document counts per group (or None)"""
    per_doc = 2 if meta else 1
    pos = 0
    shares = []
    for s, e in ranges:
        off, docs, lines = params.bounds(total, s, e, clients, meta)
        ok = obs.check(
            isinstance(off, int) and isinstance(docs, int) and isinstance(lines, int) and docs >= 0,
            "arith/not-a-count",
            lambda: f"{where}: bounds({total},{s},{e},{clients},{meta}) = {(off, docs, lines)!r}",
        )
        if not ok:
            return None
        ok = obs.check(
            off == pos * per_doc and lines == docs * per_doc,
            "arith/tiling",
            lambda: f"{where}: bounds({total},{s},{e},{clients},{meta}) = {(off, docs, lines)}: previous groups end at document {pos} "
            f"(line {pos * per_doc}), lines per document {per_doc}",
        )
        if not ok:
            return None
        pos += docs
        shares.append(docs)
    if not obs.check(pos == total, "arith/tiling", lambda: f"{where}: clients {ranges} of {clients} receive {pos} of {total} documents"):
        return None
    return shares


def _run_arith(case, obs):
    clients = case["clients"]
    ranges = _ranges(case["groups"])
    corp = _fake_corpora(case["files"])
    per_group = [[] for _ in ranges]
    for fi, f in enumerate(case["files"]):
        shares = _check_tiling(obs, f["docs"], f["meta"], clients, ranges, f"file {fi} groups")
        singles = _check_tiling(obs, f["docs"], f["meta"], clients, [(i, i) for i in range(clients)], f"file {fi} single clients")
        if shares is None or singles is None:
            return
        for gi, (s, e) in enumerate(ranges):
            # a worker that hosts clients s..e reads what these clients would read on their own: any split gives the same cover
            obs.check(
                shares[gi] == sum(singles[s : e + 1]),
                "arith/split-dependent",
                lambda: f"file {fi}: group {s}..{e} of {clients} gets {shares[gi]} documents, its clients alone {sum(singles[s:e + 1])}",
            )
            per_group[gi].append(shares[gi])
    bulk = case["bulk"]
    for gi, (s, e) in enumerate(ranges):
        want = sum(-(-d // bulk) for d in per_group[gi])
        got = params.number_of_bulks(corp, s, e, clients, bulk)
        obs.check(
            got == want,
            "arith/number-of-bulks",
            lambda: f"number_of_bulks(clients {s}..{e} of {clients}, bulk {bulk}) = {got}, shares {per_group[gi]} need {want} bulks",
        )
    huge = any(f["docs"] >= 10**6 for f in case["files"]) or clients > 17
    obs.cls("arith")
    if huge:
        obs.cls("arith-huge")
    if len(ranges) >= 2:
        obs.cls("arith-multi-group")
    if any(f["docs"] < clients for f in case["files"]):
        obs.cls("arith-fewer-docs-than-clients")
    obs.mark_nontrivial(huge and len(ranges) >= 2)


def _run_arith_grid(case, obs):
    n, meta = case["clients"], case["meta"]
    obs.cls("arith-grid")
    for total in range(case["max_docs"] + 1):
        singles = _check_tiling(obs, total, meta, n, [(i, i) for i in range(n)], f"grid single clients docs={total}")
        if singles is None:
            return
        corp = _fake_corpora([{"docs": total, "meta": meta}])
        for sizes in _compositions(n):
            ranges = _ranges(sizes)
            shares = _check_tiling(obs, total, meta, n, ranges, f"grid split {sizes} docs={total}")
            if shares is None:
                return
            for gi, (s, e) in enumerate(ranges):
                if not obs.check(
                    shares[gi] == sum(singles[s : e + 1]),
                    "arith/split-dependent",
                    lambda: f"docs={total} split {sizes}: group {s}..{e} gets {shares[gi]}, its clients alone {sum(singles[s:e + 1])}",
                ):
                    return
        for s in range(n):
            for e in range(s, n):
                for bulk in case["bulks"]:
                    want = -(-sum(singles[s : e + 1]) // bulk)
                    got = params.number_of_bulks(corp, s, e, n, bulk)
                    if not obs.check(
                        got == want, "arith/number-of-bulks", lambda: f"docs={total} clients {s}..{e} of {n} bulk {bulk}: {got} != {want}"
                    ):
                        return
    obs.mark_nontrivial(n >= 2)


# ------------------------------------------------------------------------------------------------ files: execution
class _Bulk:
    __slots__ = ("body", "size", "index", "client")

    def __init__(self, p, client):
        self.body = p.get("body")
        self.size = p.get("bulk-size")
        self.index = p.get("index")
        self.client = client

    def key(self):
        return (self.body, self.size, self.index)


def _op_params(case, ingest):
    p = {"bulk-size": case["bulk"]}
    if case["batch_k"] != 1:
        p["batch-size"] = case["bulk"] * case["batch_k"]
    if ingest != 100 or isinstance(ingest, float):
        p["ingest-percentage"] = ingest
    if case["conflicts"]:
        p["conflicts"] = case["conflicts"]
        p["conflict-probability"] = case["probability"]
        if case["on_conflict"] is not None:
            p["on-conflict"] = case["on_conflict"]
        if case["recency"] is not None:
            p["recency"] = case["recency"]
    sel = case["select"]
    if sel["corpora"] is not None:
        p["corpora"] = sel["corpora"]
    if sel["indices"] is not None:
        p["indices"] = list(sel["indices"])
    return p


def _indexes_from_allocator(task, preceding):
    """
    the index each client of the bulk task passes to partition(): what the real Allocator writes into TaskAllocation.client_index_in_task
    when the task is listed after sub-tasks with `preceding` clients in a parallel element (0: the task stands alone)
    """
    from esrally.driver import driver  # pylint: disable=import-outside-toplevel

    if not preceding:
        element = task
    else:
        element = track.Parallel([track.Task("query-task", track.Operation("query", "search"), clients=preceding), task])
    found = {}
    for row in driver.Allocator([element]).allocations:
        for entry in row:
            for ta in entry if isinstance(entry, list) else [entry]:
                if getattr(ta, "task", None) is task:
                    found[ta.global_client_index - preceding] = ta.client_index_in_task
    if sorted(found) != list(range(task.clients)):
        raise core.HarnessError(f"allocator did not allocate the bulk task's clients as expected: {found}")
    return found


def _drain_group(t, case, ingest, group, order, seed, limit):
    """what AsyncIoAdapter.run + schedule_for do with the parameter source for the clients of one task on one worker"""
    op = track.Operation("bulk-op", track.OperationType.Bulk.to_hyphenated_string(), params=_op_params(case, ingest))
    task = track.Task("bulk-task", op, clients=case["clients"])
    random.seed(seed)
    source = loader.operation_parameters(t, task)
    index_in_task = _indexes_from_allocator(task, case.get("preceding_clients", 0))
    handles = [source.partition(index_in_task[c], task.clients) for c in group]  # ascending client order, as the allocations are
    active = list(range(len(handles)))
    bulks = []
    step = 0
    runaway = False
    held, mutated = {}, []
    try:
        while active:
            k = (order[step % len(order)] % len(active)) if order else 0
            step += 1
            h = active[k]
            try:
                p = handles[h].params()
            except StopIteration:
                active.pop(k)
                continue
            bulks.append(_Bulk(p, group[h]))
            # AsyncExecutor holds the dict it was given across awaits (throttle sleep, the request itself) while the other clients of
            # the worker ask for their bulks: what a client was handed must not change before the same client asks again
            held[h] = (p, bulks[-1])
            for oh, (op_, ob) in held.items():
                if oh != h and (op_.get("body") is not ob.body or op_.get("bulk-size") != ob.size):
                    mutated.append((group[oh], group[h]))
            if len(bulks) > limit:
                runaway = True
                break
    finally:
        for h in handles:  # harness hygiene only: close the suspended generator so that the mmap is released now
            gen = getattr(h, "internal_params", None)
            if gen is not None and hasattr(gen, "close"):
                try:
                    gen.close()
                except Exception:  # pylint: disable=broad-except
                    pass
    return source, bulks, runaway, mutated


def _body_bytes(body):
    return body.encode("utf-8") if isinstance(body, str) else bytes(body)


class _BulkEs:
    """simulated endpoint for the real bulk runner: records every body it is sent"""

    def __init__(self, sink):
        from esrally.client.context import RequestContextHolder

        self._holder = RequestContextHolder()
        self.sink = sink

    def new_request_context(self):
        return self._holder.new_request_context()

    def return_raw_response(self):
        self._holder.return_raw_response()

    async def bulk(self, body=None, params=None, **kw):
        import asyncio
        import io as pyio

        self._holder.on_request_start()
        self.sink.append(_body_bytes(body))
        await asyncio.sleep(1 / 64)
        self._holder.on_request_end()
        return pyio.BytesIO(b'{"took":1,"errors":false,"items":[]}')

    async def close(self):
        pass


def _run_through_adapter(t, case, group, seed, target=None, sibling=False):
    """the clients of one worker run the bulk task through the real AsyncIoAdapter / AsyncExecutor / schedule_for / bulk runner;
    sibling: a second task that refers to the same operation (as two differently named tasks of a parallel element may) runs next to it
    on the same worker, with as many clients - every task ingests the corpora on its own"""
    import threading

    from esrally.driver import driver
    from esrally.driver import runner as rally_runner

    from sim import kernel, loadgen

    sink = []

    class Factory:
        def __init__(self, *a, **kw):
            pass

        def create_async(self, api_key=None, client_id=None):
            return _BulkEs(sink)

    op = track.Operation("bulk-op", track.OperationType.Bulk.to_hyphenated_string(), params=_op_params(case, 100))
    task = track.Task("bulk-task", op, clients=case["clients"], params={} if target is None else {"target-throughput": target})
    random.seed(seed)
    clock = kernel.VirtualClock(horizon=1e9)
    cfg = loadgen.base_config("abort")
    rally_runner.register_runner(track.OperationType.Bulk, rally_runner.BulkIndex(), async_runner=True)
    allocs, contexts = [], {}
    for c in group:
        allocs.append(driver.ClientAllocation(c, driver.TaskAllocation(task, c, c, case["clients"])))
        contexts[c] = driver.ClientContext(client_id=c, parent_worker_id=0)
    if sibling:
        n = case["clients"]
        task2 = track.Task("bulk-task-again", op, clients=n, params=dict(task.params))
        for c in group:
            allocs.append(driver.ClientAllocation(n + c, driver.TaskAllocation(task2, c, n + c, 2 * n)))
            contexts[n + c] = driver.ClientContext(client_id=n + c, parent_worker_id=0)
    with kernel.patched(*(kernel.time_patches(clock) + [(driver.client, "EsClientFactory", Factory)])):
        sampler = driver.Sampler(start_timestamp=clock.perf_counter())
        adapter = driver.AsyncIoAdapter(cfg, t, allocs, sampler, threading.Event(), threading.Event(), "abort", contexts, 0)
        kernel.run_virtual(clock, adapter.run())
    return sink


def _body_lines(body):
    if isinstance(body, str):
        body = body.encode("utf-8")
    return gc.split_lines(body)


_ACTION_CACHE = {}
# fast path for the common shape of an action line; anything else goes through json.loads (same result for this shape)
_ACTION_FAST = re.compile(
    rb'^\{"(index|create|update)": ?\{"_index": ?"([^"\\]*)"(?:, ?"_type": ?"([^"\\]*)")?(?:, ?"_id": ?"([^"\\]*)")?\}\}\n$'
)


def _parse_action(line):
    """(action, meta dict) of a bulk action line or None"""
    m = _ACTION_FAST.match(line)
    if m:
        try:
            action, index, type_, doc_id = (g.decode("utf-8") if g is not None else None for g in m.groups())
        except UnicodeDecodeError:
            return None
        meta = {"_index": index}
        if type_ is not None:
            meta["_type"] = type_
        if doc_id is not None:
            meta["_id"] = doc_id
        return action, meta
    try:
        return _ACTION_CACHE[line]
    except KeyError:
        pass
    parsed = None
    if line.endswith(b"\n"):
        try:
            obj = json.loads(line)
            if isinstance(obj, dict) and len(obj) == 1:
                ((action, meta),) = obj.items()
                if action in ("index", "create", "update") and isinstance(meta, dict):
                    parsed = (action, meta)
        except ValueError:
            parsed = None
    if len(_ACTION_CACHE) > 50_000:
        _ACTION_CACHE.clear()
    _ACTION_CACHE[line] = parsed
    return parsed


def _matches(entry, ref_doc):
    kind, payload = entry
    if kind == "upd":
        return payload == ref_doc.rstrip(b"\r\n")
    return payload == ref_doc


def _tiles(ref, seqs):
    """is there an order of the (non-empty) sequences whose concatenation is ref? None = gave up"""
    seqs = [s for s in seqs if s]
    if sum(len(s) for s in seqs) != len(ref):
        return False
    budget = [5000]
    dead = set()

    def rec(pos, remaining):
        if not remaining:
            return pos == len(ref)
        key = (pos, remaining)
        if key in dead:
            return False
        for i in remaining:
            s = seqs[i]
            budget[0] -= 1
            if budget[0] < 0:
                return None
            if all(_matches(en, ref[pos + j]) for j, en in enumerate(s)):
                r = rec(pos + len(s), remaining - {i})
                if r or r is None:
                    return r
        dead.add(key)
        return False

    return rec(0, frozenset(range(len(seqs))))


def _targeted(case, files):
    sel = case["select"]
    names = sel["corpora"]
    if isinstance(names, str):
        names = [names]
    out = []
    for corpus_files in files:
        for f in corpus_files:
            if names is not None and f.corpus not in names:
                continue
            if sel["indices"] is not None and (f.spec["ds"] or f.spec["target"] not in sel["indices"]):
                continue
            out.append(f)
    return out


def _build_track(files):
    corp = []
    for corpus_files in files:
        docs = []
        for f in corpus_files:
            docs.append(
                track.Documents(
                    source_format=track.Documents.SOURCE_FORMAT_BULK,
                    document_file=f.path,
                    number_of_documents=len(f.docs),
                    includes_action_and_meta_data=f.spec["meta"],
                    target_index=None if f.spec["ds"] else f.target,
                    target_data_stream=f.target if f.spec["ds"] else None,
                    target_type="_doc" if f.spec["type"] else None,
                )
            )
        corp.append(track.DocumentCorpus(corpus_files[0].corpus, docs))
    return track.Track(name="c03", corpora=corp)


def _analyse_group(obs, case, by_tag, gi, bulks, fresh_ids, tag):
    """per-bulk clauses; returns {file tag: [entries in delivery order]} for this group"""
    entries = {}
    seen_ids = {}
    conflicts_on = case["conflicts"] is not None
    for bi, b in enumerate(bulks):
        where = f"{tag} group {gi} bulk {bi}"
        if not obs.check(isinstance(b.body, (bytes, str)), "pairing/body-type", f"{where}: body is {type(b.body).__name__}"):
            continue
        lines = _body_lines(b.body)
        if not obs.check(len(lines) % 2 == 0, "pairing/odd-line-count", f"{where}: body has {len(lines)} lines"):
            continue
        n_docs = len(lines) // 2
        obs.check(b.size == n_docs, "bulk-size/param-mismatch", f"{where}: bulk-size={b.size!r} but the body holds {n_docs} documents")
        obs.check(n_docs <= case["bulk"], "bulk-size/exceeds", f"{where}: {n_docs} documents in one bulk, configured bulk size {case['bulk']}")
        for j in range(n_docs):
            a, d = lines[2 * j], lines[2 * j + 1]
            m = MARKER.search(d)
            f = by_tag.get(m.group(1).decode()) if m else None
            if f is None or MARKER.search(a):
                obs.violation("pairing/misaligned", f"{where}: pair {j} is not (action line, document): {a[:80]!r} / {d[:80]!r}")
                break
            if f.spec["meta"]:
                # the file's own action line must come with its document, untouched
                entries.setdefault(f.tag, []).append(("pair", a + d))
                continue
            act = _parse_action(a)
            if act is None:
                obs.violation("pairing/action-line", f"{where}: pair {j} does not start with an action line: {a[:120]!r}")
                break
            action, meta = act
            obs.check(
                meta.get("_index") == f.target,
                "pairing/action-targets-other-index",
                lambda: f"{where}: document of {f.tag} (target {f.target}) is sent with action {a!r}",
            )
            if action == "update":
                if d.startswith(b'{"doc":') and d.endswith(b"}\n"):
                    entries.setdefault(f.tag, []).append(("upd", d[len(b'{"doc":') : -2]))
                else:
                    obs.violation("pairing/update-without-doc-wrapper", f"{where}: update action followed by {d[:120]!r}")
                    break
            else:
                entries.setdefault(f.tag, []).append(("raw", d))
            if conflicts_on:
                doc_id = meta.get("_id")
                if not obs.check(doc_id is not None, "conflict-id/missing", f"{where}: conflicts are on but {a!r} carries no _id"):
                    continue
                mine = seen_ids.setdefault(f.tag, set())
                if action == "update":
                    obs.check(
                        doc_id in mine,
                        "conflict-id/not-emitted-before",
                        lambda: f"{where}: update of id {doc_id} which this group has not emitted before for {f.tag} "
                        f"({len(mine)} ids emitted so far)",
                    )
                elif doc_id not in mine:
                    others = fresh_ids.setdefault(f.tag, {})
                    owner = others.get(doc_id)
                    obs.check(
                        owner is None or owner == gi,
                        "conflict-id/foreign-id",
                        lambda: f"{where}: id {doc_id} was never emitted by this group but by group {owner} for the same file {f.tag}",
                    )
                    others.setdefault(doc_id, gi)
                    mine.add(doc_id)
    return entries


def _accepted_counts(pct, total):
    """
    ceil(p% x total) for p as written in the track. Where p is a binary fraction (every integer percentage, 2.5, 12.5, ...) the product
    total x p is exact in double precision and the division by 100 is correctly rounded, so a whole result stays whole: exactly one count
    is right (28 % of 25 bulks are 7 bulks, not 8). For other percentages (33.3, 0.001) the track's decimal and the double the code receives
    differ: the count for either of the two exact values is accepted, and - only if the decimal product is within 1e-9 of an integer -
    what the documented formula (total x p) / 100 gives when evaluated in doubles.
    """
    exact = Fraction(str(pct)) * total / 100
    accepted = {math.ceil(exact)}
    binary = Fraction(float(pct))
    if binary != Fraction(str(pct)) or (total * binary).denominator != 1 and total * binary >= 2**53:
        accepted.add(math.ceil(binary * total / 100))
        fx = (total * float(pct)) / 100
        if abs(Fraction(fx) - exact) <= Fraction(1, 10**9) * max(1, exact):
            accepted.add(math.ceil(fx))
    return accepted


def _run_files(case, obs):
    tmp = tempfile.mkdtemp(prefix="verif-c03-")
    rnd_state = random.getstate()
    try:
        files = gc.materialise(case["corpora"], case["pool"], tmp)
        for corpus_files in files:
            for f in corpus_files:
                n = rio.prepare_file_offset_table(f.path)
                if n != len(f.lines):
                    obs.inconclusive = "line count of the offset-table builder differs from LF count"
                    return
        by_tag = {f.tag: f for cf in files for f in cf}
        targeted = _targeted(case, files)
        targeted_tags = {f.tag for f in targeted}
        t = _build_track(files)
        ranges = _ranges(case["groups"])
        total_docs = sum(len(f.docs) for f in targeted)
        limit = total_docs + 5
        ingest = case["ingest"]
        partial = float(ingest) < 100.0
        whole_share = False

        per_group_entries = []
        fresh_ids = {}
        for gi, (s, e) in enumerate(ranges):
            group = list(range(s, e + 1))
            seed = case["seed"] * 64 + gi
            # ---- run A: everything, call order A -------------------------------------------------------------------
            try:
                source, bulks_a, runaway, mutated = _drain_group(t, case, 100, group, case["order_a"], seed, limit)
            except exceptions.RallyAssertionError as ex:
                if not targeted or total_docs == 0:
                    obs.inconclusive = f"nothing targeted: {ex}"
                    return
                raise
            if not obs.check(not runaway, "cover/runaway", f"group {gi} issued more than {limit} bulks for {total_docs} documents"):
                return
            entries = _analyse_group(obs, case, by_tag, gi, bulks_a, fresh_ids, "run A")
            per_group_entries.append(entries)
            stray = sorted(set(entries) - targeted_tags)
            obs.check(not stray, "cover/untargeted-file", f"group {gi} sent documents of files {stray} that the operation does not target")
            # the number of bulks Rally announces for this group is the number it produces
            announced = params.number_of_bulks(source.corpora, s, e, case["clients"], case["bulk"])
            obs.check(
                announced == len(bulks_a),
                "number-of-bulks/mismatch",
                f"group {gi} (clients {s}..{e} of {case['clients']}): number_of_bulks = {announced}, produced at 100 %: {len(bulks_a)}",
            )
            # ---- run B: everything again under call order B: the same bulks (as a multiset; the statement fixes no issue order) ----
            if len(group) >= 2:
                _, bulks_b, runaway, mutated_b = _drain_group(t, case, 100, group, case["order_b"], seed, limit)
                mutated = mutated + mutated_b
                if not obs.check(not runaway, "cover/runaway", f"group {gi} (run B) issued more than {limit} bulks"):
                    return
                obs.check(
                    sorted(x.key() for x in bulks_b) == sorted(x.key() for x in bulks_a),
                    "call-order/differs",
                    f"group {gi}: call order {case['order_b']} gives {len(bulks_b)} bulks, order {case['order_a']} gives {len(bulks_a)}"
                    + ("" if len(bulks_a) != len(bulks_b) else " with different contents"),
                )
            obs.check(
                not mutated,
                "held-params-overwritten",
                lambda: f"group {gi}: the bulk handed to client {mutated[0][0]} was overwritten in place when client {mutated[0][1]} asked for its "
                f"next bulk ({len(mutated)} times): a client that waits for its scheduled time would send the other client's documents",
            )
            # ---- run C: drawn ingest percentage under call order A: the first ceil(p% x bulks of run A) bulks of run A ----------
            if partial:
                _, bulks_c, runaway, _m = _drain_group(t, case, ingest, group, case["order_a"], seed, limit)
                if not obs.check(not runaway, "cover/runaway", f"group {gi} (run C) issued more than {limit} bulks"):
                    return
                accepted = _accepted_counts(ingest, len(bulks_a))
                if (Fraction(str(ingest)) * len(bulks_a) / 100).denominator == 1:
                    whole_share = True
                obs.check(
                    len(bulks_c) in accepted,
                    "ingest/wrong-count",
                    f"group {gi}: {len(bulks_c)} bulks at ingest-percentage {ingest}, {len(bulks_a)} at 100 %: expected {sorted(accepted)}",
                )
                obs.check(
                    [x.key() for x in bulks_c] == [x.key() for x in bulks_a[: len(bulks_c)]],
                    "ingest/not-a-prefix",
                    f"group {gi}: the {len(bulks_c)} bulks at {ingest} % are not the first bulks of the full run",
                )

            # ---- run D (a sample of the cases): the real AsyncIoAdapter.run() with the real bulk runner on a virtual-time loop ---
            # this checks, instead of restating it, how schedule_for shares one parameter source among the co-located clients of a task
            if case["seed"] % 4 == 0 and total_docs <= 3000 and not case["conflicts"]:
                # unthrottled, or throttled so that clients wait (holding the bulk they were given) while their neighbours ask for theirs
                target = [None, 8, "1000 docs/s"][(case["seed"] // 4) % 3]
                sibling = (case["seed"] // 12) % 2 == 1
                try:
                    sent = _run_through_adapter(t, case, group, seed, target, sibling)
                except exceptions.RallyError as e:
                    obs.violation("end-to-end/error", f"group {gi}: the real AsyncIoAdapter failed ({'two tasks on one operation' if sibling else 'one task'}): {str(e)[:300]}")
                    sent = None
                if target is not None:
                    obs.cls("end-to-end-throttled")
                if sibling:
                    obs.cls("end-to-end-two-tasks-on-one-operation")
                copies = 2 if sibling else 1
                obs.check(
                    sent is None or sorted(sent) == sorted([_body_bytes(x.body) for x in bulks_a] * copies),
                    "end-to-end/bulks-differ",
                    lambda: f"group {gi}: the real AsyncIoAdapter sent {len(sent)} bulk requests, the drained parameter source yields {len(bulks_a)}"
                    + (" for each of the two tasks that use the operation" if sibling else "")
                    + ("" if len(sent) != copies * len(bulks_a) else " with different bodies"),
                )
                obs.cls("end-to-end-through-AsyncIoAdapter")

        # ---- exact cover per targeted file --------------------------------------------------------------------------
        offset_used = False
        for f in targeted:
            seqs = [pg.get(f.tag, []) for pg in per_group_entries]
            flat = [en for s_ in seqs for en in s_]
            ok = len(flat) == len(f.docs) and all(_matches(en, ref) for en, ref in zip(flat, f.docs))
            if not ok:
                if len(flat) != len(f.docs):
                    obs.violation(
                        "cover/lost-or-duplicated",
                        f"file {f.tag}: {len(f.docs)} documents in the file, {len(flat)} delivered (per group {[len(s_) for s_ in seqs]}; "
                        f"groups {case['groups']} of {case['clients']} clients, bulk {case['bulk']})",
                    )
                else:
                    tiled = _tiles(f.docs, seqs)
                    if tiled is None:
                        obs.inconclusive = "tiling search budget exhausted"
                    elif not tiled:
                        first_bad = next(i for i, (en, ref) in enumerate(zip(flat, f.docs)) if not _matches(en, ref))
                        obs.violation(
                            "cover/not-contiguous-slices-in-file-order",
                            f"file {f.tag}: the groups' documents are no tiling of the file by contiguous slices; in group order the first "
                            f"difference is at document {first_bad}: delivered {flat[first_bad][1][:80]!r}, file has {f.docs[first_bad][:80]!r}",
                        )
            per_doc = 2 if f.spec["meta"] else 1
            pos = 0
            for s_ in seqs:
                if s_ and pos * per_doc >= 50_000:
                    offset_used = True
                pos += len(s_)

        # ---- classification -----------------------------------------------------------------------------------------------
        large = any(len(f.lines) > 50_000 for f in targeted)
        multibyte = any(f.multibyte and f.docs for f in targeted)
        obs.cls("files")
        if len(ranges) >= 2:
            obs.cls("multi-group")
        if len(ranges) >= 2 and len([f for f in targeted if f.docs]) >= 2:
            obs.cls("multi-group-multi-file")
        if any(sz >= 2 for sz in case["groups"]):
            obs.cls("co-located-clients")
        if large:
            obs.cls("large-file")
        if offset_used:
            obs.cls("offset-entry-used")
        if multibyte:
            obs.cls("multibyte")
        if partial:
            obs.cls("ingest<100")
        if case["conflicts"]:
            obs.cls("conflicts", "conflicts:" + case["conflicts"])
            if case["on_conflict"] == "update":
                obs.cls("on-conflict-update")
            if case["recency"]:
                obs.cls("recency>0")
        if any(f.spec["meta"] and f.docs for f in targeted):
            obs.cls("meta-included")
        if any(f.spec["ds"] and f.docs for f in targeted):
            obs.cls("data-stream")
        if any(f.spec["eol"] == "\r\n" and f.docs for f in targeted):
            obs.cls("crlf")
        if any(not f.spec["final_newline"] and f.docs for f in targeted):
            obs.cls("no-final-newline")
        if any(not f.spec["seq"] and len(f.docs) > 1 for f in targeted):
            obs.cls("duplicate-lines")
        if case["batch_k"] > 1:
            obs.cls("batch>bulk")
        if case.get("preceding_clients"):
            obs.cls("listed-after-other-tasks-in-a-parallel-element")
        if whole_share:
            obs.cls("ingest-share-is-a-whole-number-of-bulks")
        if len(targeted) < sum(len(cf) for cf in files):
            obs.cls("selection")
        if any(0 < len(f.docs) < case["clients"] for f in targeted):
            obs.cls("fewer-docs-than-clients")
        if any(len(f.docs) > case["bulk"] * len(ranges) for f in targeted):
            obs.cls("several-bulks-per-group")
        obs.mark_nontrivial(
            (len(ranges) >= 2 and len([f for f in targeted if f.docs]) >= 2) or offset_used or multibyte or partial or bool(case["conflicts"])
        )
    finally:
        random.setstate(rnd_state)
        shutil.rmtree(tmp, ignore_errors=True)


def run_case(case, obs):
    kind = case["kind"]
    if kind == "files":
        _run_files(case, obs)
    elif kind == "arith":
        _run_arith(case, obs)
    elif kind == "arith-grid":
        _run_arith_grid(case, obs)
    else:
        raise ValueError(kind)


PROBES = {
    # fixed: ZeroDivisionError in PartitionBulkIndexParamSource.percent_completed for two co-located clients without documents
    "crash/RallyError@driver/driver.py:__call__": json.load(open(os.path.join(os.path.dirname(os.path.dirname(os.path.abspath(__file__))), "replays", "C03", "two-idle-colocated-clients.json")))["case"],
}
