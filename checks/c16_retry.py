"""
C16 - Retryable operations retry exactly as configured.

Real code: esrally.driver.runner.Retry wrapped around a scripted async delegate, run on a private asyncio event loop whose
clock is virtual (the selector advances the clock by the requested timeout instead of blocking), so ``asyncio.sleep`` inside
Retry costs nothing and the instants of all delegate invocations are exact (all durations are dyadic rationals).

Generated: an outcome script (what the n-th attempt of the operation produces) x the retry parameters as a track would carry
them (any of them omitted) x the constructor default of retry-until-success (``Retry(GetAsyncSearch(), retry_until_success=True)``).
After the listed outcomes the delegate succeeds forever (so retry-until-success terminates); a runaway guard stops a loop
that keeps calling after that.

Oracle: a reference model written from docs/track.rst ("Retries") and the property statement - NOT from Retry.__call__:
number of attempts, exactly one wait of retry-wait-period between consecutive attempts (virtual time between the end of one
delegate call and the start of the next), and the object returned / raised is what the last attempt produced.
"""
import asyncio
import itertools
import os
import re
import selectors
import socket
import sys

import elastic_transport
import elasticsearch
from hypothesis import strategies as st

from esrally.driver import runner
from vlib import core

ID = "C16"
LEVEL = "fault_enumeration"
TECHNIQUE = (
    "exhaustive enumeration of attempt-outcome sequences x retry parameter grid plus property-based search (Hypothesis) over longer "
    "sequences, real runner.Retry on a virtual-time asyncio loop, reference-model oracle"
)
RULE = (
    "Case = outcome script (0-8 outcomes, in the polling profile 9-36 mostly unsuccessful ones, from 9 classes: ok, fail (success False), nondict (tuple/None), conn_timeout, conn_error, "
    "sock_timeout, api408, api_other (400/404/409/429/500/503), transport_other (SerializationError/TransportError/SniffingError); "
    "afterwards the delegate succeeds) x parameters (retries 0-5, 12-40 in the polling profile, 2^31, sys.maxsize-1, sys.maxsize or omitted, retry-until-success omitted/true/false, retry-wait-period "
    "omitted/0/0.25/0.5/2, retry-on-timeout and retry-on-error omitted/true/false, constructor default of retry-until-success) x a "
    "per-attempt service time from {0, 1/1024, 1/4} s; 1 in 4 generated cases invokes the same wrapper 2-3 times with the same params dict object (script replayed), another quarter runs two overlapping invocations (two clients of one worker) through the same wrapper. Exhaustive sub-domain: every sequence of length 0-4 over the 9 classes (7381) x "
    "parameter grid (quick: the 22 behaviourally distinct (attempt cap, retry-on-error, retry-on-timeout) combinations with rotating "
    "wait period / omitted-or-explicit spelling, plus the empty parameter set and constructor-default-overridden; thorough: the full 1080-point grid incl. the constructor default). Non-trivial = the real code made >= 2 attempts "
    "and the attempted outcomes belong to >= 2 different classes. Distinct = distinct canonical JSON."
)
ASSUMPTIONS = [
    "retries is a non-negative integer, the retry-on-* flags are JSON booleans, retry-wait-period a non-negative number (as a track file supplies them)",
    "a dict without a 'success' key counts as success (as every runner that does not report success does)",
    "HTTP 408 is a timeout; socket.timeout, ConnectionTimeout and ConnectionError (elastic_transport) are the timeouts / connection errors of the statement",
    "time between attempts is measured on the event loop clock from the end of one delegate call to the start of the next; all durations are dyadic so the comparison is exact",
    "returned value / raised exception is compared by identity, falling back to equality of type and attempt tag (a faithful copy would be accepted)",
]
BUDGET = {"quick": 3000, "thorough": 40000}
REQUIRED_CLASSES = {
    "attempts>=3": 150,
    "attempts>=12": 40,
    "cap-reached": 150,
    "retried-then-success": 150,
    "propagated-after-retry": 150,
    "retry-until-success": 150,
    "timeout-with-retry-on-timeout-off": 150,
    "fail-with-retry-on-error-off": 150,
    "nondict-ends": 150,
    "some-defaults-omitted": 150,
}

CLASSES = ["ok", "fail", "nondict", "conn_timeout", "conn_error", "sock_timeout", "api408", "api_other", "transport_other"]
VARIANTS = {
    "ok": ["true", "nokey"],
    "fail": ["plain", "desc"],
    "nondict": ["tuple", "none"],
    "conn_timeout": ["x"],
    "conn_error": ["x"],
    "sock_timeout": ["x"],
    "api408": ["x"],
    "api_other": ["400", "404", "500", "409", "429", "503"],
    "transport_other": ["ser", "bare", "sniff"],
}
TIMEOUTISH = {"conn_timeout", "conn_error", "sock_timeout", "api408"}
SERVICE = [0.0, 1 / 1024, 0.25]
WAITS = [0, 0.25, 0.5, 2]
F7 = "retried/transport_other"


# ------------------------------------------------------------------------------------------------ virtual-time loop
class _VSelector(selectors.DefaultSelector):
    """never blocks: a positive timeout is 'slept' by advancing the virtual clock"""

    def __init__(self):
        super().__init__()
        self.now = 0.0

    def select(self, timeout=None):
        if timeout is None:
            raise core.HarnessError("virtual loop would block forever (nothing scheduled)")
        if timeout > 0:
            self.now += timeout
        return super().select(0)


class _VLoop(asyncio.SelectorEventLoop):
    def __init__(self):
        self.vsel = _VSelector()
        super().__init__(self.vsel)

    def time(self):
        return self.vsel.now


_LOOP = None


def _loop():
    global _LOOP  # pylint: disable=global-statement
    if _LOOP is None or _LOOP.is_closed():
        _LOOP = _VLoop()
    _LOOP.vsel.now = 0.0
    return _LOOP


def teardown():
    if _LOOP is not None and not _LOOP.is_closed():
        _LOOP.close()


# ------------------------------------------------------------------------------------------------ scripted delegate
class _Runaway(BaseException):
    pass


_META = {}


def _meta(status):
    if status not in _META:
        _META[status] = elastic_transport.ApiResponseMeta(
            status=status, http_version="1.1", headers=elastic_transport.HttpHeaders(), duration=0.0, node=elastic_transport.NodeConfig("http", "h", 9200)
        )
    return _META[status]


_API_TYPES = {400: elasticsearch.BadRequestError, 404: elasticsearch.NotFoundError, 409: elasticsearch.ConflictError}


def _produce(outcome, attempt):
    """-> ("return", obj) | ("raise", exc); every object carries the attempt number"""
    cls, _, var = outcome.partition(":")
    tag = f"attempt-{attempt}"
    if cls == "ok":
        d = {"weight": 1, "unit": "ops", "tag": tag}
        if var != "nokey":
            d["success"] = True
        return "return", d
    if cls == "fail":
        d = {"weight": 1, "unit": "ops", "success": False, "tag": tag}
        if var == "desc":
            d["error-type"] = "api"
            d["error-description"] = "index_not_found_exception"
        return "return", d
    if cls == "nondict":
        return "return", (None if var == "none" else (attempt, "ops"))
    if cls == "conn_timeout":
        return "raise", elasticsearch.ConnectionTimeout(message=tag)
    if cls == "conn_error":
        return "raise", elasticsearch.ConnectionError(message=tag)
    if cls == "sock_timeout":
        return "raise", socket.timeout(tag)
    if cls == "api408":
        return "raise", elasticsearch.ApiError(message=tag, meta=_meta(408), body={"error": "request timeout"})
    if cls == "api_other":
        status = int(var)
        return "raise", _API_TYPES.get(status, elasticsearch.ApiError)(message=tag, meta=_meta(status), body={"error": "x"})
    if cls == "transport_other":
        t = {"ser": elasticsearch.SerializationError, "bare": elasticsearch.TransportError, "sniff": elastic_transport.SniffingError}[var]
        return "raise", t(tag)
    raise core.HarnessError(f"unknown outcome {outcome}")


class _Delegate:
    def __init__(self, outcomes, service, loop):
        self.outcomes = outcomes
        self.service = service
        self.loop = loop
        self.calls = []  # (t_start, t_end, kind, obj, es, params_snapshot, params_is_same)
        self.params_obj = None

    def __repr__(self):
        return "scripted-delegate"

    async def __aenter__(self):
        return self

    async def __aexit__(self, exc_type, exc_val, exc_tb):
        return False

    async def __call__(self, es, params):
        n = len(self.calls)
        if n >= len(self.outcomes) + 3:
            raise _Runaway()
        t0 = self.loop.time()
        svc = SERVICE[self.service[n]] if n < len(self.service) else 0.0
        if svc:
            await asyncio.sleep(svc)
        outcome = self.outcomes[n] if n < len(self.outcomes) else "ok:true"
        kind, obj = _produce(outcome, n + 1)
        self.calls.append((t0, self.loop.time(), kind, obj, es, dict(params), params is self.params_obj))
        if kind == "raise":
            raise obj
        return obj


# ------------------------------------------------------------------------------------------------ reference model
def _cls(outcome):
    return outcome.partition(":")[0]


def _settings(case):
    p = case["params"]
    rus = p.get("retry-until-success", bool(case.get("ctor_rus", False)))
    if rus:
        cap = None
        on_error = True
    else:
        cap = p.get("retries", 0) + 1
        on_error = p.get("retry-on-error", False)
    return cap, on_error, p.get("retry-on-timeout", True), p.get("retry-wait-period", 0.5)


def _model(case):
    """-> (attempts, reason); reason in cap|success|nondict|not-retryable|retry-off"""
    cap, on_error, on_timeout, _ = _settings(case)
    outcomes = case["outcomes"]
    i = 0
    while True:
        c = _cls(outcomes[i]) if i < len(outcomes) else "ok"
        i += 1
        if c == "ok":
            return i, "success"
        if c == "nondict":
            return i, "nondict"
        if c in ("api_other", "transport_other"):
            return i, "not-retryable"
        if c in TIMEOUTISH and not on_timeout:
            return i, "retry-off"
        if c == "fail" and not on_error:
            return i, "retry-off"
        if cap is not None and i >= cap:
            return i, "cap"


def _outcome_at(case, i):
    return case["outcomes"][i] if i < len(case["outcomes"]) else "ok:true"


def is_excluded(case, known):
    """F7: an 'other transport error' met while retry-on-timeout is on and attempts are left is swallowed and retried at once"""
    if not core.signature_matches(F7, known):
        return False
    cap, _, on_timeout, _ = _settings(case)
    m, reason = _model(case)
    return reason == "not-retryable" and _cls(_outcome_at(case, m - 1)) == "transport_other" and on_timeout and (cap is None or m < cap)


# ------------------------------------------------------------------------------------------------ execution + oracle
def _same(a, b):
    if a is b:
        return True
    if type(a) is not type(b):
        return False
    if isinstance(a, BaseException):
        return str(a) == str(b) and getattr(a, "args", None) == getattr(b, "args", None)
    return a == b


def run_case(case, obs):
    loop = _loop()
    if case.get("concurrent"):
        _run_concurrent(case, obs, loop)
        return
    outcomes = case["outcomes"]
    params = dict(case["params"])
    delegate = _Delegate(outcomes, case.get("svc", []), loop)
    delegate.params_obj = params
    es = object()
    if case.get("ctor_rus"):
        retrier = runner.Retry(delegate, retry_until_success=True)
    else:
        retrier = runner.Retry(delegate)
    # A task executes its operation many times: the same runner object is invoked again, and a parameter source may hand out the same
    # dict object every time (the default ParamSource does). Every invocation has to behave as configured: the script is replayed.
    for invocation in range(case.get("invocations", 1)):
        delegate.calls = []
        before = len(obs.violations)
        case_k, params_k = case, params
        if invocation > 0 and case.get("later_without_rus"):
            # another task of the same operation type: the same wrapper, other params - here without the retry-until-success option
            case_k = dict(case, params={k: v for k, v in case["params"].items() if k != "retry-until-success"})
            params_k = dict(case_k["params"])
            delegate.params_obj = params_k
            obs.cls("later-invocation-with-other-params")
        _one_invocation(case_k, obs, loop, retrier, delegate, es, params_k)
        if invocation > 0:
            obs.cls("invoked-again-with-same-params-object")
            if len(obs.violations) > before:
                obs.violations[before:] = [(f"{sig}@invocation-{invocation + 1}", msg) for sig, msg in obs.violations[before:]]
        if len(obs.violations) > before:
            break


def _outcome_of(awaitable_result, delegate):
    """(returned, raised, runaway) of one invocation from what gather(return_exceptions=True) / run_until_complete delivered"""
    if isinstance(awaitable_result, _Runaway):
        return None, None, True
    if isinstance(awaitable_result, BaseException):
        e = awaitable_result
        if isinstance(e, core.HarnessError):
            raise e
        if not any(c[2] == "raise" and c[3] is e for c in delegate.calls) and not isinstance(e, (elasticsearch.ApiError, elasticsearch.TransportError, OSError)):
            raise e  # not something the delegate produced: a crash inside Retry (classified by the framework)
        return None, e, False
    return ("value", awaitable_result), None, False


class _Mux:
    """one delegate object (as in Rally: one runner per operation type) serving two overlapping invocations; params["_inv"] tells them apart"""

    def __init__(self, views):
        self.views = views

    def __repr__(self):
        return "scripted-delegate"

    async def __aenter__(self):
        return self

    async def __aexit__(self, exc_type, exc_val, exc_tb):
        return False

    async def __call__(self, es, params):
        return await self.views[params["_inv"]](es, params)


def _run_concurrent(case, obs, loop):
    """two clients of one worker execute the operation at overlapping times through the same Retry object; each is judged on its own"""
    es = object()
    con = case["concurrent"]
    cases = {"A": case, "B": dict(case, outcomes=con["outcomes"], svc=con["svc"])}
    views, params = {}, {}
    for k, c in cases.items():
        params[k] = dict(c["params"], _inv=k)
        views[k] = _Delegate(c["outcomes"], c.get("svc", []), loop)
        views[k].params_obj = params[k]
    mux = _Mux(views)
    retrier = runner.Retry(mux, retry_until_success=True) if case.get("ctor_rus") else runner.Retry(mux)
    begins = {}

    async def invoke(k, delay):
        if delay:
            await asyncio.sleep(delay)
        begins[k] = loop.time()
        return await retrier(es, params[k])

    async def both():
        return await asyncio.gather(invoke("A", 0), invoke("B", SERVICE[con["start"] % len(SERVICE)] + con["extra"]), return_exceptions=True)

    results = loop.run_until_complete(both())
    for k, res in zip("AB", results):
        before = len(obs.violations)
        returned, raised, runaway = _outcome_of(res, views[k])
        _judge(cases[k], obs, views[k].calls, es, begins[k], returned, raised, runaway)
        if len(obs.violations) > before:
            obs.violations[before:] = [(f"{sig}@overlapping-invocation", msg) for sig, msg in obs.violations[before:]]
    a, b = views["A"].calls, views["B"].calls
    if a and b and a[0][0] < b[-1][1] and b[0][0] < a[-1][1] and (len(a) >= 2 or len(b) >= 2):
        obs.cls("overlapping-invocations-with-retries")


def _one_invocation(case, obs, loop, retrier, delegate, es, params):
    t_begin = loop.time()
    try:
        res = loop.run_until_complete(retrier(es, params))
    except BaseException as e:  # pylint: disable=broad-except
        res = e
    returned, raised, runaway = _outcome_of(res, delegate)
    _judge(case, obs, delegate.calls, es, t_begin, returned, raised, runaway)


def _judge(case, obs, calls, es, t_begin, returned, raised, runaway):
    outcomes = case["outcomes"]
    n = len(calls)
    m, reason = _model(case)
    cap, on_error, on_timeout, wait = _settings(case)
    attempted = [_cls(_outcome_at(case, i)) for i in range(n)]

    # ---- classification
    obs.cls(f"attempts={min(n, 5)}{'+' if n >= 5 else ''}", f"end:{reason}")
    if n >= 3:
        obs.cls("attempts>=3")
    if n >= 12:
        obs.cls("attempts>=12")
    if reason == "cap" and cap is not None and cap >= 2:
        obs.cls("cap-reached")
    if reason == "success" and m >= 2:
        obs.cls("retried-then-success")
    if reason == "not-retryable" and m >= 2:
        obs.cls("propagated-after-retry")
    if reason == "nondict":
        obs.cls("nondict-ends")
    if cap is None:
        obs.cls("retry-until-success")
    last_model = _cls(_outcome_at(case, m - 1))
    if reason == "retry-off":
        obs.cls("timeout-with-retry-on-timeout-off" if last_model in TIMEOUTISH else "fail-with-retry-on-error-off")
    if len(case["params"]) < 5:
        obs.cls("some-defaults-omitted")
    if not case["params"]:
        obs.cls("all-defaults")
    if case.get("ctor_rus"):
        obs.cls("ctor-retry-until-success")
    if "transport_other" in attempted:
        obs.cls("other-transport-error-attempted")
    obs.mark_nontrivial(n >= 2 and len(set(attempted)) >= 2)

    # ---- number of attempts
    if runaway:
        obs.violation("attempts/runaway", f"delegate still called after {n} attempts; model expects {m} ({reason}); params={case['params']} outcomes={outcomes}")
        return
    if n > m:
        sig = "attempts/over-cap" if reason == "cap" else f"retried/{last_model}"
        obs.violation(
            sig,
            f"{n} attempts, model expects {m}: attempt {m} produced {_outcome_at(case, m - 1)!r} which must end the loop ({reason}); "
            f"cap={cap} retry-on-error={on_error} retry-on-timeout={on_timeout}; gap before extra attempt = {calls[m][0] - calls[m - 1][1]} s "
            f"(retry-wait-period {wait}); params={case['params']} outcomes={outcomes}",
        )
    elif n < m:
        obs.violation(
            f"not-retried/{attempted[-1] if attempted else 'none'}",
            f"{n} attempts, model expects {m}: attempt {n} produced {_outcome_at(case, n - 1) if n else None!r} which is retryable under "
            f"cap={cap} retry-on-error={on_error} retry-on-timeout={on_timeout}; params={case['params']} outcomes={outcomes}",
        )

    # ---- every attempt is the same operation
    for i, c in enumerate(calls):
        obs.check(c[4] is es and {k: v for k, v in c[5].items() if k != "_inv"} == case["params"], "call-args", f"attempt {i + 1} was called with es/params different from the operation's: {c[5]}")

    # ---- exactly one wait period between consecutive attempts (only gaps the model agrees to)
    for i in range(min(n, m) - 1):
        gap = calls[i + 1][0] - calls[i][1]
        obs.check(
            gap == wait,
            f"wait/after-{attempted[i]}",
            f"gap between attempt {i + 1} ({_outcome_at(case, i)}) and {i + 2} is {gap} s, retry-wait-period is {wait}; params={case['params']} outcomes={outcomes}",
        )
    if n >= 1:
        obs.check(calls[0][0] == t_begin, "wait/before-first-attempt", f"first attempt started {calls[0][0] - t_begin} s after the call")

    # ---- result of the last attempt
    if n == m and n >= 1:
        kind, obj = calls[-1][2], calls[-1][3]
        if kind == "return":
            if raised is not None:
                obs.violation("result/raised-instead-of-returned", f"last attempt returned {obj!r} but Retry raised {raised!r}; params={case['params']} outcomes={outcomes}")
            else:
                obs.check(_same(returned[1], obj), "result/wrong-value", f"returned {returned[1]!r}, last attempt produced {obj!r}; params={case['params']} outcomes={outcomes}")
        else:
            if raised is None:
                obs.violation("result/returned-instead-of-raised", f"last attempt raised {obj!r} but Retry returned {returned[1]!r}; params={case['params']} outcomes={outcomes}")
            else:
                obs.check(_same(raised, obj), "result/wrong-exception", f"raised {raised!r}, last attempt raised {obj!r}; params={case['params']} outcomes={outcomes}")
    elif n == 0:
        obs.violation("attempts/none", f"the operation was never attempted; params={case['params']}")


# ------------------------------------------------------------------------------------------------ generator
def _outcome(cls_strategy):
    return cls_strategy.flatmap(lambda c: st.sampled_from(VARIANTS[c]).map(lambda v: f"{c}:{v}"))


_RETRYABLE_HEAVY = ["conn_timeout", "conn_error", "sock_timeout", "api408", "fail", "fail"] * 5 + CLASSES
_opt_bool = st.sampled_from(["omit", True, False])


@st.composite
def _case(draw):
    params = {}
    profile = draw(st.sampled_from(["deep", "deep", "deep", "any", "until-success", "sparse", "long"]))
    rus = draw(_opt_bool)
    ctor_rus = draw(st.booleans()) and draw(st.booleans())
    # sys.maxsize is what runner.ShrinkIndex passes to poll "for ever"; it is a number of retries like any other
    retries = draw(st.sampled_from(["omit", 0, 1, 2, 3, 4, 5, sys.maxsize, sys.maxsize - 1, 2**31]))
    wait = draw(st.sampled_from(["omit"] + WAITS))
    rot = draw(_opt_bool)
    roe = draw(_opt_bool)
    if profile == "until-success":
        rus = draw(st.sampled_from([True, True, "omit"]))
        ctor_rus = rus == "omit" or ctor_rus
    elif profile == "deep":
        rus = draw(st.sampled_from(["omit", "omit", False]))
        ctor_rus = ctor_rus and rus is False
        retries = draw(st.sampled_from([1, 2, 3, 4, 5, 5]))
        rot = draw(st.sampled_from(["omit", True, True, True, True, False]))
        roe = draw(st.sampled_from([True, True, True, True, True, False, "omit"]))
    elif profile == "long":  # polling: many unsuccessful attempts in a row (wait-for-recovery, shrink-index, ... retry for minutes)
        rus = draw(st.sampled_from([True, True, "omit", False]))
        ctor_rus = ctor_rus and rus is not True
        retries = draw(st.sampled_from([12, 16, 25, 40, 2**31, sys.maxsize])) if rus is not True else retries
        rot = draw(st.sampled_from(["omit", True, True, True]))
        roe = True
    elif profile == "sparse":  # mostly the documented defaults
        keep = draw(st.sampled_from(["none", "none", "retries", "wait", "rot", "roe", "rus"]))
        rus = rus if keep == "rus" else "omit"
        retries = draw(st.sampled_from([1, 2, 3])) if keep == "retries" else "omit"
        wait = wait if keep == "wait" else "omit"
        rot = rot if keep == "rot" else "omit"
        roe = roe if keep == "roe" else "omit"
        ctor_rus = ctor_rus and keep != "rus"
    for key, value in (("retry-until-success", rus), ("retries", retries), ("retry-wait-period", wait), ("retry-on-timeout", rot), ("retry-on-error", roe)):
        if value != "omit":
            params[key] = value
    n = draw(st.integers(0, 8))
    if profile == "long":
        n = draw(st.integers(9, 36))
        main = draw(st.sampled_from(["fail", "fail", "conn_timeout", "api408", "conn_error"]))
        outcomes = [draw(_outcome(st.just(main if draw(st.integers(0, 7)) else draw(st.sampled_from(_RETRYABLE_HEAVY))))) for _ in range(n)]
    elif profile == "any" or n == 0:
        outcomes = draw(st.lists(_outcome(st.sampled_from(CLASSES)), min_size=n, max_size=n))
    else:  # a run of (mostly) retryable outcomes, then anything
        head = draw(st.lists(_outcome(st.sampled_from(_RETRYABLE_HEAVY)), min_size=n - 1, max_size=n - 1))
        outcomes = head + [draw(_outcome(st.sampled_from(CLASSES + ["api_other", "api_other", "nondict"])))]
    svc = draw(st.lists(st.sampled_from([0, 0, 1, 2]), min_size=n, max_size=n))
    case = {"outcomes": outcomes, "params": params, "ctor_rus": bool(ctor_rus), "svc": svc}
    if draw(st.integers(0, 3)) == 0:
        case["invocations"] = draw(st.sampled_from([2, 2, 3]))
        if "retry-until-success" in params and draw(st.booleans()):
            case["later_without_rus"] = True
    elif draw(st.integers(0, 3)) == 0:
        # a second client of the same worker runs the operation through the same Retry object while the first is still at it
        nb = draw(st.integers(0, 6))
        case["concurrent"] = {
            "outcomes": draw(st.lists(_outcome(st.sampled_from(_RETRYABLE_HEAVY)), min_size=nb, max_size=nb)),
            "svc": draw(st.lists(st.sampled_from([0, 1, 2]), min_size=nb, max_size=nb)),
            "start": draw(st.integers(0, 2)), "extra": draw(st.sampled_from([0, 1 / 2048, 0.125, 0.375])),
        }
        case["svc"] = [max(1, v) for v in case["svc"]]  # attempts take time, so that the two invocations really overlap
    return case


def strategy(tier, known):
    return _case()


# ------------------------------------------------------------------------------------------------ exhaustive sub-domain
def _sequences(max_len):
    yield ()
    for ln in range(1, max_len + 1):
        yield from itertools.product(CLASSES, repeat=ln)


def _behaviour_grid():
    """the 22 behaviourally distinct (cap, retry-on-error, retry-on-timeout) combinations"""
    out = []
    for retries in (0, 1, 2, 3, 4):
        for roe in (False, True):
            for rot in (False, True):
                out.append((retries, False, roe, rot))
    for rot in (False, True):
        out.append((0, True, False, rot))
    return out


def _full_grid():
    for retries in (0, 1, 2, 3, 4, 5):
        for rus in ("omit", False, True, "ctor", "ctor+false"):
            for wait in ("omit", 0, 0.5, 2):
                for rot in ("omit", True, False):
                    for roe in ("omit", True, False):
                        p = {"retries": retries}
                        if rus in (True, False):
                            p["retry-until-success"] = rus
                        elif rus == "ctor+false":
                            p["retry-until-success"] = False
                        if wait != "omit":
                            p["retry-wait-period"] = wait
                        if rot != "omit":
                            p["retry-on-timeout"] = rot
                        if roe != "omit":
                            p["retry-on-error"] = roe
                        yield p, rus in ("ctor", "ctor+false")


def _known():
    return core.KnownFindings().known_signatures(ID)


def _enumerate(tier, known):
    full = list(_full_grid()) if tier == "thorough" else None
    behaviours = _behaviour_grid()
    for k, seq in enumerate(_sequences(4)):
        outcomes = [f"{c}:{VARIANTS[c][(k + i) % len(VARIANTS[c])]}" for i, c in enumerate(seq)]
        svc = [(k + i) % 3 for i in range(len(seq))]
        if full is not None:
            grid = full
        else:
            grid = []
            for j, (retries, rus, roe, rot) in enumerate(behaviours):
                r = k + j
                p = {}
                ctor = False
                # spell defaults explicitly or omit them, rotating
                if retries or r % 2:
                    p["retries"] = retries
                if rus:
                    if r % 3 == 0:
                        ctor = True
                    else:
                        p["retry-until-success"] = True
                    if r % 5 == 0:
                        p["retries"] = r % 4  # ignored under retry-until-success
                    if r % 4 == 0:
                        p["retry-on-error"] = False  # forcibly true under retry-until-success
                elif r % 7 == 0:
                    p["retry-until-success"] = False
                if not rus and (roe or r % 2 == 0):
                    p["retry-on-error"] = roe
                if (not rot) or r % 3 == 1:
                    p["retry-on-timeout"] = rot
                w = ["omit", 0, 0.5, 2, 0.25][r % 5]
                if w != "omit":
                    p["retry-wait-period"] = w
                grid.append((p, ctor))
            grid.append(({}, False))  # everything omitted: the documented defaults
            # constructor default retry-until-success=True (get-async-search) switched off by the operation's own parameter
            grid.append(({"retry-until-success": False, "retries": k % 4, "retry-on-error": k % 2 == 0}, True))
        for p, ctor in grid:
            case = {"outcomes": outcomes, "params": p, "ctor_rus": ctor, "svc": svc}
            if known and is_excluded(case, known):
                yield None
            else:
                yield case


_SKIPPED = {"n": None}


def enumerate_cases(tier):
    known = _known()
    _SKIPPED["n"] = 0
    for c in _enumerate(tier, known):
        if c is None:
            _SKIPPED["n"] += 1
        else:
            yield c


# ------------------------------------------------------------------------------------------------ evidence (informational)
def _wrapped_in_retry():
    runner.register_default_runners()
    registry = getattr(runner, "__RUNNERS")
    wrapped, plain = [], []
    for op, r in registry.items():
        x, found = r, False
        while x is not None:
            if isinstance(x, runner.Retry):
                found = True
            x = getattr(x, "delegate", None)
        (wrapped if found else plain).append(op)
    return sorted(wrapped), sorted(plain)


def _documented_retryable():
    repo = os.path.dirname(os.path.dirname(os.path.dirname(os.path.abspath(runner.__file__))))
    path = os.path.join(repo, "docs", "track.rst")
    if not os.path.exists(path):
        return None
    with open(path, encoding="utf-8") as f:
        lines = f.read().split("\n")
    marked, current = set(), None
    for i, line in enumerate(lines):
        nxt = lines[i + 1].strip() if i + 1 < len(lines) else ""
        if re.fullmatch(r"~{3,}", nxt):  # operation sections are underlined with ~
            current = line.strip() if re.fullmatch(r"[a-z][a-z0-9-]*", line.strip()) else None
        elif re.fullmatch(r"[=.]{3,}", nxt):  # a higher-level section ends the operation list
            current = None
        if current and ":ref:`retryable" in line:
            marked.add(current)
    return sorted(marked)


def evidence_extra():
    out = {}
    try:
        wrapped, plain = _wrapped_in_retry()
        out["operations_wrapped_in_Retry"] = wrapped
        documented = _documented_retryable()
        if documented is None:
            out["operations_documented_retryable"] = "docs/track.rst not available in this tree"
        else:
            out["operations_documented_retryable"] = documented
            out["informational_wrapped_but_not_documented_retryable"] = sorted(set(wrapped) - set(documented))
            out["informational_documented_retryable_but_not_wrapped"] = sorted(set(documented) - set(wrapped))
    except Exception as e:  # pylint: disable=broad-except
        out["operations_wrapped_in_Retry"] = f"not determined: {type(e).__name__}: {e}"
    if _SKIPPED["n"] is None:  # sharded run: the parent did not enumerate, count the skipped region here
        tier = sys.argv[sys.argv.index("--tier") + 1] if "--tier" in sys.argv else os.environ.get("VERIF_TIER", "quick")
        _SKIPPED["n"] = sum(1 for c in _enumerate(tier, _known()) if c is None)
    out["exhaustive_subdomain"] = (
        "all 7381 outcome-class sequences of length 0-4 x parameter grid; cases inside a known-finding region are skipped and counted below"
    )
    out["exhaustive_subdomain_skipped_known"] = _SKIPPED["n"]
    return out


# fixed probes for findings (signature -> case)
PROBES = {
    F7: {"outcomes": ["transport_other:ser"], "params": {"retries": 1}, "ctor_rus": False, "svc": [0]},
}
