"""
C08 - Race results are correct statistics of the normal samples and survive storage.

Real code: esrally.metrics.InMemoryMetricsStore (filled through put_value_cluster_level / put_doc), percentiles_for_sample_size,
GlobalStatsCalculator via calculate_results, GlobalStats, Race.as_dict/from_dict, FileRaceStore.store_race/find_by_race_id/list.
Generated: 1-4 tasks with record streams (latency, service_time, processing_time, throughput; warm-up and normal; success flags;
counts on and around the percentile-set thresholds up to 10 001), cluster-level telemetry records, and a whole result structure.
Oracle: exact reference statistics (fractions.Fraction) of the *normal* records computed from the case, invariants of percentiles,
the percentile-set rule, error rate, and a store -> race.json -> read-back comparison.
"""
import os
import shutil
import statistics
import tempfile
from fractions import Fraction

from hypothesis import strategies as st

from esrally import exceptions, metrics
from gen import results as R

ID = "C08"
LEVEL = "exploration"
TECHNIQUE = "property-based testing (Hypothesis): exact reference statistics (Fraction) + invariants + persistence round trip"
RULE = (
    "Generated: 1-4 tasks (single or inside parallel elements; in / not in reporting; full, warm-up-only, empty, no-throughput), per task "
    "and metric a stream of warm-up and normal records (normal counts 0-5, {1,2,9,10,99,100}+-1, random <= 130, 12 % of cases one stream "
    "of 998-1002, 2 % one of 9999-10001; values in [0, 1e9]: zeros, ints, floats, repeated, nearly equal, deterministic fill blocks), "
    "success flags, put order (warm-up first / last / interleaved), records of the tasks of a parallel element interleaved in the store, optional cluster-level telemetry records, optional whole result "
    "structure for the race file round trip. Non-trivial = at least 2 tasks, some task has warm-up and normal records of one metric, and "
    "some request-metric stream has a normal count in {1,2,9,10,99,100,999,1000,9999,10000}. Distinct = distinct canonical JSON."
)
ASSUMPTIONS = [
    "values are finite, 0 or within [1e-9, 1e9] (latencies in ms, throughput in ops/s); NaN, inf, subnormal and near-overflow magnitudes are not generated",
    "all records of a task carry the task's operation type and service_time records carry a boolean meta 'success' (as SamplePostprocessor writes them)",
    "equality with the reference: absolute tolerance 1e-9 * max(1, largest magnitude in the stream); min, max, count, p100, bounds and monotonicity are exact",
    "percentile definition: linear interpolation at rank p/100*(n-1) (the variant for which p100 = max and p50 = median); a percentile p < 100 is "
    "expected in the summary iff n >= 1/(1-p/100)",
    "duration is only compared when the task has normal service_time records and warm-up precedes normal records in relative time",
    "in-memory metrics store and file race store only (the Elasticsearch-backed stores need a server)",
]
BUDGET = {"quick": 800, "thorough": 8000}
WALL_BUDGET_S = {"quick": 70, "thorough": 1300}
REQUIRED_CLASSES = {"tasks>=2": 200, "both-sample-types": 200, "threshold-count": 200, "count>=998": 40, "failures": 100, "globals": 100}

TOL = Fraction(1, 10**9)
F13 = "summary/throughput-zero-dropped"


# ------------------------------------------------------------------------------------------------ generator
@st.composite
def _case(draw):
    race = draw(R.record_race())
    extra = draw(st.sampled_from([False, True, True])) and draw(R.result_dict())
    return {"race": race, "extra": extra or None, "probe_p": draw(st.sampled_from([0, 12.5, 25, 33.3, 75, 95, 99.999]))}


def strategy(tier, known):
    return _case()


def _zero_dropped_region(case):
    """tasks whose normal throughput values have mean 0 or median 0 (F13 region)"""
    out = []
    for spec in case["race"]["tasks"]:
        _, n = R.expand_stream(spec["streams"].get("throughput"))
        if n and (not any(n) or statistics.median(n) == 0):
            out.append(spec["name"])
    return out


def is_excluded(case, known):
    return F13 in known and bool(_zero_dropped_region(case))


# ------------------------------------------------------------------------------------------------ helpers
def _close(actual, expected, scale):
    if actual is None or isinstance(actual, bool):
        return False
    return abs(Fraction(actual) - expected) <= TOL * max(1, scale)


def _norm(x):
    """JSON normal form written by hand: mappings -> dict with str keys, sequences -> list"""
    if isinstance(x, dict):
        return {str(k): _norm(v) for k, v in x.items()}
    if isinstance(x, (list, tuple)):
        return [_norm(v) for v in x]
    return x


def _scale(values):
    return max([abs(v) for v in values] + [1])


def _pkey_to_str(k):
    # "99_9" -> "99.9", "50_0" -> "50"
    f = k.replace("_", ".")
    return f[:-2] if f.endswith(".0") else f


# ------------------------------------------------------------------------------------------------ store level oracle
def _check_store(store, model, probe_p, obs):
    ST = metrics.SampleType
    for name in model.order:
        m = model.tasks[name]
        op_type = m["spec"]["op_type"]
        for metric in R.TASK_METRICS:
            for st_type, vals in ((ST.Normal, m["normal"][metric]), (ST.Warmup, m["warm"][metric])):
                tag = f"{name}/{metric}/{st_type.name}"
                stats = store.get_stats(metric, task=name, operation_type=op_type, sample_type=st_type)
                if not vals:
                    obs.check(stats is None, "stats/none", f"{tag}: no such records but get_stats returned {stats}")
                    pcts = store.get_percentiles(metric, task=name, operation_type=op_type, sample_type=st_type, percentiles=[50, 100])
                    obs.check(not pcts, "percentile/none", f"{tag}: no such records but percentiles {pcts}")
                    continue
                if not obs.check(stats is not None, "stats/none", f"{tag}: {len(vals)} records but get_stats returned None"):
                    continue
                scale = _scale(vals)
                obs.check(stats["count"] == len(vals), "stats/count", f"{tag}: count {stats['count']} != {len(vals)}")
                obs.check(
                    stats["min"] == min(vals) and stats["max"] == max(vals),
                    "stats/minmax",
                    f"{tag}: min/max {stats['min']}/{stats['max']} != {min(vals)}/{max(vals)}",
                )
                obs.check(_close(stats["avg"], R.ref_mean(vals), scale), "stats/mean", f"{tag}: mean {stats['avg']} != {float(R.ref_mean(vals))}")
                if st_type != ST.Normal:
                    continue
                s = sorted(vals)
                asked = sorted({float(p) for p in R.ref_percentile_set(len(vals))} | {0.0, 50.0, float(probe_p)})
                asked = [int(p) if p == int(p) else p for p in asked]
                pcts = store.get_percentiles(metric, task=name, operation_type=op_type, sample_type=st_type, percentiles=asked)
                if not obs.check(list(pcts.keys()) == asked, "percentile/keys", f"{tag}: asked {asked}, got {list(pcts.keys())}"):
                    continue
                prev = None
                for p in asked:
                    v = pcts[p]
                    obs.check(_close(v, R.ref_percentile(s, p), scale), "percentile/value", f"{tag}: p{p} = {v}, reference {float(R.ref_percentile(s, p))} (n={len(s)})")
                    obs.check(s[0] <= v <= s[-1], "percentile/bounds", f"{tag}: p{p} = {v} outside [{s[0]}, {s[-1]}]")
                    if prev is not None:
                        obs.check(prev <= v, "percentile/monotone", f"{tag}: p{p} = {v} below the previous percentile {prev}")
                    prev = v
                obs.check(pcts[100] == s[-1], "percentile/p100", f"{tag}: p100 {pcts[100]} != max {s[-1]}")
                obs.check(
                    _close(pcts[50], Fraction(statistics.median(s)) if len(s) % 2 else R.ref_median(s), scale),
                    "percentile/median",
                    f"{tag}: p50 {pcts[50]} != median {statistics.median(s)}",
                )
                obs.check(
                    _close(store.get_median(metric, task=name, operation_type=op_type, sample_type=st_type), R.ref_median(s), scale),
                    "percentile/median",
                    f"{tag}: get_median differs from the median {statistics.median(s)}",
                )
        # error rate
        for st_type, flags in ((ST.Normal, m["fail_n"]), (ST.Warmup, m["fail_w"])):
            want = Fraction(sum(flags), len(flags)) if flags else Fraction(0)
            got = store.get_error_rate(name, operation_type=op_type, sample_type=st_type)
            obs.check(
                abs(Fraction(got) - want) <= Fraction(1, 10**12),
                "error-rate",
                f"{name}/{st_type.name}: error rate {got}, {sum(flags)} of {len(flags)} service_time records failed",
            )


def _check_percentile_sets(obs):
    prev = None
    for n in (1, 2, 3, 9, 10, 11, 99, 100, 101, 999, 1000, 1001, 9999, 10000, 10001, 123456):
        got = [str(p) for p in metrics.percentiles_for_sample_size(n)]
        obs.check(got == R.ref_percentile_set(n), "percentile-set/thresholds", f"n={n}: {got}, expected {R.ref_percentile_set(n)}")
        if prev is not None:
            obs.check(set(prev) <= set(got), "percentile-set/thresholds", f"n={n}: set shrinks: {prev} -> {got}")
        prev = got


# ------------------------------------------------------------------------------------------------ summary oracle
def _check_summary(stats, model, obs):
    seen = [r["task"] for r in stats.op_metrics]
    obs.check(len(seen) == len(set(seen)), "summary/included", f"a task is listed twice: {seen}")
    for name in model.order:
        m = model.tasks[name]
        spec = m["spec"]
        failed = sum(m["fail_n"])
        must = spec["report"] or failed > 0
        r = stats.metrics(name)
        if not must:
            obs.check(r is None, "summary/included", f"{name}: excluded from reporting and without errors but listed")
            continue
        if not obs.check(r is not None, "summary/included", f"{name}: missing in op_metrics (report={spec['report']}, failed={failed})"):
            continue
        obs.check(r["operation"] == spec["op"], "summary/operation", f"{name}: operation {r['operation']!r} != {spec['op']!r}")
        # throughput
        tp, vals = r["throughput"], m["normal"]["throughput"]
        if not vals:
            obs.check(
                all(tp[k] is None for k in ("min", "mean", "median", "max")),
                "summary/throughput-from-warmup",
                f"{name}: no normal throughput records but {tp}",
            )
        else:
            scale = _scale(vals)
            want = {"min": Fraction(min(vals)), "max": Fraction(max(vals)), "mean": R.ref_mean(vals), "median": R.ref_median(vals)}
            if all(tp[k] is None for k in want):
                zero = want["mean"] == 0 or want["median"] == 0
                obs.violation(
                    F13 if zero else "summary/throughput-missing",
                    f"{name}: {len(vals)} normal throughput records (min {min(vals)}, mean {float(want['mean'])}, median {float(want['median'])}, "
                    f"max {max(vals)}) are reported as absent: {tp}",
                )
            else:
                for k, w in want.items():
                    obs.check(_close(tp[k], w, scale), "summary/throughput", f"{name}: throughput {k} = {tp[k]}, reference {float(w)}")
        if m["unit"].get("throughput"):
            obs.check(tp["unit"] == m["unit"]["throughput"], "summary/unit", f"{name}: throughput unit {tp['unit']!r}")
        # latency, service time, processing time
        for metric in R.REQUEST_METRICS:
            got, vals = r[metric], m["normal"][metric]
            if not vals:
                obs.check(got == {}, f"summary/{metric}-from-warmup", f"{name}: no normal {metric} records but {dict(got)}")
                continue
            scale = _scale(vals)
            s = sorted(vals)
            pkeys = [k for k in got if k not in ("mean", "unit")]
            want_set = R.ref_percentile_set(len(vals))
            obs.check(
                sorted(_pkey_to_str(k) for k in pkeys) == sorted(want_set),
                "summary/percentile-set",
                f"{name}/{metric}: n={len(vals)} reports {pkeys}, expected {want_set}",
            )
            for k in pkeys:
                p = _pkey_to_str(k)
                obs.check(_close(got[k], R.ref_percentile(s, p), scale), "summary/percentile-value", f"{name}/{metric}: {k} = {got[k]}, reference {float(R.ref_percentile(s, p))}")
            obs.check(_close(got.get("mean"), R.ref_mean(vals), scale), "summary/mean", f"{name}/{metric}: mean {got.get('mean')}, reference {float(R.ref_mean(vals))}")
            obs.check(got.get("unit") == "ms", "summary/unit", f"{name}/{metric}: unit {got.get('unit')!r}")
        want_er = Fraction(failed, len(m["fail_n"])) if m["fail_n"] else Fraction(0)
        obs.check(abs(Fraction(r["error_rate"]) - want_er) <= Fraction(1, 10**12), "summary/error-rate", f"{name}: error rate {r['error_rate']}, expected {float(want_er)}")
        if m["rel_n"]:
            want_d = Fraction(max(m["rel_n"])) * 1000
            obs.check(_close(r["duration"], want_d, want_d), "summary/duration", f"{name}: duration {r['duration']}, last normal sample at {float(want_d)} ms")
        elif not m["rel_w"]:
            obs.check(r["duration"] is None, "summary/duration", f"{name}: no service_time records but duration {r['duration']}")

    g = model.globals
    d = stats.as_dict()
    if not g:
        return
    for name, (attr, shard_attr) in R.SUM_TIME_METRICS.items():
        docs = g["sum_time"].get(name)
        if not docs:
            obs.check(d[attr] is None and not d[shard_attr], "summary/global-absent", f"{attr}: no records but {d[attr]} / {d[shard_attr]}")
            continue
        obs.check(d[attr] == sum(x["value"] for x in docs), "summary/global-sum", f"{attr}: {d[attr]} != {sum(x['value'] for x in docs)}")
        flat = [v for x in docs for v in x["per_shard"]]
        ps = d[shard_attr]
        obs.check(
            ps.get("min") == min(flat) and ps.get("max") == max(flat) and _close(ps.get("median"), R.ref_median(flat), _scale(flat)) and ps.get("unit") == "ms",
            "summary/per-shard",
            f"{shard_attr}: {ps} for shard values {flat}",
        )
    for name, attr in R.SUM_METRICS.items():
        vals = g["sum"].get(name)
        if not vals:
            obs.check(d[attr] is None, "summary/global-absent", f"{attr}: no records but {d[attr]}")
        else:
            obs.check(d[attr] == sum(vals), "summary/global-sum", f"{attr}: {d[attr]} != sum{vals}")
    for name, attr in R.MEDIAN_METRICS.items():
        vals = g["median"].get(name)
        if not vals:
            obs.check(d[attr] is None, "summary/global-absent", f"{attr}: no records but {d[attr]}")
        else:
            obs.check(_close(d[attr], R.ref_median(vals), _scale(vals)), "summary/global-median", f"{attr}: {d[attr]} != median{vals}")
    if g["segments_count"]:
        med = R.ref_median(g["segments_count"])
        obs.check(
            isinstance(d["segment_count"], int) and abs(d["segment_count"] - med) < 1,
            "summary/global-median",
            f"segment_count {d['segment_count']} for {g['segments_count']}",
        )
    else:
        obs.check(d["segment_count"] is None, "summary/global-absent", f"segment_count {d['segment_count']} without records")
    want_ml = [dict(j, unit="ms") for j in g["ml"]]
    obs.check(_norm(d["ml_processing_time"]) == want_ml, "summary/ml", f"ml_processing_time {d['ml_processing_time']} != {want_ml}")
    for name, attr in R.TRANSFORM_METRICS.items():
        want = [{"id": t["id"], "mean": t["value"], "unit": "docs/s" if name.endswith("throughput") else "ms"} for t in g["transform"] if t["name"] == name]
        obs.check(_norm(d[attr]) == want, "summary/transform", f"{attr}: {d[attr]} != {want}")
    for name in R.DISK_METRICS:
        want = [{"index": x["index"], "field": x["field"], "value": x["value"], "unit": "byte"} for x in g["disk"] if x["name"] == name]
        obs.check(_norm(d[name]) == want, "summary/disk-usage", f"{name}: {d[name]} != {want}")


# ------------------------------------------------------------------------------------------------ persistence oracle
_OP_KEYS = ("throughput", "latency", "service_time", "processing_time", "error_rate", "duration")
_SINGLE = ("error_rate", "duration")


def _check_flat(gs, tag, obs):
    """every per-task and global metric of the structure is in the flat (results store) form exactly once with its value"""
    flat = gs.as_flat_list()
    d = gs.as_dict()
    for item in d["op_metrics"]:
        for key in _OP_KEYS:
            if key not in item:
                continue
            hits = [x for x in flat if x.get("task") == item["task"] and x["name"] == key]
            want = {"single": item[key]} if key in _SINGLE else item[key]
            obs.check(
                len(hits) == 1 and _norm(hits[0]["value"]) == _norm(want) and hits[0].get("operation") == item["operation"],
                "flat/op-metric",
                f"{tag}: task {item['task']!r} metric {key}: {len(hits)} entries {hits[:1]}, expected value {want}",
            )
    for attr in list(R.SUM_METRICS.values()) + list(R.MEDIAN_METRICS.values()) + [a for a, _ in R.SUM_TIME_METRICS.values()] + ["segment_count"]:
        hits = [x for x in flat if x["name"] == attr]
        if d[attr] is None:
            obs.check(not hits, "flat/global", f"{tag}: {attr} is absent but listed {hits}")
        else:
            obs.check(len(hits) == 1 and hits[0]["value"] == {"single": d[attr]}, "flat/global", f"{tag}: {attr}={d[attr]} listed as {hits}")
    for _, shard_attr in R.SUM_TIME_METRICS.values():
        hits = [x for x in flat if x["name"] == shard_attr]
        if d[shard_attr]:
            obs.check(len(hits) == 1 and _norm(hits[0]["value"]) == _norm(d[shard_attr]), "flat/global", f"{tag}: {shard_attr} listed as {hits}")


def _check_roundtrip(cfg, race, gs, obs, tag):
    race_store = metrics.FileRaceStore(cfg)
    race_store.store_race(race)
    want = _norm(gs.as_dict())
    try:
        back = race_store.find_by_race_id(race.race_id)
    except exceptions.NotFound as e:
        obs.violation("roundtrip/not-found", f"{tag}: stored race cannot be read back: {e}")
        return
    for how, r in (("find_by_race_id", back), ("list", next((x for x in race_store.list() if x.race_id == race.race_id), None))):
        if not obs.check(r is not None, "roundtrip/not-listed", f"{tag}: stored race not returned by {how}"):
            continue
        got_gs = metrics.GlobalStats(r.results)
        got = _norm(got_gs.as_dict())
        if got != want:
            diff = [k for k in sorted(set(want) | set(got)) if want.get(k) != got.get(k)]
            obs.violation("roundtrip/global" if diff != ["op_metrics"] else "roundtrip/op-metrics", f"{tag} via {how}: differs in {diff}: wrote {[want.get(k) for k in diff][:2]} read {[got.get(k) for k in diff][:2]}")
        obs.check(got_gs.tasks() == gs.tasks(), "roundtrip/op-metrics", f"{tag} via {how}: tasks {got_gs.tasks()} != {gs.tasks()}")
        for t in gs.tasks():
            obs.check(_norm(got_gs.metrics(t)) == _norm(gs.metrics(t)), "roundtrip/op-metrics", f"{tag} via {how}: metrics of task {t!r} differ")
        obs.check(r.race_id == race.race_id and r.track == race.track_name and r.car == race.car, "roundtrip/race", f"{tag} via {how}: race identity differs")
        if how == "find_by_race_id":
            _check_flat(got_gs, tag + "/read-back", obs)
    return back


# ------------------------------------------------------------------------------------------------ run
def run_case(case, obs):
    root = tempfile.mkdtemp(prefix="verif-c08-")
    try:
        _run(case, obs, root)
    finally:
        shutil.rmtree(root, ignore_errors=True)


def _run(case, obs, root):
    race_case = case["race"]
    race_id = "race-0001"
    cfg, trk, challenge, store, model = R.materialize(race_case, root, race_id)
    _check_percentile_sets(obs)
    _check_store(store, model, case.get("probe_p", 25), obs)

    race = R.make_race(cfg, trk, challenge)
    stats = metrics.calculate_results(store, race)
    _check_summary(stats, model, obs)
    _check_flat(stats, "calculated", obs)
    race.add_results(stats)
    _check_roundtrip(cfg, race, stats, obs, "calculated")

    if case.get("extra"):
        import datetime

        # (race ids are free text with --race-id: the later race's id starts with the earlier one's, like nightly-1 and nightly-10)
        cfg2 = R.make_config(root, "race-00010", ts=R.RACE_TS + datetime.timedelta(days=1))
        gs2 = metrics.GlobalStats(case["extra"])
        race2 = R.make_race(cfg2, trk, challenge)
        race2.add_results(gs2)
        obs.check(_norm(gs2.as_dict()) == _norm(case["extra"]), "roundtrip/global-stats-ctor", "GlobalStats(d).as_dict() != d for a complete result dict")
        _check_flat(gs2, "structure", obs)
        _check_roundtrip(cfg2, race2, gs2, obs, "structure")
        # the first race is still there and unchanged
        both = metrics.FileRaceStore(cfg2).list()
        obs.check(sorted(r.race_id for r in both) == ["race-0001", "race-00010"], "roundtrip/not-listed", f"list returns {[r.race_id for r in both]}")
        first = metrics.FileRaceStore(cfg2).find_by_race_id("race-0001")
        obs.check(_norm(metrics.GlobalStats(first.results).as_dict()) == _norm(stats.as_dict()), "roundtrip/global", "first race changed after storing a second one")
        obs.cls("extra-results")

    # ---- classes / non-trivial
    specs = race_case["tasks"]
    both_types = threshold = False
    for spec in specs:
        m = model.tasks[spec["name"]]
        for metric in R.TASK_METRICS:
            n, w = len(m["normal"][metric]), len(m["warm"][metric])
            if n and w:
                both_types = True
            if metric in R.REQUEST_METRICS:
                if n in R.THRESHOLD_COUNTS:
                    threshold = True
                if n >= 998:
                    obs.cls("count>=998")
                if n >= 9999:
                    obs.cls("count>=9999")
            if n >= 2 and len(set(m["normal"][metric])) < n:
                obs.cls("repeated-values")
        if any(m["fail_n"]):
            obs.cls("failures")
        if any(m["fail_n"]) and not spec["report"]:
            obs.cls("unreported-task-with-errors")
        if not spec["report"]:
            obs.cls("not-in-reporting")
        obs.cls("shape:" + spec["shape"])
        tp = m["normal"]["throughput"]
        if tp and 0 in tp:
            obs.cls("zero-throughput-value")
    if _zero_dropped_region(case):
        obs.cls("zero-throughput-mean-or-median")
    if len(specs) >= 2:
        obs.cls("tasks>=2")
    if any(len(g) > 1 for g in race_case["layout"]):
        obs.cls("parallel")
    if both_types:
        obs.cls("both-sample-types")
    if threshold:
        obs.cls("threshold-count")
    if race_case.get("globals"):
        obs.cls("globals")
    obs.mark_nontrivial(len(specs) >= 2 and both_types and threshold)


# ------------------------------------------------------------------------------------------------ probes
def _probe_task(name, throughput):
    return {
        "name": name,
        "op": "bulk-op",
        "op_type": "bulk",
        "report": True,
        "order": "wn",
        "dt": 1.0,
        "tp_unit": "docs/s",
        "shape": "full",
        "streams": {
            "latency": {"n": [10.0, 20.0]},
            "service_time": {"n": [10.0, 20.0]},
            "processing_time": {"n": [11.0, 21.0]},
            "throughput": {"n": throughput},
        },
        "fail_n": {"mod": 1, "off": 0},
        "fail_w": None,
    }


PROBES = {
    # every request of the task failed -> 0 ops per throughput bucket -> throughput [0, 0]
    F13: {
        "race": {
            "tasks": [_probe_task("index-0", [0, 0])],
            "layout": [[0]],
            "globals": None,
            "track_meta": None,
            "auto_challenge": False,
            "car": ["defaults"],
            "user_tags": {},
        },
        "extra": None,
        "probe_p": 25,
    }
}
