"""
C15 - The track/team branch used is the documented best match for the ES version.

Real code: esrally.utils.versions.best_match (pure cases) and, in the thorough tier, esrally.utils.repo.RallyRepository
(constructor + update) against real git repositories built per case (local-only, and cloned from a file:// remote), with
the checked-out ref read back with ``git rev-parse``.

Oracle: an independent reference implementation of the ordered rule list in docs/track.rst ("Custom Track Repositories")
returning the SET of acceptable answers, plus safety invariants that hold regardless of the reference (never another major,
never a later minor, never a patch-level branch other than the exact one, no exception).
"""
import hashlib
import functools
import os
import re
import shutil
import subprocess
import tempfile

from hypothesis import strategies as st

from esrally import exceptions
from esrally.utils import versions
from vlib import core

ID = "C15"
LEVEL = "exploration"
TECHNIQUE = (
    "exhaustive enumeration (all subsets of a branch universe x version grid) plus property-based search (Hypothesis) against an "
    "independent reference of the documented precedence; thorough tier: real git repositories driven through RallyRepository.update"
)
RULE = (
    "Pure cases: branch list = shuffled subset of names M, M.m, M.m.p, M.m.p-s (majors 1,5,6,7,8,9,10; minors 0,1,2,9,10,11,17; patches "
    "0,1,3; suffixes SNAPSHOT, beta1, rc2), biased towards the version's own major, plus master, main and unrelated names (feature/x, "
    "fix-123, 8.x, v7.1, 123-fix, 7-backport, 7.1-wip); version = M.m.p[-s] from the same pools, or None, '' or 'serverless'. "
    "Exhaustive sub-domain: every subset of a fixed branch universe (quick 12 names = 4096 subsets, thorough 14 names = 16384) x 60 "
    "versions. 1 case in 20 (thorough 1 in 60): git cases = such a branch set (always with master) materialised with git fast-import as a local-only "
    "repository or as a bare file:// remote that RallyRepository clones, optional v-tags, optional local branches left by earlier runs, "
    "a start on a look-alike of the wanted branch (1.7 / 7.7 / 7.0 for 7), optionally an earlier update for a nearby version and an uncommitted local edit, optionally branches that were deleted upstream between the clone and the next run of Rally, "
    "then the real RallyRepository.update(version). Non-trivial = the reference's winning rule is prior-minor, major or master and the "
    "set contains >= 1 distractor (branch of another major or of a later minor). Distinct = distinct canonical JSON."
)
ASSUMPTIONS = [
    "branch names carry no leading zeros (7.02) and a repository has no two spellings of one version",
    "names like 123-fix / 7-backport / 7.1-wip (suffix without patch) do not follow MAJOR[.MINOR[.PATCH[-SUFFIX]]]: they are unrelated branches; for the "
    "master rule both readings (unrelated / versioned with that major) are accepted",
    "when the master rule applies but the set has no master branch, both 'master' and 'no match' are accepted from best_match (the checkout then fails with an error)",
    "in the zone the statement leaves open (no rule applies, same highest major, version newer than every versioned branch) master and 'no match' are both accepted",
    "git cases: every repository has a master branch; for repositories with a remote an error and a matching v-tag are both accepted when nothing qualifies "
    "(the statement promises the tag only for local repositories); any esrally RallyError counts as 'reports an error'",
    "git 2.39 on PATH; remotes are file:// URLs (no network)",
]
BUDGET = {"quick": 3000, "thorough": 20000}
WALL_BUDGET_S = {"quick": 80, "thorough": 1500}
REQUIRED_CLASSES = {
    "rule:prior-minor": 200,
    "rule:major": 200,
    "rule:master-newer": 200,
    "rule:master-unknown": 100,
    "rule:none": 200,
    "rule:exact-minor": 100,
    "rule:exact-patch": 100,
    "rule:exact-suffix": 50,
    "distractor-later-minor": 200,
    "distractor-other-major": 200,
    "minor-zero-branch-present": 100,
}

MAJORS = [1, 5, 6, 7, 8, 9, 10]
MINORS = [0, 1, 2, 9, 10, 11, 17]
PATCHES = [0, 1, 3]
SUFFIXES = ["SNAPSHOT", "beta1", "rc2"]
UNRELATED = ["main", "feature/x", "fix-123", "8.x", "v7.1", "release"]
LOOSE = ["123-fix", "7-backport", "7.1-wip"]
F1 = "prior-minor/zero"
F2 = "exception/suffix-without-patch"
F_REMOTE_MISS = "git-remote/master-after-remote-miss"

# ------------------------------------------------------------------------------------------------ reference (from docs/track.rst)
_VERSION = re.compile(r"^(0|[1-9][0-9]*)\.(0|[1-9][0-9]*)\.(0|[1-9][0-9]*)(?:-(.+))?$")
_SCHEME = re.compile(r"^(0|[1-9][0-9]*)(?:\.(0|[1-9][0-9]*)(?:\.(0|[1-9][0-9]*)(?:-(.+))?)?)?$")
_LOOSE = re.compile(r"^([0-9]+)(?:\.([0-9]+))?-.+$")


@functools.lru_cache(maxsize=None)
def _parse_branch(name):
    m = _SCHEME.match(name)
    if not m:
        return None
    return (int(m.group(1)), None if m.group(2) is None else int(m.group(2)), None if m.group(3) is None else int(m.group(3)), m.group(4))


@functools.lru_cache(maxsize=None)
def _is_loose(name):
    return _parse_branch(name) is None and _LOOSE.match(name) is not None


def reference(branches, version):
    """-> dict(rule, acceptable (set of str|None), winner)"""
    names = set(branches)
    master_ok = {"master"} if "master" in names else {"master", None}
    if version is None or version == "" or version == "serverless":
        return {"rule": "master-unknown", "acceptable": master_ok, "winner": "master"}
    m = _VERSION.match(version)
    if not m:
        raise core.HarnessError(f"version outside the generated domain: {version!r}")
    major, minor, patch, suffix = int(m.group(1)), int(m.group(2)), int(m.group(3)), m.group(4)
    if suffix:
        exact = f"{major}.{minor}.{patch}-{suffix}"
        if exact in names:
            return {"rule": "exact-suffix", "acceptable": {exact}, "winner": exact}
    exact = f"{major}.{minor}.{patch}"
    if exact in names:
        return {"rule": "exact-patch", "acceptable": {exact}, "winner": exact}
    exact = f"{major}.{minor}"
    if exact in names:
        return {"rule": "exact-minor", "acceptable": {exact}, "winner": exact}
    prior = []
    for n in names:
        p = _parse_branch(n)
        if p and p[0] == major and p[1] is not None and p[2] is None and p[1] <= minor:
            prior.append((p[1], n))
    if prior:
        w = max(prior)[1]
        return {"rule": "prior-minor", "acceptable": {w}, "winner": w}
    if str(major) in names:
        return {"rule": "major", "acceptable": {str(major)}, "winner": str(major)}
    # master only when newer than every versioned branch
    strict = [p for p in (_parse_branch(n) for n in names) if p]
    loose = [(int(_LOOSE.match(n).group(1)), None, None, "x") for n in names if _is_loose(n)]
    acceptable = set()
    rules = set()
    for versioned in ([strict] if not loose else [strict, strict + loose]):
        if all(major > b[0] for b in versioned):
            acceptable |= master_ok
            rules.add("master-newer")
        elif major == max(b[0] for b in versioned) and all((major, minor, patch) > (b[0], b[1] or 0, b[2] or 0) for b in versioned):
            acceptable |= {"master", None}
            rules.add("open-zone")
        else:
            acceptable.add(None)
            rules.add("none")
    rule = "master-newer" if rules == {"master-newer"} else "none" if rules == {"none"} else "open-zone"
    return {"rule": rule, "acceptable": acceptable, "winner": "master" if rule == "master-newer" else None}


@functools.lru_cache(maxsize=None)
def _version_parts(version):
    m = _VERSION.match(version or "")
    return (int(m.group(1)), int(m.group(2)), int(m.group(3)), m.group(4)) if m else None


def _fallback_consulted(branches, version):
    """the exact rules (suffix, patch, minor) do not decide"""
    ref = reference(branches, version)
    return ref["rule"] not in ("master-unknown", "exact-suffix", "exact-patch", "exact-minor")


def _in_f1(branches, version):
    ref = reference(branches, version)
    return ref["rule"] == "prior-minor" and _parse_branch(ref["winner"])[1] == 0


def _in_f2(branches, version):
    return any(_is_loose(b) for b in branches) and _fallback_consulted(branches, version)


def _all_names(case):
    return list(case["branches"]) + [b for b in case.get("local_only", []) if b not in case["branches"]]


def _in_f15(case):
    """remote repository, nothing matches remotely, and the local branches alone make master look 'newer than everything'"""
    if case.get("mode") != "git-remote":
        return False
    vp = _version_parts(case["version"])
    if vp is None:
        return False
    if reference(case["branches"], case["version"])["winner"] is not None:
        return False
    local = ["master"] + list(case.get("prior_local", [])) + list(case.get("local_only", []))
    ref_local = reference(local, case["version"])
    ref_all = reference(_all_names(case), case["version"])
    return ref_local["rule"] == "master-newer" and "master" not in ref_all["acceptable"]


def is_excluded(case, known):
    v = case["version"]
    sets = [case["branches"]]
    if case.get("mode") == "git-remote":  # best_match is also consulted with the local branches alone
        sets += [_all_names(case), ["master"] + list(case.get("prior_local", [])) + list(case.get("local_only", []))]
    if core.signature_matches(F1, known) and any(_in_f1(b, v) for b in sets):
        return True
    if core.signature_matches(F2, known) and any(_in_f2(b, v) for b in sets):
        return True
    if core.signature_matches(F_REMOTE_MISS, known) and _in_f15(case):
        return True
    return False


# ------------------------------------------------------------------------------------------------ execution
def setup():
    import logging  # pylint: disable=import-outside-toplevel

    lg = logging.getLogger("esrally")
    lg.addHandler(logging.NullHandler())
    lg.propagate = False
    from esrally.utils import console  # pylint: disable=import-outside-toplevel

    console.QUIET = True  # "[WARNING] Local changes ... prevent update" is expected output for dirty working copies


def _classify(case, ref, obs):
    branches, version = case["branches"], case["version"]
    obs.cls(f"rule:{ref['rule']}", f"mode:{case.get('mode', 'pure')}")
    vp = _version_parts(version)
    other_major = later_minor = False
    for b in branches:
        p = _parse_branch(b)
        if p is None:
            if _is_loose(b):
                obs.cls("loose-name-present")
            elif b not in ("master",):
                obs.cls("unrelated-present")
            continue
        if p[1] == 0 and p[2] is None:
            obs.cls("minor-zero-branch-present")
        if vp:
            if p[0] != vp[0]:
                other_major = True
            elif p[1] is not None and p[1] > vp[1]:
                later_minor = True
    if other_major:
        obs.cls("distractor-other-major")
    if later_minor:
        obs.cls("distractor-later-minor")
    if ref["rule"] == "prior-minor" and _parse_branch(ref["winner"])[1] == 0:
        obs.cls("prior-minor-is-M.0")
    if "master" not in branches:
        obs.cls("no-master-branch")
    obs.mark_nontrivial(ref["rule"] in ("prior-minor", "major", "master-newer", "master-unknown", "open-zone") and (other_major or later_minor))


def _safety(got, branches, version, obs, where):
    """invariants that hold whatever the reference says"""
    if got is None or got == "master":
        return
    if not obs.check(got in branches, "safety/not-a-branch", f"{where}: {got!r} is not one of the branches {branches}"):
        return
    p = _parse_branch(got)
    vp = _version_parts(version)
    if not obs.check(p is not None and vp is not None, "safety/unversioned-branch-selected", f"{where}: selected {got!r} for version {version!r}"):
        return
    obs.check(p[0] == vp[0], "safety/other-major", f"{where}: selected {got!r} (major {p[0]}) for version {version!r}; branches {branches}")
    if p[1] is not None and p[0] == vp[0]:
        obs.check(p[1] <= vp[1], "safety/later-minor", f"{where}: selected {got!r} (minor {p[1]}) for version {version!r}; branches {branches}")
    if p[2] is not None:
        exact = {f"{vp[0]}.{vp[1]}.{vp[2]}", f"{vp[0]}.{vp[1]}.{vp[2]}-{vp[3]}"}
        obs.check(got in exact, "safety/other-patch-level", f"{where}: selected patch-level branch {got!r} for version {version!r}; branches {branches}")


def _mismatch_signature(ref):
    if ref["rule"] == "prior-minor" and _parse_branch(ref["winner"])[1] == 0:
        return F1
    return f"mismatch/{ref['rule']}"


def _run_pure(case, obs):
    branches, version = case["branches"], case["version"]
    ref = reference(branches, version)
    _classify(case, ref, obs)
    try:
        got = versions.best_match(list(branches), version)
    except TypeError as e:
        if any(_is_loose(b) for b in branches):
            obs.violation(F2, f"best_match({branches}, {version!r}) raised {type(e).__name__}: {e}; the reference selects {sorted(map(str, ref['acceptable']))} ({ref['rule']})")
            return
        raise
    _safety(got, branches, version, obs, "best_match")
    obs.check(
        got in ref["acceptable"],
        _mismatch_signature(ref),
        f"best_match({branches}, {version!r}) = {got!r}; documented precedence ({ref['rule']}) allows {sorted(map(str, ref['acceptable']))}",
    )


# ---- real git -------------------------------------------------------------------------------------
_GIT_ENV = {
    "GIT_CONFIG_GLOBAL": "/dev/null",
    "GIT_CONFIG_NOSYSTEM": "1",
    "GIT_AUTHOR_NAME": "verif",
    "GIT_AUTHOR_EMAIL": "verif@example.org",
    "GIT_COMMITTER_NAME": "verif",
    "GIT_COMMITTER_EMAIL": "verif@example.org",
    "GIT_TERMINAL_PROMPT": "0",
    "LC_ALL": "C",
}


def _git(*args, cwd=None, data=None):
    r = subprocess.run(["git", *args], cwd=cwd, input=data, capture_output=True, check=False)
    if r.returncode != 0:
        raise core.HarnessError(f"git {' '.join(args)} failed: {r.stdout.decode(errors='replace')} {r.stderr.decode(errors='replace')}")
    return r.stdout.decode().strip()


def _build_repo(path, branches, tags, bare):
    _git("init", "-q", "-b", "master", *(["--bare"] if bare else []), path)
    stream = []
    for kind, names in (("heads", branches), ("tags", tags)):
        for n in names:
            content = f"{kind}/{n}\n"
            msg = f"{kind}/{n}"
            stream.append(
                f"commit refs/{kind}/{n}\ncommitter verif <verif@example.org> 1700000000 +0000\ndata {len(msg)}\n{msg}\n"
                f"M 644 inline track.json\ndata {len(content)}\n{content}\n"
            )
    _git("-C", path, "fast-import", "--quiet", data="".join(stream).encode())
    if not bare:
        _git("-C", path, "reset", "-q", "--hard", "master")


def _run_git(case, obs):
    from esrally.utils import repo  # pylint: disable=import-outside-toplevel

    if shutil.which("git") is None:
        obs.inconclusive = "git not on PATH"
        return
    mode, branches, version = case["mode"], case["branches"], case["version"]
    tags = case.get("tags", [])
    prior_local = case.get("prior_local", [])
    local_only = case.get("local_only", [])
    if "master" not in branches:
        raise core.HarnessError("git cases always have a master branch")
    all_names = _all_names(case)
    ref_remote = reference(branches, version)
    ref_all = reference(all_names, version)
    _classify(case, ref_all, obs)
    if tags:
        obs.cls("git:tags-present")
    if prior_local or local_only:
        obs.cls("git:local-branches-from-earlier-runs")
    if case.get("lookalike"):
        obs.cls("git:on-lookalike-branch")
    if case.get("slash_branches"):
        obs.cls("git:unrelated-branch-with-slash-and-version-tail")

    td = tempfile.mkdtemp(prefix="verif-c15-")
    saved_env = {k: os.environ.get(k) for k in list(_GIT_ENV) + ["HOME"]}
    os.environ.update(_GIT_ENV, HOME=td)
    try:
        root = os.path.join(td, "tracks")
        os.makedirs(root)
        if mode == "git-local":
            repo_dir = os.path.join(root, "default")
            _build_repo(repo_dir, branches, tags, bare=False)
            start = case.get("current", "master")
            if start != "master":
                _git("-C", repo_dir, "checkout", "-q", start)
            url = None
        else:
            origin = os.path.join(td, "origin.git")
            _build_repo(origin, list(branches) + list(case.get("deleted_upstream", [])), tags, bare=True)
            url = "file://" + origin
        r = repo.RallyRepository(url, root, "default", "tracks", offline=False)
        repo_dir = r.repo_dir
        for b in case.get("deleted_upstream", []):
            _git("-C", origin, "branch", "-q", "-D", b)
            obs.cls("git:branch-deleted-upstream-after-the-clone")
        if case.get("deleted_upstream"):
            # the next run of Rally: a new RallyRepository on the existing working copy (which fetches)
            r = repo.RallyRepository(url, root, "default", "tracks", offline=False)
        if mode == "git-remote":
            for b in prior_local:
                _git("-C", repo_dir, "branch", "-q", b, f"origin/{b}")
            for b in local_only:
                sha = _git("-C", repo_dir, "commit-tree", "-m", f"heads/{b}", "HEAD^{tree}")
                _git("-C", repo_dir, "update-ref", f"refs/heads/{b}", sha)
        if case.get("first_version") is not None:
            # an earlier run for another version: whatever state Rally itself left behind is a legitimate starting point
            try:
                r.update(case["first_version"])
            except exceptions.RallyError:
                pass
            obs.cls("git:second-update")
        if case.get("detached"):
            # an earlier run pinned the working copy to a commit (--track-revision, a worker's revision sync, the v-tag fallback): HEAD is detached
            _git("-C", repo_dir, "checkout", "-q", "--detach")
            obs.cls("git:detached-head")
        head_before = _git("-C", repo_dir, "rev-parse", "--abbrev-ref", "HEAD")
        if case.get("dirty"):
            # an uncommitted edit of a file that differs on every branch: git refuses to switch branches
            with open(os.path.join(repo_dir, "track.json"), "a", encoding="utf-8") as f:
                f.write("local edit\n")
            obs.cls("git:dirty-working-copy")
        error = None
        try:
            r.update(version)
        except exceptions.RallyError as e:
            error = e
        head_subject = _git("-C", repo_dir, "show", "-s", "--format=%s", "HEAD")
        head_branch = _git("-C", repo_dir, "rev-parse", "--abbrev-ref", "HEAD")
        head_short = _git("-C", repo_dir, "rev-parse", "HEAD")
        recorded_revision = r.revision
    finally:
        for k, v in saved_env.items():
            if v is None:
                os.environ.pop(k, None)
            else:
                os.environ[k] = v
        shutil.rmtree(td, ignore_errors=True)

    # what is checked out: "heads/<branch>" or "tags/<tag>" (every ref has its own commit whose subject names it)
    kind, _, name = head_subject.partition("/")
    where = f"{mode} branches={branches} local={['master'] + prior_local + local_only if mode == 'git-remote' else branches} tags={tags} version={version!r}"
    observed = f"checked out {head_subject!r} (HEAD -> {head_branch}), error={error!r}"
    ref = ref_all if mode == "git-remote" else ref_remote
    if mode == "git-remote" and ref_remote["winner"] is not None:
        ref = ref_remote  # a remote match wins over anything local
    tag_candidates = []
    vp = _version_parts(version)
    if vp:
        variants = ([f"{vp[0]}.{vp[1]}.{vp[2]}-{vp[3]}"] if vp[3] else []) + [f"{vp[0]}.{vp[1]}.{vp[2]}", f"{vp[0]}.{vp[1]}", f"{vp[0]}"]
        tag_candidates = [f"v{v}" for v in variants if f"v{v}" in tags]

    if error is None and kind == "heads":
        _safety(name, all_names, version, obs, where)
    # the revision Rally remembers (and hands to every other actor of the race, which pin their working copy to it) is the commit that
    # is checked out; it may be left unset when nothing had to be switched
    if error is None and recorded_revision is not None:
        obs.check(recorded_revision == head_short, "git/recorded-revision-is-not-the-checked-out-commit",
                  f"{where}: {observed}; repo.revision = {recorded_revision!r} but HEAD is {head_short!r}")
        obs.cls("git:revision-recorded")
    winners = {w for w in ref["acceptable"] if w is not None}
    ok = False
    if error is None and kind == "heads" and name in winners and head_branch == name:
        ok = True
    if None in ref["acceptable"]:
        if tag_candidates:
            if error is None and kind == "tags" and name in tag_candidates:  # any matching v-tag (the statement does not rank them)
                ok = True
            if mode == "git-remote" and error is not None:
                ok = True  # the statement promises the tag only for local repositories
        elif error is not None:
            ok = True
    if case.get("dirty") and isinstance(error, exceptions.DataError) and head_before not in winners:
        ok = True  # the local edit prevents the switch to the right branch: an explicit error, and the working copy stays where it was
        obs.cls("git:dirty-working-copy-prevents-switch")
    if not ok:
        if mode == "git-remote" and error is None and head_subject == "heads/master" and _in_f15(case):
            sig = F_REMOTE_MISS
        elif ref["rule"] == "prior-minor" and _parse_branch(ref["winner"])[1] == 0:
            sig = F1
        else:
            sig = f"git/{ref['rule']}"
        want = sorted(map(str, ref["acceptable"]))
        obs.violation(sig, f"{where}: {observed}; documented precedence ({ref['rule']}) allows {want}" + (f", else one of the tags {tag_candidates}" if tag_candidates else ", else an error"))


def run_case(case, obs):
    if case.get("mode", "pure") == "pure":
        _run_pure(case, obs)
    else:
        try:
            _run_git(case, obs)
        except TypeError as e:
            if any(_is_loose(b) for b in _all_names(case)):
                obs.violation(F2, f"RallyRepository.update raised {type(e).__name__}: {e} for branches {_all_names(case)} version {case['version']!r}")
            else:
                raise


# ------------------------------------------------------------------------------------------------ generator
def _name(major, minor=None, patch=None, suffix=None):
    s = str(major)
    if minor is not None:
        s += f".{minor}"
        if patch is not None:
            s += f".{patch}"
            if suffix:
                s += f"-{suffix}"
    return s


@st.composite
def _version(draw):
    kind = draw(st.sampled_from(["v"] * 12 + ["unknown"]))
    if kind == "unknown":
        return draw(st.sampled_from([None, "", "serverless"]))
    v = f"{draw(st.sampled_from(MAJORS + [6, 7, 8]))}.{draw(st.sampled_from(MINORS + [3]))}.{draw(st.sampled_from(PATCHES))}"
    if draw(st.sampled_from([False, False, True])):
        v += "-" + draw(st.sampled_from(SUFFIXES))
    return v


def _neighbourhood(vp):
    """branch names around a version: the candidates of every rule plus the distractors the statement talks about"""
    major, minor, patch, suffix = vp
    lower = sorted({x for x in (minor - 1, minor - 2, minor // 2, 1) if 0 < x < minor})
    names = [_name(major), _name(major), _name(major, minor), _name(major, minor, patch), _name(major, minor, patch, suffix or "beta1")]
    names += [_name(major, x) for x in lower] * 2
    names += [_name(major, 0)] if minor > 0 else []
    names += [_name(major, minor + 1), _name(major, minor + 6), _name(major, 17 if minor < 17 else 18)]  # later minors
    names += [_name(major, minor, patch + 1), _name(major, max(minor - 1, 0), patch), _name(major, minor, patch, "rc2" if suffix != "rc2" else "beta1")]
    names += [_name(major - 1), _name(major - 1, minor), _name(major - 1, 17), _name(major + 1), _name(major + 1, 0), _name(major + 1, minor, patch)]
    names += [_name(major + 2), _name(1, 7), _name(major - 1, 17, 3, "SNAPSHOT")]
    out = []
    for n in names:
        if not n.startswith("-") and n not in out:
            out.append(n)
    return out


_FAR = [_name(a) for a in MAJORS] + [_name(a, b) for a in MAJORS for b in MINORS] + [_name(a, b, c) for a in (5, 7, 8) for b in (0, 10) for c in PATCHES]


@st.composite
def _branch_set(draw, version, loose_ok, force_master=False):
    vp = _version_parts(version) or (draw(st.sampled_from([6, 7, 8])), draw(st.sampled_from([0, 2, 10])), 0, None)
    names = draw(st.lists(st.sampled_from(_neighbourhood(vp)), min_size=0, max_size=7, unique=True))
    names += [n for n in draw(st.lists(st.sampled_from(_FAR), max_size=2, unique=True)) if n not in names]
    if force_master or draw(st.sampled_from([True] * 9 + [False])):
        names.append("master")
    names += draw(st.lists(st.sampled_from(UNRELATED), max_size=2, unique=True))
    if loose_ok and draw(st.sampled_from([False] * 9 + [True])):
        names.append(draw(st.sampled_from(LOOSE)))
    return draw(st.permutations(names))


@st.composite
def _pure_case(draw, known):
    version = draw(_version())
    return {"mode": "pure", "branches": list(draw(_branch_set(version, True))), "version": version}


@st.composite
def _git_case(draw, known):
    version = draw(_version())
    mode = draw(st.sampled_from(["git-local", "git-remote"]))
    # no branch called v<something>: it would be ambiguous with a tag of the same name
    branches = [b for b in draw(_branch_set(version, not core.signature_matches(F2, known), force_master=True)) if not b.startswith("v")]
    case = {"mode": mode, "branches": list(branches), "version": version}
    vp = _version_parts(version)
    if vp and draw(st.booleans()):
        # unrelated branches whose name has a slash and ends like a version (archive/7.4, users/joe/9): they are no versioned branches
        pool = [f"archive/{vp[0]}.{vp[1]}", f"rel/{vp[0]}", f"users/joe/{vp[0] + 1}", f"old/{vp[0]}.{max(vp[1] - 1, 0)}", f"wip/{vp[0]}.{vp[1]}.{vp[2]}"]
        for b in draw(st.lists(st.sampled_from(pool), min_size=1, max_size=2, unique=True)):
            if b.rpartition("/")[2] not in case["branches"]:  # (git cannot hold both a branch x and a branch x/y; keep the tail free as well)
                case["branches"].append(b)
        case["slash_branches"] = True
    tags = []
    if vp and draw(st.booleans()):
        pool = [f"v{_name(vp[0])}", f"v{_name(vp[0], vp[1])}", f"v{_name(vp[0], vp[1], vp[2])}", f"v{vp[0] + 1}", f"v{_name(vp[0], vp[1] + 1)}", "v1.0.0", "release-1"]
        if vp[3]:
            pool.append(f"v{_name(*vp)}")
        tags = draw(st.lists(st.sampled_from(pool), max_size=3, unique=True))
    case["tags"] = tags
    if mode == "git-local":
        case["current"] = draw(st.sampled_from(branches))
        if draw(st.integers(0, 3)):
            # the repository sits on a branch whose name merely ends with (or starts like) the branch that should be chosen, e.g. on 1.7 / 7.7
            # when 7 is wanted: an earlier run for another version leaves it there
            w = reference(branches, version)["winner"]
            if w and w != "master":
                look = [b for b in branches if b != w and (b.endswith(w) or b.startswith(w))]
                for c in (f"1.{w}", f"{w.split('.')[0]}.{w}", f"{w}.0"):
                    if c not in branches and _parse_branch(c) is not None and reference(list(branches) + [c], version)["winner"] == w:
                        look.append(c)
                if look:
                    cur = draw(st.sampled_from(look))
                    if cur not in case["branches"]:
                        case["branches"].append(cur)
                    case["current"] = cur
                    case["lookalike"] = True
    else:
        others = [b for b in branches if b != "master"]
        case["prior_local"] = draw(st.lists(st.sampled_from(others), max_size=2, unique=True)) if others and draw(st.booleans()) else []
        case["local_only"] = []
        if vp and draw(st.integers(0, 5)) == 0:
            cand = draw(st.sampled_from([_name(vp[0]), _name(vp[0], vp[1]), _name(max(vp[0] - 1, 0))]))
            if cand not in branches:
                case["local_only"] = [cand]
    case["dirty"] = draw(st.sampled_from([False, False, False, True]))
    case["detached"] = draw(st.sampled_from([False, False, True]))
    if vp and draw(st.integers(0, 2)) == 0:
        # the checked update follows an earlier one for a nearby version
        near = [f"{vp[0]}.{vp[1] + 1}.0", f"{vp[0]}.{max(vp[1] - 1, 0)}.{vp[2]}", f"{vp[0] + 1}.0.0", f"{max(vp[0] - 1, 0)}.17.3", f"1.7.3", f"{vp[0]}.{vp[0]}.1"]
        case["first_version"] = draw(st.sampled_from(near))
    # (hashed ticket: drawn as a boolean the class came up in 3 of 54 remote cases)
    ticket = int(hashlib.sha256(str(draw(st.integers(0, 2**32))).encode()).hexdigest(), 16)
    if mode == "git-remote" and vp and "first_version" not in case and ticket % 3 != 0:
        # branches that existed upstream when Rally cloned the repository and have been deleted there since (retired, turned into tags):
        # they are no branches of the repository any more, although they would match the version
        pool = [b for b in (_name(vp[0], vp[1]), _name(vp[0]), _name(vp[0], max(vp[1] - 1, 0)), _name(vp[0], vp[1], vp[2]))
                if b not in case["branches"] and b not in case["local_only"] and not any(x.rpartition("/")[2] == b for x in case["branches"])]
        if pool:
            case["deleted_upstream"] = draw(st.lists(st.sampled_from(pool), min_size=1, max_size=2, unique=True))
    return case


def strategy(tier, known):
    every = 60 if tier == "thorough" else 20
    return st.integers(0, every - 1).flatmap(lambda k: _git_case(known) if k == 0 else _pure_case(known))


# ------------------------------------------------------------------------------------------------ exhaustive sub-domain
UNIVERSE_QUICK = ["master", "5", "7", "7.0", "7.2", "7.11", "7.11.0", "7.3.0-beta1", "8", "8.0", "feature/x", "6.8"]
UNIVERSE_THOROUGH = UNIVERSE_QUICK + ["7.3.1", "7-backport"]


def _grid_versions():
    """60 versions: unknown ones, a (major, minor) grid around the universe, suffix variants, far-away versions"""
    vs = [None, "", "serverless"]
    for major in (6, 7, 8, 9):
        for minor in (0, 1, 2, 3, 11, 12):
            vs.append(f"{major}.{minor}.{(major + minor) % 2}")
    vs += ["7.0.0", "7.3.1", "7.11.3", "7.11.1", "8.0.3", "5.6.0", "5.0.1", "7.2.3", "7.12.3", "8.17.3", "10.0.0", "1.7.3", "7.10.3", "7.9.0", "7.17.1", "8.9.3"]
    vs += ["7.3.0-beta1", "7.3.0-rc2", "7.11.0-SNAPSHOT", "7.0.0-beta1", "8.0.0-SNAPSHOT", "8.1.0-SNAPSHOT", "7.3.1-SNAPSHOT", "9.0.0-SNAPSHOT"]
    vs += ["6.8.0", "6.8.1-SNAPSHOT", "6.9.0", "7.1.3", "8.0.1", "8.2.0-rc2", "5.0.0-beta1", "10.1.0-SNAPSHOT", "9.9.9"]
    if len(set(vs)) != len(vs) or len(vs) != 60:
        raise core.HarnessError(f"version grid has {len(set(vs))} distinct of {len(vs)} entries, expected 60")
    return vs


_SKIPPED = {"n": None}


def _enumerate(tier):
    universe = UNIVERSE_THOROUGH if tier == "thorough" else UNIVERSE_QUICK
    vs = _grid_versions()
    for mask in range(1 << len(universe)):
        branches = [b for i, b in enumerate(universe) if mask >> i & 1]
        for v in vs:
            yield {"mode": "pure", "branches": branches, "version": v}


def enumerate_cases(tier):
    known = core.KnownFindings().known_signatures(ID)
    _SKIPPED["n"] = 0
    for case in _enumerate(tier):
        if known and is_excluded(case, known):
            _SKIPPED["n"] += 1
        else:
            yield case


def evidence_extra():
    import sys  # pylint: disable=import-outside-toplevel

    tier = sys.argv[sys.argv.index("--tier") + 1] if "--tier" in sys.argv else os.environ.get("VERIF_TIER", "quick")
    if _SKIPPED["n"] is None:  # sharded run: the parent did not enumerate
        known = core.KnownFindings().known_signatures(ID)
        _SKIPPED["n"] = sum(1 for c in _enumerate(tier) if known and is_excluded(c, known))
    universe = UNIVERSE_THOROUGH if tier == "thorough" else UNIVERSE_QUICK
    return {
        "exhaustive_subdomain": f"all {1 << len(universe)} subsets of {universe} x {len(_grid_versions())} versions; cases inside a known-finding region are skipped and counted",
        "exhaustive_subdomain_skipped_known": _SKIPPED["n"],
        "real_git_cases": "thorough tier only (about 1 in 60 generated cases)",
    }


# ------------------------------------------------------------------------------------------------ probes
PROBES = {
    F1: {"mode": "pure", "branches": ["7.0", "6", "master"], "version": "7.3.0"},
    F2: {"mode": "pure", "branches": ["123-fix", "7", "master"], "version": "7.3.0"},
    F_REMOTE_MISS: {"mode": "git-remote", "branches": ["master", "7"], "version": "6.0.0", "tags": [], "prior_local": [], "local_only": []},
}
