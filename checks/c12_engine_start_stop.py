"""
C12 - Cluster engine start/stop is all-or-nothing across hosts and reports failures.

Engine E1 + fault injection (sim.engine): the real MechanicActor / Dispatcher / NodeMechanicActor / mechanic.create /
Mechanic.start_engine / stop_engine run on the actor simulator against recording node-level stand-ins (supplier, provisioners,
launcher, cleanup, race store, results store). Remote Rally daemons join (and possibly leave) at generated virtual times; one
optional fault per case. Oracle: the call log of the stand-ins vs the messages race control receives.
"""
from hypothesis import strategies as st

from sim import engine

ID = "C12"
LEVEL = "fault_enumeration"
ENGINE = "E1 virtual-time actor simulator + fault injection + Hypothesis"
TECHNIQUE = "fault injection on a deterministic actor simulator: generated target-host lists x daemon join orders x ack delays x one fault; call-log invariants as oracle"
RULE = (
    "Generated: 1-4 distinct (ip, port) target hosts from {127.0.0.1, three remote ips} x {9200, 9201}, each repeated 1-3 times (in a third of the cases one of them comes back later in the list: A,B,A) "
    "(several nodes per host); externally provisioned or not; preserve-install on/off; race known to the race store or not; remote "
    "daemons already registered or joining at {0, 0.5, 3, 9} s in any order, optionally an unrelated daemon; per-message delays from "
    "{0, 1/1024, 0.25, 2, 7} s; zero or one fault: the launcher of the k-th host raises, or a remote daemon leaves the convention at "
    "{0.25, 1, 4, 9.5, 12} s during start-up; or (no failure) a remote daemon goes away 0-2 s after all node mechanics of its machine have confirmed the stop; per node what has become of its process by the time the engine is stopped (alive, died during the benchmark, gone at the moment it is terminated, does not react to SIGTERM), stopped by the real ProcessLauncher.stop on scripted psutil processes. Non-trivial = >= 2 hosts with >= 1 remote and acknowledgements (NodesStarted) arriving in "
    "an order different from the order in which StartNodes was sent, or a fault that fired. Distinct = distinct canonical JSON."
)
ASSUMPTIONS = [
    "Thespian semantics as rendered in sim/actors.py, including: a listener registered with notifyOnSystemRegistrationChanges is told about already registered remote systems, "
    "a remote system that leaves produces ActorSystemConventionUpdate(remoteAdded=False) for listeners and ChildActorExited for parents of actors that lived there",
    "every expected daemon eventually joins unless the fault says otherwise (a daemon that never appears makes Rally wait by design)",
    "provisioner internals and the launcher's start are below the observation point of the property (stand-ins); the launcher's stop is the real ProcessLauncher.stop, run on scripted psutil processes and recording telemetry stand-ins",
    "after a reported failure race control lets its actors exit (ActorExitRequest to the mechanic), as racecontrol.race() does",
]
BUDGET = {"quick": 7000, "thorough": 40000}
REQUIRED_CLASSES = {"dead-or-hanging-node-next-to-a-live-one": 300, "remote-host": 2000, "acks-out-of-order": 300, "fired:start-fails": 300, "fired:daemon-leaves": 100, "external": 400, "multi-node-host": 1500}


@st.composite
def _case(draw):
    n = draw(st.integers(1, 4))
    pairs = draw(st.lists(st.tuples(st.integers(0, 3), st.integers(0, 1)), min_size=n, max_size=n, unique=True))
    nodes = [[ip, port, draw(st.sampled_from([1, 1, 2, 3]))] for ip, port in pairs]
    if n >= 2 and draw(st.integers(0, 2)) == 0:
        # the same host:port comes back later in the list (A,B,A): its nodes are not adjacent entries
        back = draw(st.integers(0, n - 2))
        nodes.append([nodes[back][0], nodes[back][1], draw(st.sampled_from([1, 1, 2]))])
    remote_ips = sorted({ip for ip, _ in pairs if ip != 0})
    case = {
        "nodes": nodes,
        "external": draw(st.integers(0, 5)) == 0,
        "preserve": draw(st.booleans()),
        "race_found": draw(st.integers(0, 3)) != 0,
        "joins": {str(ip): draw(st.sampled_from([-1, 0, 1, 2, 3])) for ip in remote_ips},
        "unrelated": draw(st.sampled_from([None, None, 0, 1, 2])),
        "delays": draw(st.lists(st.integers(0, 5), min_size=1, max_size=10)),
        # what has become of the nodes' processes when the engine is stopped (cycled over the nodes in start order; see engine.PROC_STATES)
        "proc_states": draw(st.lists(st.integers(0, 5), min_size=1, max_size=6)),
        "fault": None,
    }
    kind = draw(st.sampled_from(["none", "none", "start-fails", "start-fails", "daemon-leaves", "daemon-leaves", "daemon-leaves-after-stop"]))
    if not case["external"]:
        if kind == "start-fails":
            case["fault"] = {"kind": "start-fails", "host": draw(st.integers(0, n - 1))}
        elif kind == "daemon-leaves" and remote_ips:
            case["fault"] = {"kind": "daemon-leaves", "ip": draw(st.integers(0, len(remote_ips) - 1)), "at": draw(st.integers(0, 4))}
        elif kind == "daemon-leaves-after-stop" and remote_ips:
            # no failure: a remote daemon goes away once its host has confirmed that its nodes are stopped (others may still be at it)
            case["fault"] = {"kind": "daemon-leaves-after-stop", "ip": draw(st.integers(0, len(remote_ips) - 1)), "after": draw(st.integers(0, 3))}
    return case


def strategy(tier, known):
    return _case()


def is_excluded(case, known):
    f = case.get("fault")
    return bool(f) and f["kind"] == "daemon-leaves" and any(k.startswith("no-failure-reported/daemon-left") for k in known)


def run_case(case, obs):
    r = engine.run_engine(case)
    log = r.log
    fault = case.get("fault")
    inbox = [(t, type(m).__name__) for t, m, _ in r.inbox]
    names = [n for _, n in inbox]
    if r.blocking:
        obs.violation("blocking-call", r.blocking)
        return
    # node ids per distinct host, as documented by nodes_by_host: consecutive ids in list order, grouped by (ip, port)
    expected = {}
    node_id = 0
    for ipi, porti, repeat in case["nodes"]:
        for _ in range(repeat):
            expected.setdefault((engine.IPS[ipi], engine.PORTS[porti]), []).append(f"rally-node-{node_id}")
            node_id += 1
    starts = log.of("launcher-start")
    stops = log.of("launcher-stop")
    fired = bool(fault) and "fired_at" in fault
    max_delay = max(engine.DELAYS[d % len(engine.DELAYS)] for d in case["delays"])

    if case["external"]:
        obs.check(not log.of("create") and not starts and not stops, "external-cluster-touched", f"{[e['kind'] for e in log.events]}")
        obs.check(names == ["EngineStarted", "EngineStopped"], "external-acks", f"inbox {names}")
        obs.cls("external")
        return

    if fault and "left_unobserved_at" in fault:
        # the daemon went away before Rally listened to the convention and before any of its actors lived there: for Rally this daemon
        # simply never appears, and it waits for it by design (see the comment in Dispatcher.receiveMsg_StartEngine)
        obs.cls("daemon-left-before-rally-listened")
        obs.inconclusive = "daemon left unobserved"
        return
    started_ok = log.of("launcher-started")
    # ---- whenever race control is told that the engine has started, every host has started all of its nodes before
    if "EngineStarted" in names:
        t_started = next(t for t, n in inbox if n == "EngineStarted")
        done = {}
        for e in started_ok:
            if e["t"] <= t_started + 1e-9:
                done.setdefault((e["ip"], e["port"]), []).extend(e["nodes"])
        obs.check(
            {k: sorted(v) for k, v in done.items()} == {k: sorted(v) for k, v in expected.items()},
            "engine-started-before-all-hosts",
            f"EngineStarted at {t_started}: started by then {done}, expected {expected}",
        )
        obs.check(names.count("EngineStarted") == 1, "engine-started-count", f"inbox {names}")
    if not fired:
        obs.check("EngineStarted" in names, "engine-never-started", f"no fault fired but inbox is {names} (end at {r.t_end})")
        obs.check("BenchmarkFailure" not in names, "unexpected-failure", lambda: f"inbox {names}: {[str(getattr(m, 'message', ''))[:200] for _, m, _ in r.inbox if type(m).__name__ == 'BenchmarkFailure']}")
        for e in starts:
            obs.check(len([x for x in starts if x["proc"] == e["proc"]]) == 1, "host-started-twice", f"{e['ip']}")
        # ---- stop: every started launcher stops exactly its nodes once; EngineStopped once, after the last stop
        obs.check(names.count("EngineStopped") == 1, "engine-stopped-count", f"inbox {names}")
        by_launcher = {}
        for e in stops:
            by_launcher.setdefault(e["launcher"], []).append(e)
        for e in started_ok:
            s = by_launcher.get(e["launcher"], [])
            obs.check(len(s) == 1, "stop-count", f"launcher on {e['ip']} stopped {len(s)} times")
            if s:
                obs.check(sorted(s[0]["nodes"]) == sorted(e["nodes"]), "stop-nodes", f"started {e['nodes']}, stopped {s[0]['nodes']}")
        if "EngineStopped" in names and stops:
            t_stopped = next(t for t, n in inbox if n == "EngineStopped")
            obs.check(t_stopped >= max(e["t"] for e in stops) - 1e-9, "engine-stopped-too-early", f"EngineStopped at {t_stopped}, last stop at {max(e['t'] for e in stops)}")
            obs.check(len(stops) == len(started_ok), "engine-stopped-before-all-hosts", f"{len(stops)} stops for {len(started_ok)} started hosts")
        # ---- per host: stop, flush(refresh), system results per node (unless the race is unknown), close, clean-up with the flag
        for e in started_ok:
            seq = [x for x in log.events if x["proc"] == e["proc"] and x["t"] >= e["t"] and x["kind"] in ("launcher-stop", "store-flush", "race-add-results", "store-results", "store-close", "cleanup")]
            kinds = [x["kind"] for x in seq]
            if "launcher-stop" not in kinds:
                continue
            i_stop = kinds.index("launcher-stop")
            after = seq[i_stop + 1 :]
            first_flush = next((x for x in after if x["kind"] == "store-flush"), None)
            obs.check(first_flush is not None and first_flush["refresh"] is True, "flush-after-stop", f"{e['ip']}: {kinds}")
            n_nodes = len(e["nodes"])
            want_results = n_nodes if case["race_found"] else 0
            obs.check(kinds.count("race-add-results") == want_results and kinds.count("store-results") == want_results, "system-results", f"{e['ip']}: {kinds} for {n_nodes} nodes, race found={case['race_found']}")
            obs.check(kinds.count("store-close") == 1, "store-close", f"{e['ip']}: {kinds}")
            cl = [x for x in seq if x["kind"] == "cleanup"]
            obs.check(len(cl) == n_nodes and all(x["preserve"] == case["preserve"] for x in cl), "cleanup", f"{e['ip']}: {len(cl)} clean-ups for {n_nodes} nodes, flags {[x['preserve'] for x in cl]} (preserve={case['preserve']})")
            if "store-close" in kinds and cl:
                obs.check(kinds.index("store-close") < kinds.index("cleanup") and i_stop < kinds.index("store-close"), "stop-order", f"{e['ip']}: {kinds}")
            # ---- per node (the real ProcessLauncher.stop on scripted processes): a process that is still there is terminated exactly once
            # (kill -9 once if it does not go away), and the system metrics of *every* started node are stored exactly once, before the flush -
            # also of a node whose process has died during the benchmark
            t_stop = seq[i_stop]["t"]
            mine = [x for x in log.events if x["proc"] == e["proc"] and x["t"] >= t_stop]
            t_flush = first_flush["t"] if first_flush is not None else float("inf")
            for node in e["nodes"]:
                pid, st_ = e["pids"][node], e["states"][node]
                sysm = [x for x in mine if x["kind"] == "node-system-metrics" and x["node"] == node]
                obs.check(len(sysm) == 1 and sysm[0]["t"] <= t_flush, "node-system-metrics", f"{e['ip']} {node} (process {st_}): system metrics stored {len(sysm)} times before the flush ({[x['t'] for x in sysm]}, flush at {t_flush})")
                term = len([x for x in mine if x["kind"] == "node-terminate" and x["pid"] == pid])
                kill = len([x for x in mine if x["kind"] == "node-kill" and x["pid"] == pid])
                want = {"alive": (1, 0), "hangs": (1, 1), "gone": (0, 0), "gone-at-terminate": (0, 0)}[st_]
                obs.check((term, kill) == want, "node-stop-count", f"{e['ip']} {node} (process {st_}): terminated {term} times, killed {kill} times, expected {want}")
                if st_ != "alive":
                    obs.cls(f"node-process:{st_}")
                    if len(e["nodes"]) >= 2 and any(e["states"][o] == "alive" for o in e["nodes"]):
                        obs.cls("dead-or-hanging-node-next-to-a-live-one")
    else:
        kind = fault["kind"]
        obs.cls(f"fired:{kind}")
        # ---- the failure is reported to race control in bounded time (EngineStarted may only have been sent if all hosts did start)
        sig = "no-failure-reported"
        if kind == "daemon-leaves":
            sig = "no-failure-reported/daemon-left-while-dispatcher-listens" if fault.get("dispatcher_listening") else "no-failure-reported/daemon-left-after-all-joined"
        if obs.check("BenchmarkFailure" in names, sig, f"fault {fault} fired at {fault['fired_at']} but race control was never told (inbox {names}, quiescent at {r.t_end})"):
            t_fail = next(t for t, n in inbox if n == "BenchmarkFailure")
            bound = fault["fired_at"] + 5 * max_delay + 1.0
            obs.check(t_fail <= bound, "failure-late", f"fault at {fault['fired_at']}, reported at {t_fail} (bound {bound})")
        # ---- nodes that were started are never stopped twice
        by_launcher = {}
        for e in stops:
            by_launcher.setdefault(e["launcher"], []).append(e)
        for e in started_ok:
            s = by_launcher.get(e["launcher"], [])
            obs.check(len(s) <= 1, "stop-count", f"launcher on {e['ip']} stopped {len(s)} times")
            for node, pid in e["pids"].items():
                term = len([x for x in log.events if x["kind"] == "node-terminate" and x["pid"] == pid])
                kill = len([x for x in log.events if x["kind"] == "node-kill" and x["pid"] == pid])
                obs.check(term <= 1 and kill <= 1, "node-stop-count", f"{e['ip']} {node}: terminated {term} times, killed {kill} times")
    # ---- classes
    if any(ip != 0 for ip, _, _ in case["nodes"]):
        obs.cls("remote-host")
    if len({(ip, port) for ip, port, _ in case["nodes"]}) < len(case["nodes"]):
        obs.cls("host-comes-back-later-in-the-list")
    if any(rep > 1 for _, _, rep in case["nodes"]):
        obs.cls("multi-node-host")
    sent = [m[2] for m in r.rt.send_log if m[3] == "StartNodes"]
    acked = [m[2] for m in r.rt.message_log if m[4] == "NodesStarted"]
    out_of_order = len(acked) >= 2 and acked != [x for x in sent if x in acked]
    if out_of_order:
        obs.cls("acks-out-of-order")
    if not fault:
        obs.cls("no-fault")
    if fault and "left_at" in fault:
        obs.cls("daemon-leaves-after-its-host-confirmed-the-stop")
        if len(started_ok) >= 2 and any(e["t"] > fault["left_at"] for e in stops):
            obs.cls("daemon-leaves-while-another-host-is-still-stopping")
    obs.mark_nontrivial((len(r.distinct) >= 2 and any(ip != 0 for ip, _, _ in case["nodes"]) and out_of_order) or fired)


PROBES = {
    # F5 (fixed): Dispatcher called an ActorAddress instead of sending: a daemon leaving while it still waits for others was never reported
    "no-failure-reported/daemon-left-while-dispatcher-listens": {'delays': [5], 'external': False, 'fault': {'at': 1, 'ip': 0, 'kind': 'daemon-leaves'}, 'joins': {'1': 1, '2': 2}, 'nodes': [[1, 0, 1], [2, 0, 1], [0, 0, 1]], 'preserve': False, 'race_found': False, 'unrelated': None},
    # F17 (fixed): the Dispatcher ignored ChildActorExited of a node mechanic (daemon left after all daemons had joined)
    "no-failure-reported/daemon-left-after-all-joined": {'delays': [3], 'external': False, 'fault': {'at': 0, 'ip': 0, 'kind': 'daemon-leaves'}, 'joins': {'1': -1}, 'nodes': [[0, 0, 1], [1, 0, 1]], 'preserve': False, 'race_found': False, 'unrelated': None},
}
