"""
C07 - Every request sample reaches the metrics store exactly once.

Engine E1: whole races on the actor simulator (real Worker.send_samples / UpdateSamples / Driver.update_samples /
post_process_samples every 30 s and at step boundaries / SamplePostprocessor / InMemoryMetricsStore.to_externalizable(clear=True) /
TaskFinished + BenchmarkComplete hand-over / race control's bulk_add). Oracle: multiset equality between the request log of the
simulated cluster and the records in race control's store.
"""
import collections
import copy

from hypothesis import strategies as st

from gen import races as gen_races
from sim import race as sim_race

ID = "C07"
LEVEL = "exploration"
ENGINE = "E1 virtual-time actor simulator + Hypothesis"
TECHNIQUE = "property-based testing on a deterministic actor/asyncio simulator: request log vs metrics-store records as multisets; metamorphic relation for down-sampling"
RULE = (
    "Generated: C01-style races (1-4 elements, parallel elements, completed-by, 1-3 hosts x 1-4 cores, message delays up to 7 s, "
    "wake-up lateness) with some steps longer than the 30 s post-processing interval, requests with 1-2 dependent sub-requests, "
    "error outcomes under on-error=continue, pre-emption windows {0, 1/1024, 1/64, 1/8} s at Future.done() inside actor handlers (executor "
    "thread work happening while a handler runs) and, in a quarter of the cases, inside Sampler.add() (the actor thread ships samples while the executor thread is about to enqueue every k-th sample); settings class: default | down-sample factor 2 or 7 | sample queue size 1-3; 1 in 40: a burst task of 1 500-20 000 requests "
    "within one wake-up interval (plus a fixed replay case with 72 000); in a third of the races with a parallel element two or more of its tasks run operations of one name; with a tiny queue every sample handed in while the queue had room must have its records. "
    "Non-trivial = >= 2 workers and >= 2 steps and at least one periodic post-processing tick stored records inside a step. "
    "Distinct = distinct canonical JSON."
)
ASSUMPTIONS = [
    "a sample's dependent timings are taken as the runner reports them (their production by runner.Composite is covered by C18)",
    "Thespian semantics as rendered in sim/actors.py; executor thread modelled as asyncio tasks on the shared virtual loop; thread pre-emption is explored at two points only: Future.done() calls made from actor handlers, and the construction of a Sample inside Sampler.add()",
    "race control's part (bulk_add of every TaskFinished/BenchmarkComplete payload into its own InMemoryMetricsStore) is played by the harness with the real store class",
    "records are matched to requests by (name, task, operation, client id, timestamp within 1 ms); consecutive requests of one client are >= 3.9 ms apart by construction",
]
BUDGET = {"quick": 450, "thorough": 4000}
REQUIRED_CLASSES = {"tiny-queue-overflowed-and-had-room-again": 10, "preempted-handler": 40, "multi-worker": 100, "periodic-tick-inside-step": 40, "downsample": 40, "tiny-queue": 40, "sub-requests": 100, "shipment-inside-sampler-add": 40}


@st.composite
def _case(draw, known):
    case = draw(gen_races.race_case(errors=True, avoid_named_wrap=True))
    # dependent sub-requests and a long step
    leaves = [leaf for _, leaf in sim_race.leaves(case["schedule"])]
    for leaf in leaves:
        if draw(st.booleans()):
            for q in leaf["requests"]:
                if q["outcome"] == "ok":
                    q["deps"] = True
                    if len(q["wire"]) == 1 and draw(st.booleans()):
                        q["wire"].append([1 / 64, q["wire"][0][1]])
    if draw(st.integers(0, 9)) < 5:
        plain = [l for l in leaves if l["mode"] in ("iterations", "time") and (l.get("iterations") or 0) < 10 and (l.get("time_period") or 0) < 10]
        if plain:
            leaf = plain[draw(st.integers(0, len(plain) - 1))]
            leaf["mode"] = "time"
            leaf.pop("iterations", None)
            leaf.pop("warmup_iterations", None)
            leaf["warmup_time_period"] = draw(st.sampled_from([None, 5]))
            leaf["time_period"] = draw(st.sampled_from([35, 70]))
            leaf.pop("throughput", None)
            for q in leaf["requests"]:
                q["wire"][0][1] = draw(st.sampled_from([1.0, 2.5]))
    if draw(st.integers(0, 39)) == 0:
        # volume: thousands of samples queue up in one worker between two wake-ups (the default queue of 2^20 is nowhere near full)
        plain = [l for l in leaves if l["mode"] == "iterations"]
        if plain:
            leaf = plain[draw(st.integers(0, len(plain) - 1))]
            leaf["warmup_iterations"] = None
            leaf["iterations"] = draw(st.sampled_from([1500, 6000, 20000])) // leaf["clients"]
            leaf.pop("throughput", None)
            leaf["requests"] = [{"pre": 0, "wire": [[0, 1 / 8192]], "post": 0, "outcome": "ok", "shape": "dict", "weight": 1, "unit": "ops"}]
            case["volume"] = True
    if draw(st.integers(0, 3)) == 0:
        # thread pre-emption inside Sampler.add(): the actor thread ships samples while the executor thread is about to enqueue one
        case["preempt_add"] = draw(st.lists(st.sampled_from([1, 2, 3, 5, 7]), min_size=1, max_size=2))
    shareable = [el["parallel"] for el in case["schedule"] if len(el.get("parallel", [])) >= 2]
    if shareable and draw(st.integers(0, 2)) == 0:
        # two tasks of one parallel element run operations of the same name (one operation referenced by two tasks with different names,
        # or inline operations without a name, which are called after their type): their records must not be mixed up
        tasks = shareable[draw(st.integers(0, len(shareable) - 1))]
        for t in tasks[: draw(st.integers(2, len(tasks)))]:
            if t.get("op_type", "sim-op") == "sim-op":
                t["op_name"] = "sim-op"
    setting = draw(st.sampled_from(["default", "default", "default", "downsample", "tiny-queue"]))
    if setting == "downsample":
        case["downsample"] = draw(st.sampled_from([2, 7]))
    elif setting == "tiny-queue":
        case["queue_size"] = draw(st.integers(1, 3))
    case["on_error"] = "continue"
    return case


def strategy(tier, known):
    return _case(known)


def _expected(case, r):
    """multiset of (name, task, operation, client id) -> sorted timestamps [ms], from the request log"""
    exp = collections.defaultdict(list)
    types = {}
    by_name = {leaf["name"]: leaf for _, leaf in sim_race.leaves(case["schedule"])}
    for q in r.requests:
        if "t_exit" not in q:
            continue
        leaf = by_name[q["task"]]
        ts = (sim_race.kernel.EPOCH + q["t_enter"]) * 1000.0
        cid = q["es_client_id"]
        for name in ("latency", "service_time", "processing_time"):
            exp[(name, q["task"], leaf.get("op_name", q["task"] + "-op"), leaf.get("op_type", "sim-op"), cid)].append(ts)
        spec = leaf["requests"][(q["client"] * leaf.get("stride", 7) + q["ordinal"]) % len(leaf["requests"])]
        if spec.get("deps") and q["outcome"] == "ok":
            # one service_time record per sub-request, stamped with the sub-request's own start
            t = q["t_enter"] + spec.get("pre", 0)
            for i, (gap, service) in enumerate(spec["wire"]):
                t += gap
                exp[("service_time", q["task"], f"{q['task']}-sub{i}", "sim-sub", cid)].append((sim_race.kernel.EPOCH + t) * 1000.0)
                t += service
        if leaf["mode"] == "iterations":
            w = leaf.get("warmup_iterations") or 0
            types[(q["task"], cid, round(ts))] = "warmup" if q["ordinal"] < w else "normal"
    # time-based tasks: the warm-up period counts from the start of the task (docs/track.rst), also for a client that joins later because
    # of ramp-up. The task started on a client at the latest when its first request was issued minus its ramp-up wait, and the type of
    # a request is decided after the client's previous request has returned: a request whose predecessor returned a full warm-up
    # period after that is a normal one. (The other direction would need the exact start and is left to C05's single-task runs.)
    element_of = {}
    for el in case["schedule"]:
        members = el["parallel"] if "parallel" in el else [el]
        for m in members:
            element_of[m["name"]] = (el, members)
    per_client = collections.defaultdict(list)
    for q in r.requests:
        if "t_exit" in q:
            per_client[(q["task"], q["es_client_id"], q["client"])].append(q)  # (over-committed: one client id, several clients in a row)
    for (task, cid, _), qs in per_client.items():
        leaf = by_name[task]
        if leaf["mode"] != "time" or leaf.get("warmup_time_period") is None:
            continue
        el, members = element_of[task]
        total = sum(m["clients"] for m in members)
        if leaf.get("ramp_up") and (el.get("clients") is not None or not 0 <= cid < total):
            continue  # (over-committed elements: the position of a client within the element is not its id)
        wait = leaf["ramp_up"] * cid / total if leaf.get("ramp_up") else 0.0
        qs.sort(key=lambda q: q["t_enter"])
        s_max = qs[0]["t_enter"] - wait
        for prev, q in zip(qs, qs[1:]):
            if prev["t_exit"] - s_max >= leaf["warmup_time_period"] + 1e-6:
                types[(task, cid, round((sim_race.kernel.EPOCH + q["t_enter"]) * 1000.0))] = "normal"
    return exp, types


def _actual(store):
    act = collections.defaultdict(list)
    for d in store.docs:
        if d["name"] in ("latency", "service_time", "processing_time"):
            act[(d["name"], d.get("task"), d.get("operation"), d.get("operation-type"), d["meta"].get("client_id"))].append(d)
    return act


def _throughput(store):
    return sorted((d.get("task"), d["@timestamp"], round(d["value"], 6), d["unit"], d["sample-type"]) for d in store.docs if d["name"] == "throughput")


def run_case(case, obs):
    r = sim_race.run_race(case, collect_metrics=True)
    if r.blocking or r.horizon_exceeded or not r.state["complete"]:
        # completion itself is C01's property; here it only means the case cannot be judged
        obs.violation("race-did-not-complete", f"blocking={r.blocking} horizon={r.horizon_exceeded} state={ {k: v for k, v in r.state.items() if k != 'driver'} }")
        return
    exp, types = _expected(case, r)
    act = _actual(r.store)
    default = not case.get("downsample") and not case.get("queue_size")
    for key in sorted(set(exp) | set(act), key=str):
        want = sorted(exp.get(key, []))
        docs = sorted(act.get(key, []), key=lambda d: d["@timestamp"])
        got = [d["@timestamp"] for d in docs]
        # every stored record belongs to a request (no invention), at most once (no duplicate)
        i = 0
        unmatched_records = []
        matched = 0
        for g in got:
            while i < len(want) and want[i] < g - 1.5:
                i += 1
            if i < len(want) and abs(want[i] - g) <= 1.5:
                i += 1
                matched += 1
            else:
                unmatched_records.append(g)
        obs.check(
            not unmatched_records,
            "record-without-request-or-duplicate",
            lambda: f"{key}: {len(unmatched_records)} stored record(s) match no (remaining) request, e.g. @{unmatched_records[0] - sim_race.kernel.EPOCH * 1000:.1f} ms; {len(got)} records for {len(want)} requests",
        )
        if default:
            obs.check(matched == len(want), "record-lost", f"{key}: {len(want)} requests but {matched} matching records ({len(got)} stored)")
    if case.get("queue_size"):
        # "only a full sample queue ... may reduce the number of records": a sample that was handed in while the worker's queue had room
        # has its records in the store
        must = collections.defaultdict(list)
        for task_name, cid, at, full in r.sampler_adds:
            if not full:
                must[(task_name, cid)].append(at * 1000.0)
        for key in sorted(exp, key=str):
            if key[3] == "sim-sub":
                continue
            want = sorted(must.get((key[1], key[4]), []))
            got = sorted(d["@timestamp"] for d in act.get(key, []))
            i = matched = 0
            for wts in want:
                while i < len(got) and got[i] < wts - 1.5:
                    i += 1
                if i < len(got) and abs(got[i] - wts) <= 1.5:
                    i += 1
                    matched += 1
            obs.check(matched == len(want), "record-lost-although-queue-not-full", f"{key}: {len(want)} samples were handed in while the queue (size {case['queue_size']}) had room, {matched} of them have a record ({len(got)} stored)")
            if len(want) < len(exp[key]):
                obs.cls("tiny-queue-overflowed")
                if want and max(want) > min(set(exp[key]) - set(want), default=float("inf")):
                    obs.cls("tiny-queue-overflowed-and-had-room-again")
    # values and sample types of the records
    req_service = {}
    for q in r.requests:
        if "t_exit" in q:
            ws = min(w[0] for w in q["wire"])
            we = max(w[1] for w in q["wire"])
            req_service[(q["task"], q["es_client_id"], round((sim_race.kernel.EPOCH + q["t_enter"]) * 1000.0))] = (we - ws) * 1000.0
    for d in r.store.docs:
        if d["name"] == "service_time" and d.get("operation-type") in ("sim-op", "sim-op-completing"):
            for delta in (0, -1, 1):
                k = (d["task"], d["meta"].get("client_id"), d["@timestamp"] + delta)
                if k in req_service:
                    obs.check(abs(req_service[k] - d["value"]) <= 1e-3, "service-time-value", f"{k}: stored {d['value']} ms, request took {req_service[k]} ms")
                    if k in types:
                        obs.check(d["sample-type"] == types[k], "sample-type", f"{k}: stored as {d['sample-type']}, request was {types[k]}")
                    break
    # throughput counts every sample that was handed to the driver: per emitted value, value x elapsed lies between the operations of
    # the samples strictly earlier than the emitting one and the operations of everything delivered so far (C06's bound, applied to
    # the batches the real Driver formed: periodic ticks, step boundaries)
    delivered, start_time = {}, {}
    for fed, out in r.tp_calls:
        this = {}
        for name, at, ops, period, stype, runner_tp in fed:
            this.setdefault(name, []).append((at, ops, period, runner_tp))
        for name, ss in this.items():
            if name not in start_time:
                first = min(ss, key=lambda x: x[0])
                start_time[name] = first[0] - first[2]
            delivered.setdefault(name, [])
        for name, values in out.items():
            ss = this.get(name, [])
            if any(x[3] for x in ss) or any(x[3] for x in delivered.get(name, [])):
                continue  # runner-supplied throughput is passed through
            earlier = delivered.get(name, [])
            upper = sum(x[1] for x in earlier) + sum(x[1] for x in ss)
            for at, _rel, _stype, value, _unit in values:
                seen = earlier + [x for x in ss if x[0] <= at]
                intervals = {max(x[0] - start_time[name] for x in seen), at - start_time[name]} if seen else {at - start_time[name]}
                lower = sum(x[1] for x in earlier + ss if x[0] < at)
                ok = any(lower * (1 - 1e-9) - 1e-6 <= value * iv <= upper * (1 + 1e-9) + 1e-6 for iv in intervals)
                obs.check(
                    ok,
                    "throughput-ignores-samples",
                    lambda: f"task {name}: throughput {value} at +{at - sim_race.kernel.EPOCH:.3f}s means {[round(value * iv, 3) for iv in intervals]} operations, "
                    f"but the samples handed to the driver so far carry between {lower} and {upper}",
                )
        for name, ss in this.items():
            delivered[name].extend(ss)
    # throughput is computed from all samples: same records with and without down-sampling
    if case.get("downsample"):
        base = copy.deepcopy(case)
        base.pop("downsample")
        r0 = sim_race.run_race(base, collect_metrics=True)
        obs.check(_throughput(r0.store) == _throughput(r.store), "throughput-depends-on-downsampling", f"{_throughput(r0.store)[:3]} vs {_throughput(r.store)[:3]}")
        # at least ceil(N / factor) request records per post-processing batch -> overall lower bound ceil(N/factor) is too strong
        # across batches; the sound bound is N/factor rounded down per batch, so only require "some but not all" here
        n_req = sum(len(v) for k, v in exp.items() if k[0] == "latency")
        n_rec = sum(len(v) for k, v in act.items() if k[0] == "latency")
        obs.check(n_rec >= n_req / case["downsample"] - 1e-9, "downsample-dropped-too-much", f"{n_rec} latency records for {n_req} requests at factor {case['downsample']}")
        obs.cls("downsample")
    if case.get("queue_size"):
        obs.cls("tiny-queue")
    # classes
    from esrally.driver import driver

    n_workers = len(r.rt.instances(driver.Worker))
    steps = len(case["schedule"])
    # a periodic tick stored records inside a step: some latency record was post-processed (relative ordering of store docs) before
    # the step's TaskFinished; observable as a driver wake-up that found raw samples: approximated by "step longer than 30 s with samples"
    tick_inside = False
    tf = [m[0] for m in r.rt.send_log if m[3] in ("TaskFinished",)] + [r.state["t_complete"]]
    bounds = list(zip(tf, tf[1:]))
    for a, b in bounds:
        if b - a > 32.0 and any(a < q["t_enter"] < b - 31.0 for q in r.requests):
            tick_inside = True
    if n_workers >= 2:
        obs.cls("multi-worker")
    if tick_inside:
        obs.cls("periodic-tick-inside-step")
    if any(q.get("deps") for _, leaf in sim_race.leaves(case["schedule"]) for q in leaf["requests"]):
        obs.cls("sub-requests")
    if default:
        obs.cls("default-settings")
    if case.get("volume"):
        obs.cls("volume")
    if sum(1 for _, leaf in sim_race.leaves(case["schedule"]) if leaf.get("op_name")) >= 2:
        obs.cls("two-tasks-with-operations-of-one-name")
    if r.rt.stats.get("preemptions_with_work"):
        obs.cls("preempted-handler")
    if r.rt.stats.get("preemptions_in_sampler_add"):
        obs.cls("shipment-inside-sampler-add")
    obs.mark_nontrivial(n_workers >= 2 and steps >= 2 and tick_inside)


_REQ = [{"pre": 0, "wire": [[0, 1.0009765625]], "post": 0, "outcome": "ok", "shape": "dict", "weight": 1, "unit": "ops"}]
PROBES = {
    # F14 (fixed): over-committed element, executor finishes between the worker's periodic send_samples() and its Future.done() check
    "record-lost": {
        "schedule": [
            {
                "parallel": [
                    {"name": "a", "clients": 1, "mode": "iterations", "warmup_iterations": None, "iterations": 5, "requests": _REQ, "stride": 1},
                    {"name": "b", "clients": 1, "mode": "iterations", "warmup_iterations": None, "iterations": 1, "requests": _REQ, "stride": 1},
                ],
                "clients": 1,
                "completed_by": None,
            }
        ],
        "hosts": [1], "test_mode": False, "offsets": [0.0], "delays": [0], "wake_late": [0], "prep_tasks": [], "preempt": [3], "quiet": True,
    }
}
