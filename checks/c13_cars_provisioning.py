"""
C13 - Cars compose in order with documented precedence; provisioning mirrors templates; cleanup removes exactly the
installation and the data paths (or nothing when preserve-install is set).

Real code: esrally.mechanic.team.load_car on a generated team directory, esrally.mechanic.provisioner.ElasticsearchInstaller +
BareProvisioner.prepare on a real stub distribution archive in a temporary directory, provisioner.cleanup on the resulting tree.
Oracle (never the implementation): a precedence fold written from docs/car.rst, first-occurrence order of config bases, a string
substitution renderer for the restricted template grammar, byte comparison of the produced tree, a tree snapshot around cleanup.
"""
import hashlib
import io
import logging
import os
import shutil
import tarfile
import tempfile
import warnings

from esrally import exceptions
from esrally.mechanic import provisioner, team
from esrally.utils import console

from gen import teams

ID = "C13"
LEVEL = "exploration"
TECHNIQUE = (
    "property-based testing (Hypothesis) on real directories: reference model for variable precedence and config-base order, "
    "independent template renderer + byte-exact tree comparison, metamorphic twin for Rally's internal variables, tree snapshots around cleanup"
)
RULE = (
    "Generated: a team directory cars/v1 with 1-4 cars/mixins (optional [meta], [config] base= with 0-3 of 1-4 config bases, overlapping "
    "between cars, [variables]) and config bases (optional config.ini [variables], templates/ tree of depth <= 3 drawn from a small per-case "
    "path pool so that bases collide: plain-text files = literal LF-only UTF-8 text + {{ var }} placeholders of defined identifiers, binary "
    "files = arbitrary bytes); variable names from a small per-case pool overlapping between bases, cars, car params and Rally's internal "
    "names; a car-name list of 1-4 names, car params (str/int/bool/None values), data_paths default or defined in base/car/params (inside the "
    "installation, next to it, outside); a stub elasticsearch-x.y.z.tar.gz with pre-bundled config and other files; content on disk before "
    "provisioning and created afterwards in the installation, in every data path candidate and around them (incl. symlinks to the outside); "
    "preserve flag. ~8% of cases have no config base at all (documented error); ~6% of the cars write their base list with a blank next to the "
    "comma and ~12% of the cases make the effective data path a symbolic link (both are known findings: counted in excluded_known and skipped "
    "where they would fire); data paths also beside the installation sharing its name as a string prefix or written through it (<home>/../x); a tenth of the cases select only cars without a [variables] section while car parameters are given. Non-trivial = at least two selected cars define the same "
    "variable name (in the car or its config bases) AND at least two applied config bases provide the same plain-text file. Distinct = "
    "distinct canonical JSON."
)
ASSUMPTIONS = [
    "templates use only literal text and {{ name }} placeholders of variables that are defined; LF-only UTF-8; no '{' or '}' in literal text",
    "ini values are single-line ASCII without '$' and '%' (configparser interpolation and the locale's default encoding are not under test)",
    "runtime.jdk and runtime.jdk.bundled are always defined with valid values (provisioner.local() reads them before a provisioner exists)",
    "the node root directory contains no pre-existing entry matching install/elasticsearch* (Rally provisions into a fresh race directory)",
    "plain-text template paths never coincide with files the distribution ships outside config/; no path is a file in one base and a directory in another",
    "data paths are directories (or absent, or - known finding - a symbolic link to a directory), never ancestors of the installation or of unrelated content",
    "for a symlinked data path the statement does not say what exactly goes: link removed, target removed or target emptied are all accepted",
    "files the distribution ships in config/ and no template provides may or may not survive (the statement is silent; Rally deletes them)",
    "no bootstrap hooks (config.py), no plugins, no Docker provisioner, java_home None",
]
BUDGET = {"quick": 1400, "thorough": 6000}
WALL_BUDGET_S = {"quick": 80, "thorough": 1200}
REQUIRED_CLASSES = {
    "nontrivial": 40,
    "shared-var-2-cars": 60,
    "same-text-file-2-bases": 60,
    "internal-override": 50,
    "params-override": 40,
    "binary-2-providers": 16,
    "no-base-error": 10,
    "data:default": 40,
    "data:outside-install": 40,
    "cleanup:preserve": 60,
    "cleanup:wipe": 60,
    "depth-3": 30,
    "prebundled-collision": 20,
}

INTERNAL = list(teams.INTERNAL_VARS)
# real file I/O dominates the run time: use the memory-backed file system when there is one
_TMP_PARENT = "/dev/shm" if os.path.isdir("/dev/shm") and os.access("/dev/shm", os.W_OK | os.X_OK) else None


def strategy(tier, known):
    return teams.team_cases()


def setup():
    console.init(quiet=True)
    warnings.simplefilter("ignore", DeprecationWarning)  # tarfile.extractall filter notice of Python 3.12
    logging.getLogger("esrally").addHandler(logging.NullHandler())  # "Could not delete ..." goes to the log, not to stderr


# ------------------------------------------------------------------------------------------------ materialisation
def _w(path, data):
    os.makedirs(os.path.dirname(path), exist_ok=True)
    with open(path, "wb") as f:
        f.write(data)


def _ini(sections, style):
    delim = ["=", " = ", ": ", ":"][style % 4]
    out = []
    for name, kv, comment in sections:
        out.append(f"[{name}]")
        if comment:
            out.append("# " + comment)
        for k, v in kv.items():
            out.append(f"{k}{delim}{v}".rstrip(" ") if v == "" else f"{k}{delim}{v}")
        out.append("")
    return "\n".join(out).encode("ascii")


class _Layout:
    def __init__(self, root, case):
        self.root = root
        self.team = os.path.join(root, "team")
        self.cars_dir = os.path.join(self.team, "cars", "v1")
        self.node_root = os.path.join(root, "races", "race-1", case["node"]["node_name"])
        self.install = os.path.join(self.node_root, "install")
        self.version = case["archive"]["version"]
        self.home = os.path.join(self.install, f"elasticsearch-{self.version}")
        self.archive = os.path.join(root, "dist", f"elasticsearch-{self.version}.tar.gz")

    def data_path(self, spec):
        if spec["loc"] == "beside":
            return self.home + spec["rel"] + ("/" if spec["slash"] else "")
        if spec["loc"] == "via":
            return os.path.join(self.home, "..", spec["rel"]) + ("/" if spec["slash"] else "")
        base = {"home": self.home, "node": self.node_root, "out": os.path.join(self.root, "disks")}[spec["loc"]]
        return os.path.join(base, spec["rel"]) + ("/" if spec["slash"] else "")


def _source_of(f):
    """template source text of a plain-text file spec"""
    out = []
    for p in f["parts"]:
        if p[0] == "t":
            out.append(p[1])
        elif p[0] == "c":
            out.append("{# " + p[1] + " #}")
        else:
            pad = " " * p[2]
            out.append("{{" + pad + p[1] + pad + "}}")
    return "".join(out) + f["end"]


def _render(f, variables):
    """reference renderer of the restricted grammar: substitution; one trailing newline of the *source* is dropped, one is appended"""
    out = []
    for p in f["parts"]:
        out.append(p[1] if p[0] == "t" else "" if p[0] == "c" else str(variables[p[1]]))  # (a comment renders to nothing)
    text = "".join(out) + f["end"]
    if _source_of(f).endswith("\n"):
        text = text[:-1]
    return text + "\n"


def _materialise_team(case, lay):
    dp = case["data_paths"]
    os.makedirs(lay.cars_dir)
    for name, b in case["bases"].items():
        bdir = os.path.join(lay.cars_dir, name)
        os.makedirs(os.path.join(bdir, "templates"))
        v = _base_vars(case, lay, name)
        if v is not None:
            _w(os.path.join(bdir, "config.ini"), _ini([("variables", v, None)], b["style"]))
        for rel, f in b["files"].items():
            target = os.path.join(bdir, "templates", rel)
            if f["kind"] == "text":
                _w(target, _source_of(f).encode("utf-8"))
            else:
                _w(target, bytes.fromhex(f["hex"]))
    for name, c in case["cars"].items():
        sections = []
        if c["type"] is not None:
            sections.append(("meta", {"description": f"generated {name}", "type": c["type"]}, None))
        if c["bases"]:
            sections.append(("config", {"base": c.get("sep", ",").join(c["bases"])}, None))
        elif c["base_key"] == "empty":
            sections.append(("config", {"base": ""}, None))
        elif c["base_key"] == "no-key":
            sections.append(("config", {}, "no base"))
        v = _car_vars(case, lay, name)
        if v or c["vars_section"]:
            sections.append(("variables", v, None))
        _w(os.path.join(lay.cars_dir, f"{name}.ini"), _ini(sections, c["style"]))
    # stub distribution
    buf = io.BytesIO()
    with tarfile.open(fileobj=buf, mode="w:gz", compresslevel=1) as tf:
        top = f"elasticsearch-{lay.version}"
        d = tarfile.TarInfo(f"{top}/config")
        d.type = tarfile.DIRTYPE
        d.mode = 0o755
        tf.addfile(d)
        for group in ("config", "other"):
            for rel, hx in case["archive"][group].items():
                data = bytes.fromhex(hx)
                ti = tarfile.TarInfo(f"{top}/{rel}")
                ti.size = len(data)
                ti.mode = 0o644
                tf.addfile(ti, io.BytesIO(data))
    _w(lay.archive, buf.getvalue())


def _base_vars(case, lay, name):
    v = case["bases"][name]["vars"]
    if v is None:
        return None
    v = dict(v)
    if name in case["data_paths"]["bases"]:
        v["data_paths"] = lay.data_path(case["data_paths"]["bases"][name])
    return v


def _car_vars(case, lay, name):
    v = dict(case["cars"][name]["vars"])
    if name in case["data_paths"]["cars"]:
        v["data_paths"] = lay.data_path(case["data_paths"]["cars"][name])
    return v


def _params(case, lay):
    p = case["params"]
    dp = case["data_paths"]["params"]
    if dp is None:
        return p
    p = dict(p or {})
    p["data_paths"] = lay.data_path(dp) if isinstance(dp, dict) else [lay.data_path(s) for s in dp]
    return p


# ------------------------------------------------------------------------------------------------ reference model
def _model(case, lay):
    """docs/car.rst: config-base variables < car variables (later cars win) < car params; bases in first-occurrence order"""
    base_tier, car_tier, order = {}, {}, []
    for c in case["selection"]:
        for b in case["cars"][c]["bases"]:
            if b not in order:
                order.append(b)
            base_tier.update(_base_vars(case, lay, b) or {})
    for c in case["selection"]:
        car_tier.update(_car_vars(case, lay, c))
    variables = {}
    variables.update(base_tier)
    variables.update(car_tier)
    variables.update(_params(case, lay) or {})
    return variables, order


def _effective_specs(case):
    """the data_paths definition that wins by precedence, as specs (None = Rally's default); only used to place the symlink / to exclude"""
    dp = case["data_paths"]
    if dp["params"] is not None:
        return [dp["params"]] if isinstance(dp["params"], dict) else list(dp["params"])
    eff = None
    for c in case["selection"]:
        if c in dp["cars"]:
            eff = dp["cars"][c]
    if eff is None:
        for c in case["selection"]:
            for b in case["cars"][c]["bases"]:
                if b in dp["bases"]:
                    eff = dp["bases"][b]
    return None if eff is None else [eff]


def _symlinked_spec(case):
    """the data path that is a symbolic link in this case (or None)"""
    if not case["disk"].get("data_symlink"):
        return None
    for spec in _effective_specs(case) or []:
        if spec["loc"] != "home" and not spec["slash"]:
            return spec
    return None


def _blank_separator(case):
    return any(len(case["cars"][c]["bases"]) >= 2 and case["cars"][c].get("sep", ",") != "," for c in case["selection"])


SIG_BLANK = "car/base-name-not-trimmed"
SIG_SYMLINK = "cleanup/symlinked-data-path-kept"


def is_excluded(case, known):
    if SIG_BLANK in known and _blank_separator(case):
        return True
    if SIG_SYMLINK in known and not case["preserve"] and _symlinked_spec(case) is not None:
        # only reached when load_car succeeds, but that cannot be told without running it: cases without any config base are skipped too
        return True
    return False


def _definers(case):
    """variable name -> set of selected cars that define it themselves or through one of their config bases"""
    out = {}
    for c in case["selection"]:
        names = set(case["cars"][c]["vars"])
        if c in case["data_paths"]["cars"]:
            names.add("data_paths")
        for b in case["cars"][c]["bases"]:
            names.update(case["bases"][b]["vars"] or {})
            if b in case["data_paths"]["bases"]:
                names.add("data_paths")
        for n in names:
            out.setdefault(n, set()).add(c)
    return out


# ------------------------------------------------------------------------------------------------ snapshots
def _snapshot(root):
    snap = {}
    for cur, dirs, files in os.walk(root, followlinks=False):
        for n in list(dirs):
            p = os.path.join(cur, n)
            if os.path.islink(p):
                snap[os.path.relpath(p, root)] = ("link", os.readlink(p))
            else:
                snap[os.path.relpath(p, root)] = ("dir",)
        for n in files:
            p = os.path.join(cur, n)
            if os.path.islink(p):
                snap[os.path.relpath(p, root)] = ("link", os.readlink(p))
            else:
                with open(p, "rb") as f:
                    data = f.read()
                snap[os.path.relpath(p, root)] = ("file", len(data), hashlib.sha1(data).hexdigest())
    return snap


def _files_under(root):
    out = {}
    for cur, _, files in os.walk(root):
        for n in files:
            p = os.path.join(cur, n)
            with open(p, "rb") as f:
                out[os.path.relpath(p, root)] = f.read()
    return out


def _is_under(path, root):
    return path == root or path.startswith(root + os.sep)


def _blob(tag, n):
    return hashlib.sha1(f"{tag}#{n}".encode()).digest()[: 3 + n * 7]


# ------------------------------------------------------------------------------------------------ the case
def _installer(car, case, lay):
    n = case["node"]
    return provisioner.ElasticsearchInstaller(
        car, None, n["node_name"], n["cluster_name"], lay.node_root, list(n["all_node_ips"]), list(n["all_node_names"]), n["ip"], n["http_port"]
    )


def run_case(case, obs):
    root = tempfile.mkdtemp(prefix="verif-c13-", dir=_TMP_PARENT)
    try:
        _run(case, obs, _Layout(root, case))
    finally:
        shutil.rmtree(root, ignore_errors=True)


def _run(case, obs, lay):
    _materialise_team(case, lay)
    params = _params(case, lay)
    want_vars, base_order = _model(case, lay)
    want_paths = [os.path.join(lay.cars_dir, b, "templates") for b in base_order]

    # -------- classes that depend on the case only
    definers = _definers(case)
    shared = [n for n, cs in definers.items() if len(cs) >= 2]
    providers = {}
    for b in base_order:
        for rel, f in case["bases"][b]["files"].items():
            providers.setdefault(rel, []).append(b)
    same_text = [rel for rel, bs in providers.items() if len(bs) >= 2 and case["bases"][bs[0]]["files"][rel]["kind"] == "text"]
    same_bin = [rel for rel, bs in providers.items() if len(bs) >= 2 and case["bases"][bs[0]]["files"][rel]["kind"] == "bin"]
    overridden_internal = sorted(k for k in INTERNAL if k in want_vars)
    car_or_base_names = set(definers)
    if shared:
        obs.cls("shared-var-2-cars")
    if same_text:
        obs.cls("same-text-file-2-bases")
    if same_bin:
        obs.cls("binary-2-providers")
    if overridden_internal:
        obs.cls("internal-override")
    if params and any(k in car_or_base_names for k in params):
        obs.cls("params-override")
    if params and not any(case["cars"][c]["vars"] or case["cars"][c]["vars_section"] for c in case["selection"]):
        obs.cls("params-and-no-car-has-a-variables-section")
    if any(not case["cars"][c]["bases"] for c in case["selection"]) and base_order:
        obs.cls("mixin-without-base")
    if len(set(case["selection"])) >= 2:
        obs.cls("cars>=2")
    if len(base_order) >= 2:
        obs.cls("bases>=2")
    if any(rel.count("/") >= 3 for rel in providers):
        obs.cls("depth-3")

    # -------- team.load_car
    try:
        car = team.load_car(lay.team, list(case["selection"]), params)
    except exceptions.SystemSetupError as e:
        if not base_order and "At least one config base is required" in str(e):
            obs.cls("no-base-error")
            return
        obs.violation("car/unexpected-error", f"load_car raised {e!r} although config bases {base_order} are referenced")
        return
    if not base_order:
        obs.violation("car/no-base-accepted", f"no selected car references a config base but load_car returned config paths {car.config_paths}")
        return
    if _blank_separator(case):
        obs.cls("blank-next-to-comma-in-base-list")
        if list(car.config_paths) != want_paths or dict(car.variables) != want_vars:
            obs.violation(
                SIG_BLANK,
                f"[config] base = {[case['cars'][c].get('sep', ',').join(case['cars'][c]['bases']) for c in case['selection']]}: config paths "
                f"{[p[len(lay.cars_dir) + 1:] for p in car.config_paths]} (existing: {[os.path.isdir(p) for p in car.config_paths]}), expected bases {base_order}; "
                + _diff_vars(dict(car.variables), want_vars, case),
            )
            return
    obs.check(
        list(car.config_paths) == want_paths,
        "car/config-paths",
        lambda: f"config paths {[p[len(lay.cars_dir) + 1:] for p in car.config_paths]} but bases are referenced in the order {base_order}",
    )
    if not obs.check(dict(car.variables) == want_vars, "car/variables", lambda: _diff_vars(dict(car.variables), want_vars, case)):
        return

    # -------- Rally's own values: what an installer reports for a car that does not try to define them (metamorphic twin)
    if overridden_internal:
        twin_vars = {k: v for k, v in want_vars.items() if k not in INTERNAL}
        twin = _installer(team.Car(list(case["selection"]), [], want_paths, twin_vars), case, lay)
        twin_prov = provisioner.BareProvisioner(twin, [], distribution_version=lay.version)
        twin_prov.prepare({"elasticsearch": lay.archive})
        twin_all = twin_prov._provisioner_variables()
        rally_values = {k: twin_all[k] for k in INTERNAL}
        shutil.rmtree(os.path.join(lay.root, "races"))
    else:
        rally_values = None

    # -------- content on disk before provisioning
    for rel in case["disk"]["before"]:
        _w(os.path.join(lay.node_root, rel), _blob(rel, 1))

    if case.get("sibling_node_first"):
        # another node of the same host is provisioned first with the same Car object: it must leave no trace in what follows
        n0 = case["node"]
        sibling_root = os.path.join(lay.root, "races", "race-1", n0["node_name"] + "-sibling")
        sibling = provisioner.ElasticsearchInstaller(
            car, None, n0["node_name"] + "-sibling", n0["cluster_name"], sibling_root, list(n0["all_node_ips"]), list(n0["all_node_names"]), n0["ip"],
            n0["http_port"] + 1,
        )
        provisioner.BareProvisioner(sibling, [], distribution_version=lay.version).prepare({"elasticsearch": lay.archive})
        obs.check(dict(car.variables) == want_vars, "car/variables-changed-by-provisioning", lambda: _diff_vars(dict(car.variables), want_vars, case))
        shutil.rmtree(sibling_root, ignore_errors=True)
        obs.cls("sibling-node-provisioned-first")

    inst = _installer(car, case, lay)
    prov = provisioner.BareProvisioner(inst, [], distribution_version=lay.version)
    node_config = prov.prepare({"elasticsearch": lay.archive})
    got_vars = prov._provisioner_variables()
    if rally_values is None:
        rally_values = {k: got_vars.get(k) for k in INTERNAL}

    # documented / self-evident values of Rally's names (the rest is pinned by the twin only)
    n = case["node"]
    if "data_paths" in want_vars:
        v = want_vars["data_paths"]
        want_data = [v] if isinstance(v, str) else list(v)
    else:
        want_data = [os.path.join(lay.home, "data")]
    explicit = {
        "cluster_name": n["cluster_name"],
        "node_name": n["node_name"],
        "node_ip": n["ip"],
        "network_host": n["ip"],
        "http_port": str(n["http_port"]),
        "install_root_path": lay.home,
    }
    for k, v in explicit.items():
        obs.check(
            got_vars.get(k) == v,
            "vars/internal-overridden" if k in want_vars and got_vars.get(k) == want_vars[k] else "vars/internal-value",
            f"{k} is {got_vars.get(k)!r}, Rally's value is {v!r} (team/params define {want_vars.get(k)!r})",
        )
    for k in INTERNAL:
        obs.check(
            got_vars.get(k) == rally_values[k],
            "vars/internal-overridden",
            f"{k} is {got_vars.get(k)!r} but {rally_values[k]!r} when the team does not define it (team/params define {want_vars.get(k)!r})",
        )
    obs.check(got_vars.get("data_paths") == want_data, "vars/data-paths", f"data_paths variable {got_vars.get('data_paths')!r}, expected {want_data!r}")
    obs.check(list(node_config.data_paths) == want_data, "vars/data-paths", f"node data paths {node_config.data_paths!r}, expected {want_data!r}")
    obs.check(node_config.binary_path == lay.home, "vars/binary-path", f"binary path {node_config.binary_path!r}, expected {lay.home!r}")
    final_vars = dict(want_vars)
    final_vars.update(rally_values)
    final_vars["data_paths"] = want_data
    lost = {k: (got_vars.get(k, "<missing>"), v) for k, v in final_vars.items() if k not in INTERNAL and k != "data_paths" and got_vars.get(k, "<missing>") != v}
    obs.check(not lost, "vars/user-variable-lost", f"provisioner variables differ from the composed car (got, expected): {lost}")

    # -------- the produced tree
    want_files = {}
    for rel, hx in case["archive"]["other"].items():
        want_files[rel] = ("shipped", bytes.fromhex(hx))
    for b in base_order:
        for rel, f in case["bases"][b]["files"].items():
            if f["kind"] == "text":
                prev = want_files.get(rel)
                prefix = prev[1] if prev and prev[0] == "text" else b""
                want_files[rel] = ("text", prefix + _render(f, final_vars).encode("utf-8"))
            else:
                want_files[rel] = ("bin", bytes.fromhex(f["hex"]))
    got_files = _files_under(lay.home)
    shipped_cfg = {rel: bytes.fromhex(hx) for rel, hx in case["archive"]["config"].items()}
    if any(rel in providers for rel in shipped_cfg):
        obs.cls("prebundled-collision")
    if "bin/elasticsearch-env" in providers and "bin/elasticsearch-env" in case["archive"]["other"]:
        obs.cls("binary-overwrites-shipped")
    for rel, (kind, data) in sorted(want_files.items()):
        if kind == "shipped":
            continue  # the statement is about template files only
        if rel not in got_files:
            obs.violation("tree/missing-file", f"{rel} provided by {providers[rel]} is missing in the installation; present: {sorted(got_files)}")
        elif got_files[rel] != data:
            if kind == "bin":
                obs.violation("tree/binary-content", f"{rel} providers {providers[rel]}: got {got_files[rel]!r}, expected bytes of the last provider {data!r}")
            else:
                sig = "tree/text-append" if len(providers[rel]) >= 2 else "tree/text-content"
                obs.violation(sig, f"{rel} providers {providers[rel]}: got {got_files[rel]!r}, expected {data!r}")
    for rel in sorted(got_files):
        if rel.startswith("config" + os.sep) and rel not in want_files:
            # pre-bundled configuration files may or may not survive (Rally deletes them); anything else is foreign
            obs.check(
                shipped_cfg.get(rel) == got_files[rel],
                "tree/unexpected-in-config",
                f"config/ contains {rel} = {got_files[rel]!r} which no config base provides (shipped: {sorted(shipped_cfg)})",
            )

    # -------- what runs afterwards: Elasticsearch writes data and logs, the user keeps things next to it
    candidates = []
    for spec in list(case["data_paths"]["bases"].values()) + list(case["data_paths"]["cars"].values()):
        candidates.append(lay.data_path(spec))
    dp = case["data_paths"]["params"]
    if isinstance(dp, dict):
        candidates.append(lay.data_path(dp))
    elif dp:
        candidates.extend(lay.data_path(s) for s in dp)
    candidates.append(os.path.join(lay.home, "data"))
    candidates = [os.path.normpath(c) for c in candidates]
    candidates = sorted(set(candidates), key=candidates.index)
    effective = [os.path.normpath(p) for p in want_data]
    d = case["disk"]
    link_spec = _symlinked_spec(case)
    link = link_target = None
    if link_spec is not None:
        link = os.path.normpath(lay.data_path(link_spec))
        link_target = os.path.join(lay.root, "mnt", "vol0", "es")
        os.makedirs(link_target)
        _w(os.path.join(lay.root, "mnt", "vol0", "other", "keep.txt"), b"keep")
        os.makedirs(os.path.dirname(link), exist_ok=True)
        os.symlink(link_target, link)
        _w(os.path.join(link, "nodes", "0", "_state", "global-1.st"), b"cluster state of the previous race")
        obs.cls("data-path-is-symlink")
    for i, c in enumerate(candidates):
        if i in d["missing_data_dirs"]:
            continue
        os.makedirs(c, exist_ok=True)
        for k in range(d["data_files"]):
            _w(os.path.join(c, ["nodes/0/node.lock", "indices/i1/0/segments_1", "f.bin"][k]), _blob(c[len(lay.root):], k))
    for rel in d["home_files"]:
        _w(os.path.join(lay.home, rel), _blob(rel, 2))
    bystanders = [
        os.path.join(lay.root, "bystander", "keep.txt"),
        os.path.join(lay.root, "bystander", "sub", "keep.bin"),
        os.path.join(lay.root, "disks", "keep", "z.txt"),
        os.path.join(lay.root, "disks", "d0-not", "z.txt"),  # shares a string prefix (not a path prefix) with a data path
        os.path.join(os.path.dirname(lay.node_root), "other-node", "install", f"elasticsearch-{lay.version}", "config", "elasticsearch.yml"),
        os.path.join(lay.node_root, "logs", "server", "rally-node.log"),
        os.path.join(lay.install, f"elasticsearch-{lay.version}.keep", "x"),
    ]
    for b in bystanders:
        _w(b, _blob(b[len(lay.root):], 3))
    first_existing = next((c for c in effective if os.path.isdir(c)), None)
    if d["symlink_in_data"] and first_existing:
        os.symlink(os.path.join(lay.root, "bystander"), os.path.join(first_existing, "link-to-bystander"))
        os.symlink(os.path.join(lay.root, "bystander", "keep.txt"), os.path.join(first_existing, "link-to-file"))
        obs.cls("symlink-to-outside")
    if d["symlink_in_home"]:
        os.symlink(os.path.join(lay.root, "disks", "keep"), os.path.join(lay.home, "link-to-disk"))
        obs.cls("symlink-to-outside")

    if any(os.path.isdir(c) and not any(_is_under(c, r) for r in effective + [lay.home]) for c in candidates):
        obs.cls("data:ineffective-candidate-must-stay")

    # -------- cleanup
    before = _snapshot(lay.root)
    provisioner.cleanup(case["preserve"], node_config.binary_path, node_config.data_paths)
    after = _snapshot(lay.root)
    removed_roots = [os.path.relpath(p, lay.root) for p in [lay.home] + effective]
    if case["preserve"]:
        obs.cls("cleanup:preserve")
        obs.check(after == before, "cleanup/preserve-changed", lambda: "preserve-install set but the tree changed: " + _diff_snap(before, after))
    else:
        obs.cls("cleanup:wipe")
        want_after = {p: v for p, v in before.items() if not any(_is_under(p, r) for r in removed_roots)}
        if link is not None:
            # the statement does not say whether the link, its target directory or only the content goes: all accepted, but the data must go
            survivors = sorted(_files_under(link)) if os.path.isdir(link) else []
            obs.check(
                not survivors,
                SIG_SYMLINK,
                f"data path {os.path.relpath(link, lay.root)} is a symbolic link to {os.path.relpath(link_target, lay.root)}; after cleanup it still holds {survivors[:4]}",
            )
            tolerated = [os.path.relpath(link, lay.root), os.path.relpath(link_target, lay.root)]
            want_after = {p: v for p, v in want_after.items() if not any(_is_under(p, t) for t in tolerated)}
            after = {p: v for p, v in after.items() if not any(_is_under(p, t) for t in tolerated)}
        left = sorted(p for p in after if p not in want_after)
        gone = sorted(p for p in want_after if p not in after)
        changed = sorted(p for p in want_after if p in after and after[p] != want_after[p])
        obs.check(not left, "cleanup/not-removed", f"still there after cleanup (installation {removed_roots[0]}, data paths {removed_roots[1:]}): {left[:6]}")
        obs.check(not gone and not changed, "cleanup/removed-too-much", f"cleanup of {removed_roots} also removed {gone[:6]} / changed {changed[:6]}")

    # -------- remaining classes
    if "data_paths" not in want_vars:
        obs.cls("data:default")
    else:
        obs.cls("data:from-params" if params and "data_paths" in params else "data:from-team")
        if len(want_data) >= 2:
            obs.cls("data:several")
    if any(not _is_under(p, lay.home) for p in effective):
        obs.cls("data:outside-install")
    if any(not _is_under(p, lay.home) and (p.startswith(lay.home) or "/../" in q) for p, q in zip(effective, want_data)):
        obs.cls("data:beside-install-sharing-its-name")
    nontrivial = bool(shared) and bool(same_text)
    if nontrivial:
        obs.cls("nontrivial")
    obs.mark_nontrivial(nontrivial)


def _diff_vars(got, want, case):
    keys = sorted(set(got) | set(want))
    d = {k: (got.get(k, "<missing>"), want.get(k, "<missing>")) for k in keys if got.get(k, "<missing>") != want.get(k, "<missing>")}
    return f"car {case['selection']} params {case['params']}: (got, expected by precedence) {d}"


def _diff_snap(a, b):
    gone = sorted(p for p in a if p not in b)
    new = sorted(p for p in b if p not in a)
    changed = sorted(p for p in a if p in b and a[p] != b[p])
    return f"gone {gone[:6]} new {new[:6]} changed {changed[:6]}"


# ------------------------------------------------------------------------------------------------ probes for findings
def _probe(**changes):
    case = {
        "archive": {"version": "7.10.2", "config": {"config/elasticsearch.yml": "6f6c64"}, "other": {"bin/elasticsearch": ""}},
        "bases": {
            "vanilla": {
                "files": {"config/jvm.options": {"kind": "text", "parts": [["t", "-Xmx"], ["v", "heap_size", 0]], "end": "\n"}},
                "style": 0,
                "vars": {"heap_size": "1g", "runtime.jdk": "21", "runtime.jdk.bundled": "true"},
            },
            "ea": {
                "files": {"config/jvm.options": {"kind": "text", "parts": [["t", "-ea"]], "end": "\n"}},
                "style": 0,
                "vars": {"assertions": "true"},
            },
        },
        "cars": {
            "defaults": {"type": "car", "bases": ["vanilla"], "base_key": "present", "sep": ",", "style": 0, "vars": {}, "vars_section": True},
        },
        "selection": ["defaults"],
        "params": None,
        "data_paths": {"bases": {}, "cars": {}, "params": None},
        "node": {
            "node_name": "rally-node-0",
            "cluster_name": "rally-benchmark",
            "ip": "127.0.0.1",
            "http_port": 39200,
            "all_node_ips": ["127.0.0.1"],
            "all_node_names": ["rally-node-0"],
        },
        "disk": {
            "before": [],
            "data_files": 1,
            "missing_data_dirs": [],
            "home_files": [],
            "symlink_in_data": False,
            "symlink_in_home": False,
            "data_symlink": False,
        },
        "preserve": False,
    }
    for path, value in changes.items():
        target = case
        keys = path.split("__")
        for k in keys[:-1]:
            target = target[k]
        target[keys[-1]] = value
    return case


PROBES = {
    # defaults.ini:  [config] base = vanilla, ea   ->  " ea" is looked up, does not exist, and is silently skipped
    SIG_BLANK: _probe(cars__defaults__bases=["vanilla", "ea"], cars__defaults__sep=", "),
    # --car-params="data_paths:'<root>/disks/d0'" where d0 is a symbolic link to a directory on another volume
    SIG_SYMLINK: _probe(data_paths__params={"loc": "out", "rel": "d0", "slash": False}, disk__data_symlink=True),
}
