"""
C18 - Request timings span all sub-requests and never leak between clients.

Engine E1 (loop only). Two kinds of cases:
  kind "tree":      arbitrary trees of nested request contexts driven directly on the real RequestContextHolder /
                    RequestContextManager (children sequential or as concurrent asyncio tasks), 1-3 clients in one loop;
  kind "composite": the real AsyncIoAdapter / AsyncExecutor runs a task of operation type "composite" (real runner.Composite,
                    RequestTiming, streams, max-connections semaphore) whose leaf operations are scripted.
Oracle: min-start / max-end reference over the wire log of the simulated endpoint, per context; isolation by running client 0
alone and together with the others (metamorphic).
"""
import asyncio
import threading

import elasticsearch

from hypothesis import strategies as st

from esrally import track
from esrally.driver import driver
from esrally.driver import runner as rally_runner

from sim import kernel, loadgen, world

ID = "C18"
LEVEL = "exploration"
ENGINE = "E1 virtual-time asyncio loop + Hypothesis"
TECHNIQUE = "property-based testing on a virtual-time simulator: generated context trees / composite streams, min-start/max-end reference, isolation metamorphic relation"
RULE = (
    "Generated: (tree) context trees of depth <= 3, fan-out <= 4, children sequential or concurrent asyncio tasks, every context issues "
    ">= 1 wire request in its subtree (1-3 per leaf with drawn delay before the first send, service time, gaps), 1-3 clients in one "
    "loop, some sub-requests fail after having been on the wire (their parent handles the error), some contexts' last wire request gets no response (client-side timeout after earlier ones were answered); (composite) operation type 'composite' "
    "with nested streams (in a class one sub-request fails while sibling streams are on the wire and the client carries on with 1-2 further requests) or a sequential list whose k-th operation fails with HTTP 503 (or whose last wire request times out) under on-error=continue, 1-3 leaf operations per stream, max-connections in "
    "{unbounded,1,2}, run by the real AsyncExecutor for 1-3 clients. Non-trivial = some context has >= 2 concurrent children and the "
    "child that ends first is not the one that started first. Distinct = distinct canonical JSON."
)
ASSUMPTIONS = [
    "the endpoint raises aiohttp's trace signals (request start; request end at the headers; one chunk received per body chunk; request exception for a "
    "request that gets no response) and the callbacks that the real EsClientFactory.create_async registered for them stamp the request context",
    "leaf operations of a composite issue at least one wire request (all operation types a composite accepts do); in the tree kind a nested context may send nothing",
    "instants are dyadic rationals; exact comparison with 1e-9 tolerance",
]
BUDGET = {"quick": 2500, "thorough": 20000}
REQUIRED_CLASSES = {"concurrent-first-end-not-first-start": 100, "composite": 500, "multi-client": 500, "failing-sub-request": 200, "empty-nested-context": 100,
                    "failing-sub-request-in-concurrent-streams": 40, "previous-request-still-on-the-wire": 10,
                    "wire-request-times-out-after-an-answered-one": 60,
                    "nested-context-under-raw-response-context": 100}
TOL = 1e-9

DELAYS = [0, 0, 1 / 1024, 1 / 64, 1 / 8, 0.5]
SERVICES = [1 / 1024, 1 / 64, 1 / 8, 0.5, 1.0, 2.5]


# ------------------------------------------------------------------------------------------------ generator
@st.composite
def _wires(draw, lo=1, hi=3):
    n = draw(st.integers(lo, hi))
    return [[draw(st.sampled_from(DELAYS)), draw(st.sampled_from(SERVICES))] for _ in range(n)]


@st.composite
def _tree(draw, depth):
    # "fails": the sub-request raises after it has been on the wire; its parent handles the error and carries on
    fails = depth < 2 and draw(st.integers(0, 5)) == 0
    if depth == 0 or draw(st.integers(0, 3)) == 0:
        # a nested context may turn out to have nothing to send (a skipped optional step): it contributes nothing to its parent
        empty = depth < 2 and draw(st.integers(0, 7)) == 0
        wires = [] if empty else draw(_wires())
        # "times_out": the last of this context's wire requests gets no response (client-side timeout) after the earlier ones were answered;
        # the context is left by that exception, its parent handles it
        times_out = bool(wires) and depth < 2 and not fails and draw(st.integers(0, 5)) == 0
        return {"mode": "leaf", "wires": wires, "post": draw(st.sampled_from(DELAYS)), "children": [], "fails": fails, "times_out": times_out}
    n = draw(st.integers(1, 4))
    return {
        "raw": draw(st.integers(0, 3)) == 0,
        "mode": draw(st.sampled_from(["seq", "par", "par"])),
        "wires": draw(_wires(0, 2)),
        "post": draw(st.sampled_from(DELAYS)),
        "children": [draw(_tree(depth - 1)) for _ in range(n)],
        "fails": fails,
    }


@st.composite
def _stream(draw, depth, counter):
    items = []
    n = draw(st.integers(1, 3))
    for _ in range(n):
        if depth > 0 and draw(st.integers(0, 2)) == 0:
            k = draw(st.integers(1, 3))
            for _ in range(k):
                items.append({"stream": draw(_stream(depth - 1, counter))})
        counter[0] += 1
        items.append(
            {
                "operation-type": draw(st.sampled_from(["raw-request", "search", "sleep"])),
                "name": f"op{counter[0]}",
                "sim": {"pre": draw(st.sampled_from(DELAYS)), "wires": draw(_wires(1, 2)), "post": draw(st.sampled_from([0, 0, 1 / 128]))},
            }
        )
    if depth > 0 and draw(st.booleans()):
        # trailing streams (completed at the end of the enclosing stream)
        for _ in range(draw(st.integers(1, 2))):
            items.append({"stream": draw(_stream(depth - 1, counter))})
    return items


@st.composite
def _case(draw):
    kind = draw(st.sampled_from(["tree", "tree", "composite"]))
    n_clients = draw(st.integers(1, 3))
    if kind == "tree":
        return {"kind": "tree", "clients": [draw(_tree(2)) for _ in range(n_clients)], "perf_offset": draw(st.sampled_from([0.0, 500.5]))}
    counter = [0]
    streams = []
    if draw(st.integers(0, 3)) == 0:
        # a sequential composite whose k-th sub-request fails (HTTP 5xx after it has been on the wire); under on-error=continue the
        # enclosing request is still recorded and must span everything that was sent
        streams = [x for x in draw(_stream(0, counter)) if "operation-type" in x]
        # (or its last wire request - the next page of a paginated search, say - gets no response at all: "timeout")
        streams[draw(st.integers(0, len(streams) - 1))]["sim"]["fails"] = draw(st.sampled_from([True, True, "timeout"]))
    else:
        for _ in range(draw(st.integers(1, 3))):
            streams.append({"stream": draw(_stream(1, counter))})
    iterations = draw(st.integers(1, 2))
    if streams and "stream" in streams[0] and draw(st.integers(0, 3)) == 0:
        # a sub-request of one of several concurrent streams fails while its siblings may still be on the wire; the client carries on
        # with its next request (on-error=continue) while what is left of the failed one is torn down or runs out
        leafs = _leaf_ops(streams, [])
        leafs[draw(st.integers(0, len(leafs) - 1))]["sim"]["fails"] = True
        iterations = draw(st.integers(2, 3))
    shared = not any(l["sim"].get("fails") for l in _leaf_ops(streams, [])) and draw(st.integers(0, 2)) == 0
    return {
        "kind": "composite",
        "shared_params": shared,
        "n_clients": n_clients,
        "requests": streams,
        "max_connections": draw(st.sampled_from([None, None, 1, 2])),
        "iterations": iterations,
        "perf_offset": draw(st.sampled_from([0.0, 500.5])),
    }


def strategy(tier, known):
    return _case()


# ------------------------------------------------------------------------------------------------ kind "tree"
async def _run_node(es, node, path, out, wires_out):
    with es.new_request_context() as ctx:
        if node.get("raw"):
            es.return_raw_response()  # the runner asks for raw responses in this context (the flag lives next to the timings)
        for k, (gap, service) in enumerate(node["wires"]):
            if gap:
                await asyncio.sleep(gap)
            if node.get("times_out") and k == len(node["wires"]) - 1:
                try:
                    await es.wire(service, {"path": path}, fault=elasticsearch.ConnectionTimeout("sim: no response"))
                except elasticsearch.ConnectionTimeout as e:
                    w = e.sim_entry
                    wires_out.append((path, w["pc_start"], w["pc_end"]))
                    out[path] = (ctx.request_start, ctx.request_end)
                    raise _SubRequestFailed()
            w = await es.wire(service, {"path": path})
            wires_out.append((path, w["pc_start"], w["pc_end"]))
        async def child(i, ch):
            try:
                await _run_node(es, ch, path + (i,), out, wires_out)
            except _SubRequestFailed:
                pass  # the parent handles a failed sub-request and carries on

        kids = [child(i, ch) for i, ch in enumerate(node["children"])]
        if node["mode"] == "par":
            await asyncio.gather(*kids)
        else:
            for k in kids:
                await k
        if node["post"]:
            await asyncio.sleep(node["post"])
        out[path] = (ctx.request_start, ctx.request_end)
        if node.get("fails"):
            raise _SubRequestFailed()


class _SubRequestFailed(Exception):
    pass


def _run_tree_clients(trees, perf_offset):
    clock = kernel.VirtualClock(horizon=10_000.0)
    clock.offsets["worker"] = perf_offset
    w = world.World(clock)
    world.install(w)
    results = []
    with kernel.patched(*kernel.time_patches(clock)):
        token = kernel.current_proc.set("worker")
        try:

            async def client(i, tree):
                es = world.SimEs(client_id=i)
                out, wires = {}, []
                try:
                    await _run_node(es, tree, (), out, wires)
                except _SubRequestFailed:
                    pass
                return out, wires

            async def main():
                return await asyncio.gather(*[client(i, t) for i, t in enumerate(trees)])

            results = kernel.run_virtual(clock, main())
        finally:
            kernel.current_proc.reset(token)
    return results


def _subtree_span(wires, path):
    mine = [(s, e) for p, s, e in wires if p[: len(path)] == path]
    if not mine:
        return None, None  # nothing was sent on behalf of this context
    return min(s for s, _ in mine), max(e for _, e in mine)


def _check_tree(case, obs):
    trees = case["clients"]
    results = _run_tree_clients(trees, case["perf_offset"])
    interesting = False
    for ci, (out, wires) in enumerate(results):
        for path, (start, end) in sorted(out.items()):
            s_ref, e_ref = _subtree_span(wires, path)
            if s_ref is None:
                obs.check(start is None and end is None, "empty-context-has-timings", f"client {ci} context {path} sent nothing but records ({start}, {end})")
                obs.cls("empty-nested-context")
                continue
            obs.check(
                start is not None and abs(start - s_ref) <= TOL,
                "context-start-not-earliest",
                f"client {ci} context {path}: recorded start {start}, earliest wire start in its subtree {s_ref}",
            )
            obs.check(
                end is not None and abs(end - e_ref) <= TOL,
                "context-end-not-latest",
                f"client {ci} context {path}: recorded end {end}, latest wire end in its subtree {e_ref}",
            )
        interesting = interesting or _first_end_not_first_start(trees[ci], (), wires)
    if len(trees) > 1:
        alone = _run_tree_clients(trees[:1], case["perf_offset"])[0]
        obs.check(alone[0] == results[0][0], "leak-between-clients", f"client 0 alone {alone[0]} vs together {results[0][0]}")
        obs.cls("multi-client")
    if interesting:
        obs.cls("concurrent-first-end-not-first-start")
    if any(_has_failing(t) for t in trees):
        obs.cls("failing-sub-request")
    if any(_has_timeout_after_response(t) for t in trees):
        obs.cls("wire-request-times-out-after-an-answered-one")
    if any(_has_raw_parent(t) for t in case["clients"]):
        obs.cls("nested-context-under-raw-response-context")
    obs.cls("tree")
    obs.mark_nontrivial(interesting)


def _has_raw_parent(node):
    return (bool(node.get("raw")) and bool(node["children"])) or any(_has_raw_parent(ch) for ch in node["children"])


def _has_failing(node):
    return bool(node.get("fails")) or any(_has_failing(ch) for ch in node["children"])


def _has_timeout_after_response(node):
    return (bool(node.get("times_out")) and len(node["wires"]) >= 2) or any(_has_timeout_after_response(ch) for ch in node["children"])


def _first_end_not_first_start(node, path, wires):
    found = False
    if node["mode"] == "par" and len(node["children"]) >= 2:
        spans = [sp for sp in (_subtree_span(wires, path + (i,)) for i in range(len(node["children"]))) if sp[0] is not None]
        if len(spans) < 2:
            spans = [(0.0, 0.0), (0.0, 1.0)]
        first_end = min(range(len(spans)), key=lambda i: spans[i][1])
        if spans[first_end][0] > min(s for s, _ in spans) + TOL:
            found = True
    for i, ch in enumerate(node["children"]):
        found = _first_end_not_first_start(ch, path + (i,), wires) or found
    return found


# ------------------------------------------------------------------------------------------------ kind "composite"
class _LeafRunner:
    """scripted leaf operation; registered for the operation types a composite accepts"""

    def __init__(self, name):
        self.name = name

    async def __aenter__(self):
        return self

    async def __aexit__(self, *a):
        return False

    def __repr__(self):
        return self.name

    async def __call__(self, es, params):
        sim = params["sim"]
        if sim["pre"]:
            await asyncio.sleep(sim["pre"])
        for k, (gap, service) in enumerate(sim["wires"]):
            if gap:
                await asyncio.sleep(gap)
            if sim.get("fails") == "timeout" and k == len(sim["wires"]) - 1:
                # the last page never arrives: the client gives up (the wire request ends with an exception, not with a response)
                await es.wire(service, {"op": params["name"], "seq": sim.get("seq")}, fault=elasticsearch.ConnectionTimeout("sim: no response"))
            await es.wire(service, {"op": params["name"], "seq": sim.get("seq")})
        if sim["post"]:
            await asyncio.sleep(sim["post"])
        if sim.get("fails"):
            raise world._api_error(503)  # pylint: disable=protected-access
        return {"weight": 1, "unit": "ops", "success": True}


class _CompositeSource:
    def __init__(self, track, params, **kw):
        self._params = params

    def partition(self, i, n):
        return self

    infinite = True

    _seq = 0

    def params(self):
        import copy

        if self._params.get("verif-shared"):
            # what the default ParamSource does: every client, every iteration gets the very same dict object
            return self._params
        p = copy.deepcopy(self._params)
        # every request (one call of params()) gets a number that its sub-requests carry onto the wire
        _CompositeSource._seq += 1
        for leaf in _leaf_ops(p["requests"], []):
            leaf["sim"]["seq"] = _CompositeSource._seq
        return p


def _leaf_ops(items, acc):
    for it in items:
        if "stream" in it:
            _leaf_ops(it["stream"], acc)
        else:
            acc.append(it)
    return acc


def _run_composite(case, n_clients):
    from esrally.track import params as rally_params

    clock = kernel.VirtualClock(horizon=100_000.0)
    clock.offsets["worker"] = case["perf_offset"]
    w = world.World(clock)
    world.install(w)
    for op_type in ("raw-request", "search", "sleep"):
        rally_runner.register_runner(op_type, _LeafRunner(op_type), async_runner=True)
    rally_runner.register_runner("composite", rally_runner.Composite(), async_runner=True)
    rally_params.register_param_source_for_name("c18-composite-source", _CompositeSource)
    params = {"requests": case["requests"]}
    if case.get("shared_params"):
        params["verif-shared"] = True
    if case["max_connections"] is not None:
        params["max-connections"] = case["max_connections"]
    op = track.Operation("comp", "composite", params=params, param_source="c18-composite-source")
    task = track.Task("comp-task", op, iterations=case["iterations"], clients=n_clients)
    t = track.Track("sim-track", challenges=[track.Challenge("c", default=True, schedule=[task])])
    failing = any(l["sim"].get("fails") for l in _leaf_ops(case["requests"], []))
    cfg = loadgen.base_config("continue" if failing else "abort")
    allocs, contexts = [], {}
    for i in range(n_clients):
        allocs.append(driver.ClientAllocation(i, driver.TaskAllocation(task, i, i, n_clients)))
        contexts[i] = driver.ClientContext(client_id=i, parent_worker_id=0)
    cancel, complete = threading.Event(), threading.Event()
    with kernel.patched(*(kernel.time_patches(clock) + [(driver.client, "EsClientFactory", world.SimEsFactory)])):
        token = kernel.current_proc.set("worker")
        try:
            sampler = driver.Sampler(start_timestamp=clock.perf_counter())
            adapter = driver.AsyncIoAdapter(cfg, t, allocs, sampler, cancel, complete, "continue" if failing else "abort", contexts, 0)
            kernel.run_virtual(clock, adapter.run())
            samples = sampler.samples
        finally:
            kernel.current_proc.reset(token)
    return samples, w.wire_log + w.wire_cancelled


def _deps(sample):
    """Sample.dependent_timings consumes its input (the post-processor reads it once): read once and cache"""
    cached = getattr(sample, "_verif_deps", None)
    if cached is None:
        cached = list(sample.dependent_timings)
        sample._verif_deps = cached  # pylint: disable=protected-access
    return cached


def _sample_view(samples, client_id):
    view = []
    for s in samples:
        if s.client_id != client_id:
            continue
        deps = sorted((d.operation_name, d.operation_type, d.request_start, d.service_time) for d in _deps(s))
        view.append((s.request_start, s.service_time, s.latency, deps))
    return view


def _check_composite(case, obs):
    n = case["n_clients"]
    samples, wire_log = _run_composite(case, n)
    leafs = _leaf_ops(case["requests"], [])
    interesting = False
    for ci in range(n):
        mine = [s for s in samples if s.client_id == ci]
        if not obs.check(len(mine) == case["iterations"], "sample-count", f"client {ci}: {len(mine)} samples for {case['iterations']} iterations"):
            continue
        wires = [x for x in wire_log if x["es_client_id"] == ci]
        # wires of iteration k: those that carry the number of the client's k-th request
        if case.get("shared_params"):
            # the clients share one parameter dict, so sub-requests cannot carry a request number: a client's requests follow one another,
            # each putting the same number of sub-requests on the wire
            wires.sort(key=lambda x: (x["pc_start"], x["pc_end"]))
            per_iter = len(wires) // case["iterations"]
            for i, x in enumerate(wires):
                x["seq"] = i // per_iter if per_iter else 0
        seqs = sorted({x["seq"] for x in wires})
        if not obs.check(len(seqs) == case["iterations"], "requests-on-the-wire", f"client {ci}: sub-requests of {len(seqs)} requests on the wire, {case['iterations']} iterations"):
            continue
        failing_leaf = next((l for l in leafs if l["sim"].get("fails")), None)
        concurrent_failure = failing_leaf is not None and any("stream" in x for x in case["requests"])
        for k, s in enumerate(mine):
            ws = [x for x in wires if x["seq"] == seqs[k]]
            if concurrent_failure:
                # The request ends when the failing sub-request raises; its siblings are torn down or run out later (possibly while the
                # client's next request is under way). What the request reports covers the sub-requests that were complete by then
                # (a sub-request still in flight has no end yet); whatever happens afterwards belongs to no other request either.
                fw = [x for x in ws if x["op"] == failing_leaf["name"] and not x.get("cancelled")]
                if not obs.check(len(fw) == len(failing_leaf["sim"]["wires"]), "failing-sub-request-never-sent", f"client {ci} iteration {k}: {failing_leaf['name']} not on the wire"):
                    continue
                raised = max(x["pc_end"] for x in fw) + failing_leaf["sim"]["post"]
                done, optional = [fw], []
                for leaf in leafs:
                    lw = [x for x in ws if x["op"] == leaf["name"]]
                    if leaf is failing_leaf:
                        continue
                    complete = len(lw) == len(leaf["sim"]["wires"]) and not any(x.get("cancelled") for x in lw)
                    if complete and max(x["pc_end"] for x in lw) + leaf["sim"]["post"] < raised - TOL:
                        done.append(lw)
                    else:
                        # still under way when the failure ended the request (or finishing at that very instant): whether its nested context
                        # is left - by cancellation or regularly - before the request's context is depends on where the streams sit in
                        # the composite; what it had sent (answered) by then may or may not be included
                        optional.extend(x for x in lw if x["pc_start"] <= raised + TOL)
                base_s = min(x["pc_start"] for lw in done for x in lw)
                base_e = max(x["pc_end"] for lw in done for x in lw)
                starts = {base_s} | {x["pc_start"] for x in optional if x["pc_start"] < base_s}
                ends = {base_e} | {x["pc_end"] for x in optional if not x.get("cancelled") and base_e < x["pc_end"] <= raised + TOL}
                # (a response whose headers were in by then had signalled a first, preliminary end)
                ends |= {x["pc_header_end"] for x in optional if x.get("pc_header_end") is not None and base_e < x["pc_header_end"] <= raised + TOL}
                got_end = s.request_start + s.service_time
                obs.check(any(abs(s.request_start - v) <= TOL for v in starts), "context-start-not-earliest",
                          f"client {ci} iteration {k} (a sub-request failed at {raised}): request_start {s.request_start}, admissible earliest sub-request starts {sorted(starts)}")
                obs.check(any(abs(got_end - v) <= TOL for v in ends), "failed-composite-end",
                          f"client {ci} iteration {k} (a sub-request failed at {raised}): request ends at {got_end}, admissible latest sub-request ends {sorted(ends)}")
                obs.check(s.request_meta_data.get("success") is False, "failed-composite-success-flag", f"client {ci}: meta {s.request_meta_data}")
                obs.cls("failing-sub-request", "failing-sub-request-in-concurrent-streams")
                if k > 0 and any(x["pc_end"] > min(y["pc_start"] for y in ws) + TOL for x in wires if x["seq"] == seqs[k - 1]):
                    obs.cls("previous-request-still-on-the-wire")
                continue
            s_ref = min(x["pc_start"] for x in ws)
            obs.check(abs(s.request_start - s_ref) <= TOL, "context-start-not-earliest", f"client {ci} iteration {k}: request_start {s.request_start}, earliest sub-request sent at {s_ref}")
            e_ref = max(x["pc_end"] for x in ws)
            obs.check(
                abs(s.service_time - (e_ref - s_ref)) <= TOL,
                "composite-service-time",
                f"client {ci} iteration {k}: service_time {s.service_time}, sub-requests span {e_ref - s_ref} ({s_ref}..{e_ref})",
            )
            failing = any(l["sim"].get("fails") for l in leafs)
            if any(l["sim"].get("fails") == "timeout" and len(l["sim"]["wires"]) >= 2 for l in leafs):
                obs.cls("wire-request-times-out-after-an-answered-one")
            if failing:
                # the runner raised: no sub-request timings are reported, but the request itself is (success: False)
                obs.check(s.request_meta_data.get("success") is False, "failed-composite-success-flag", f"client {ci}: meta {s.request_meta_data}")
                obs.cls("failing-sub-request")
                continue
            deps = {d.operation_name: d for d in _deps(s)}
            obs.check(sorted(deps) == sorted(l["name"] for l in leafs), "dependent-timing-set", f"client {ci}: timings for {sorted(deps)}")
            spans = {}
            for leaf in leafs:
                lw = [x for x in ws if x["op"] == leaf["name"]]
                ls, le = min(x["pc_start"] for x in lw), max(x["pc_end"] for x in lw)
                spans[leaf["name"]] = (ls, le)
                d = deps.get(leaf["name"])
                if d is None:
                    continue
                obs.check(d.operation_type == leaf["operation-type"], "dependent-op-type", f"{leaf['name']}: {d.operation_type}")
                obs.check(
                    abs(d.service_time - (le - ls)) <= TOL and abs(d.request_start - ls) <= TOL,
                    "dependent-timing",
                    f"client {ci} sub-request {leaf['name']}: start {d.request_start} service_time {d.service_time}, wire says {ls}..{le}",
                )
            first_end = min(spans, key=lambda nme: spans[nme][1])
            if len(spans) >= 2 and spans[first_end][0] > min(v[0] for v in spans.values()) + TOL:
                interesting = True
    if n > 1:
        alone, _ = _run_composite(case, 1)
        # client 0 alone vs together: identical timings (start offsets are identical because all clients start at the same instant)
        obs.check(_sample_view(alone, 0) == _sample_view(samples, 0), "leak-between-clients", "client 0 alone vs together differ")
        obs.cls("multi-client")
    if interesting:
        obs.cls("concurrent-first-end-not-first-start")
    obs.cls("composite")
    if case.get("shared_params") and n > 1:
        obs.cls("clients-share-one-params-dict")
    obs.mark_nontrivial(interesting)


def run_case(case, obs):
    if case["kind"] == "tree":
        _check_tree(case, obs)
    else:
        _check_composite(case, obs)


PROBES = {
    "context-start-not-earliest": {
        "kind": "tree",
        "perf_offset": 0.0,
        "clients": [
            {
                "mode": "par",
                "wires": [],
                "post": 0,
                "children": [
                    {"mode": "leaf", "wires": [[0, 2.5]], "post": 0, "children": []},
                    {"mode": "leaf", "wires": [[0.5, 1.0]], "post": 0, "children": []},
                ],
            }
        ],
    }
}
