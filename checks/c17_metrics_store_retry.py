"""
C17 - Metrics store calls survive transient faults and never repeat after success.

Real code: esrally.metrics.EsClient (every store operation -> EsClient.guarded) around the real synchronous client that
metrics.EsClientFactory builds (client.EsClientFactory(...).create() -> RallySyncElasticsearch), whose
``transport.perform_request`` is the scripted fault source.  So status codes become ApiError subclasses inside the client,
``ignore=`` / HEAD-404 handling is the client's, and per-item failures become BulkIndexError inside the real
``elasticsearch.helpers.bulk``: nothing between ``guarded`` and the wire is faked.  ``esrally.time.sleep`` is recorded,
Rally's jitter (random.random) is pinned by ``random.seed(case["seed"])``.

Oracle: reference model written from the property statement (retryable = connection timeout, connection error, HTTP
429/502/503/504 also per bulk item; at most ten retries; pauses grow exponentially; first success ends the call; everything
else surfaces at once as a Rally error naming the cause).
"""
import itertools
import hashlib
import json
import os
import sys
import logging
import random
import warnings

import elastic_transport
import elasticsearch
from elastic_transport._transport import TransportApiResponse
from hypothesis import strategies as st

import esrally.time
from esrally import client, exceptions, metrics
from vlib import core

ID = "C17"
LEVEL = "fault_enumeration"
TECHNIQUE = (
    "fault-sequence enumeration by class pattern plus property-based search (Hypothesis) over mixed sequences; scripted wire faults "
    "under the real Elasticsearch client and real metrics.EsClient.guarded; reference-model oracle"
)
RULE = (
    "Case = store operation (bulk_index, index, search, refresh, put_template, template_exists, get_template, create_index, exists, "
    "delete, delete_by_query) x script of 0-12 wire outcomes (ok, ConnectionTimeout, ConnectionError or its sub-class TlsError, HTTP 429/502/503/504, HTTP 401, "
    "403, other HTTP 400/404/409/500, other TransportError (SerializationError/bare/SniffingError), and for bulk operations a 200 "
    "response with per-item statuses: all failures retryable / at least one non-retryable failure), after which the store answers ok; "
    "x client freshly created or already verified x jitter seed. Exhaustive sub-domain: every operation x retryable prefix (each "
    "single retryable class and a rotating mix; thorough: additionally every mixed prefix of length <= 3) of length 0-12 x every "
    "terminal class (quick: prefixes of length 3-8 get a rotating third of the terminal classes). Non-trivial = (>= 3 attempts on the wire with >= 2 different retryable classes) or the ten retries were exhausted "
    "or a per-item bulk error occurred. Distinct = distinct canonical JSON."
)
ASSUMPTIONS = [
    "one call of the wrapped client function = one operation request on the wire (the product-check 'GET /' that RallySyncElasticsearch issues on a fresh client object is answered 200 and not counted; bulk requests carry < 5000 documents = one chunk; flushes of 5001-10001 documents, which go out as two or three bulk requests inside one store call, are a class of their own: a fault on any chunk ends the attempt and a retry starts over)",
    "statuses the operation itself declares benign are successes: HEAD 404 (exists/template_exists -> False), 404 for delete, 400 for create_index (ignore= in EsClient)",
    "'naming the cause' is accepted as: the error type text of the response / failed bulk item, or the HTTP status, or the transport error text; for connection errors, timeouts, 401/403 and body-less (HEAD) responses host and port of the store",
    "the i-th pause must lie in [2^(i-1), 2^(i-1)+1) (DESIGN.md reading of 'exponentially growing'); the jitter value itself is not checked",
    "bulk_index/index return nothing, so 'result returned' is checked for the other operations only",
    "EsClient.get_index is not exercised: no caller in Rally, and with the installed elasticsearch-py 8.6.1 it raises TypeError (indices.get has no 'name' parameter) before any request is made",
]
BUDGET = {"quick": 1500, "thorough": 15000}
REQUIRED_CLASSES = {
    "exhausted": 100,
    "bulk-item-error": 100,
    "flush-of-several-chunks": 60,
    "attempts>=3-two-retryable-classes": 100,
    "success-after-retries": 100,
    "auth-error": 100,
    "other-api-error": 100,
    "other-transport-error": 50,
    "benign-status": 50,
    "eleventh-attempt-succeeds": 20,
}

HOST, PORT = "metrics-store.example.org", 9243
OPS = ["bulk_index", "index", "search", "refresh", "put_template", "template_exists", "get_template", "create_index", "exists", "delete", "delete_by_query"]
BULK_OPS = {"bulk_index", "index"}
HEAD_OPS = {"exists", "template_exists"}
RETRYABLE_STATUS = (429, 502, 503, 504)
RETRYABLE = ["conn_timeout", "conn_error", "conn_error_tls", "http:429", "http:502", "http:503", "http:504"]
OTHER_STATUS = (400, 404, 409, 500)
ERROR_TYPE = {
    400: "illegal_argument_exception",
    401: "security_exception",
    403: "security_exception",
    404: "index_not_found_exception",
    409: "version_conflict_engine_exception",
    429: "es_rejected_execution_exception",
    500: "null_pointer_exception",
    502: "bad_gateway_exception",
    503: "unavailable_shards_exception",
    504: "gateway_timeout_exception",
}
ITEM_ERROR_TYPE = {**ERROR_TYPE, 400: "mapper_parsing_exception", 429: "circuit_breaking_exception"}
TEMPLATE = '{"index_patterns": ["rally-metrics-*"], "template": {"settings": {"index": {"number_of_shards": 1}}}}'
MAX_RETRIES = 10


# ------------------------------------------------------------------------------------------------ set-up
_STATE = {}


def setup():
    warnings.filterwarnings("ignore", category=DeprecationWarning)
    warnings.filterwarnings("ignore", category=elasticsearch.ElasticsearchWarning)
    lg = logging.getLogger("esrally")
    lg.addHandler(logging.NullHandler())
    lg.propagate = False
    lg.setLevel(logging.CRITICAL + 1)
    factory = client.EsClientFactory(
        hosts=[{"host": HOST, "port": PORT}],
        client_options={"use_ssl": False, "verify_certs": True, "timeout": 120, "basic_auth_user": "rally", "basic_auth_password": "secret"},
        distribution_version="8.6.1",
        distribution_flavor="default",
    )
    _STATE["es"] = factory.create()
    _STATE["real_sleep"] = esrally.time.sleep
    _STATE["node"] = elastic_transport.NodeConfig("http", HOST, PORT)


def teardown():
    if "real_sleep" in _STATE:
        esrally.time.sleep = _STATE["real_sleep"]
    es = _STATE.get("es")
    if es is not None:
        try:
            es.close()
        except Exception:  # pylint: disable=broad-except
            pass


class _Runaway(BaseException):
    pass


def _meta(status):
    return elastic_transport.ApiResponseMeta(
        status, "1.1", elastic_transport.HttpHeaders({"x-elastic-product": "Elasticsearch", "content-type": "application/json"}), 0.0, _STATE["node"]
    )


# ------------------------------------------------------------------------------------------------ reference model
def _kind(op, outcome):
    """what the statement says about one wire outcome of operation op: success | retry | auth | error"""
    if outcome == "ok":
        return "success"
    if outcome in ("conn_timeout", "conn_error", "conn_error_tls"):
        return "retry"
    head, _, arg = outcome.partition(":")
    if head == "http":
        status = int(arg)
        if status in RETRYABLE_STATUS:
            return "retry"
        if status in (401, 403):
            return "auth"
        if (status == 404 and (op in HEAD_OPS or op == "delete")) or (status == 400 and op == "create_index"):
            return "success"  # declared benign by the operation itself
        return "error"
    if head == "transport_other":
        return "error"
    if head in ("bulk_retry", "bulk_fatal"):
        if op not in BULK_OPS:
            raise core.HarnessError(f"bulk outcome for non-bulk operation {op}")
        statuses = [int(s) for s in arg.split(",")]
        failed = [s for s in statuses if s >= 300]
        if not failed:
            return "success"
        return "retry" if all(s in RETRYABLE_STATUS for s in failed) else "error"
    raise core.HarnessError(f"unknown outcome {outcome}")


def _outcome_at(case, i):
    return case["outcomes"][i] if i < len(case["outcomes"]) else "ok"


def _model(case):
    """-> (attempts, end) with end in success | auth | error | exhausted"""
    i = 0
    while True:
        k = _kind(case["op"], _outcome_at(case, i))
        i += 1
        if k != "retry":
            return i, k
        if i == MAX_RETRIES + 1:
            return i, "exhausted"


# ------------------------------------------------------------------------------------------------ execution
def _n_items(case):
    return 1 if case["op"] == "index" else max(1, int(case.get("n_items", 2)))


def _bulk_body(statuses, attempt):
    items = []
    for k, s in enumerate(statuses):
        item = {"_index": "rally-metrics-2026-09", "_id": f"doc-{k}", "status": s}
        if s >= 300:
            item["error"] = {"type": ITEM_ERROR_TYPE[s], "reason": f"attempt {attempt}"}
        items.append({"index": item})
    return {"took": attempt, "errors": any(s >= 300 for s in statuses), "items": items}


def _ok_body(op, attempt, n_items):
    if op in BULK_OPS:
        return _bulk_body([201] * n_items, attempt)
    return {
        "search": {"took": attempt, "hits": {"total": {"value": 0, "relation": "eq"}, "hits": []}},
        "refresh": {"_shards": {"total": 2, "successful": 2, "failed": 0}, "attempt": attempt},
        "put_template": {"acknowledged": True, "attempt": attempt},
        "get_template": {"index_templates": [], "attempt": attempt},
        "create_index": {"acknowledged": True, "index": "rally-metrics-2026-09", "attempt": attempt},
        "delete": {"result": "deleted", "attempt": attempt},
        "delete_by_query": {"deleted": 3, "attempt": attempt},
    }[op]


def _invoke(c, case):
    op = case["op"]
    if op == "bulk_index":
        return c.bulk_index("rally-metrics-2026-09", [{"name": "latency", "value": k} for k in range(_n_items(case))])
    if op == "index":
        return c.index("rally-races-2026-09", {"race-id": "r1"}, id="r1")
    if op == "search":
        return c.search("rally-metrics-*", {"query": {"match_all": {}}})
    if op == "refresh":
        return c.refresh("rally-metrics-2026-09")
    if op == "put_template":
        return c.put_template("rally-metrics", TEMPLATE)
    if op == "template_exists":
        return c.template_exists("rally-metrics")
    if op == "get_template":
        return c.get_template("rally-metrics")
    if op == "create_index":
        return c.create_index("rally-metrics-2026-09")
    if op == "exists":
        return c.exists("rally-metrics-2026-09")
    if op == "delete":
        return c.delete("rally-races-2026-09", "r1")
    if op == "delete_by_query":
        return c.delete_by_query("rally-metrics-*", {"query": {"match_all": {}}})
    raise core.HarnessError(f"unknown operation {op}")


def _cause_tokens(case, index, end):
    """acceptable ways of naming the cause of the failure produced by wire outcome `index`"""
    outcome = _outcome_at(case, index)
    head, _, arg = outcome.partition(":")
    where = [(HOST, str(PORT))]
    if outcome in ("conn_timeout", "conn_error", "conn_error_tls"):
        return where
    if head == "http":
        status = int(arg)
        if status in (401, 403) or case["op"] in HEAD_OPS:
            return where + [(str(status),)]
        return [(ERROR_TYPE[status],), (str(status),)]
    if head == "transport_other":
        return [(f"wire-fault-{index + 1}",)]
    if head in ("bulk_retry", "bulk_fatal"):
        statuses = [int(s) for s in arg.split(",")]
        bad = [s for s in statuses if s >= 300 and (end == "exhausted" or s not in RETRYABLE_STATUS)]
        return [(ITEM_ERROR_TYPE[s],) for s in bad] + [(str(s),) for s in bad]
    return where


_FRESH_SCRIPT = r"""
import json, sys
repo, outcomes = sys.argv[1], json.loads(sys.argv[2])
sys.path.insert(0, repo)
import elastic_transport, elasticsearch   # (what esrally.metrics itself imports at module level; NOT elasticsearch.helpers)
import esrally.time
from esrally import exceptions, metrics
sleeps = []
esrally.time.sleep = lambda s: sleeps.append(s)
def meta(status):
    return elastic_transport.ApiResponseMeta(status=status, http_version="1.1", headers=elastic_transport.HttpHeaders(), duration=0.0,
                                             node=elastic_transport.NodeConfig("http", "sim", 9200))
calls = []
def target():
    o = outcomes[len(calls)] if len(calls) < len(outcomes) else "ok"
    calls.append(o)
    if o == "ok":
        return "result"
    if o.startswith("http:"):
        st = int(o[5:])
        raise elasticsearch.ApiError(message="sim", meta=meta(st), body={"error": "sim"})
    if o == "transport_other":
        raise elasticsearch.SerializationError("sim")
    raise AssertionError(o)
class Pool:
    def get(self):
        return elastic_transport.NodeConfig("http", "sim", 9200)
class Transport:
    node_pool = Pool()
class Client:
    transport = Transport()
out = {"helpers_loaded_before": "elasticsearch.helpers" in sys.modules}
try:
    out["returned"] = metrics.EsClient(Client()).guarded(target)
except exceptions.RallyError as e:
    out["rally_error"] = str(e)[:200]
except BaseException as e:
    out["other_error"] = type(e).__name__ + ": " + str(e)[:200]
out["calls"] = len(calls)
out["sleeps"] = len(sleeps)
print(json.dumps(out))
"""


def _run_fresh_process(case, obs):
    """
    The first calls of a process (opening the store: template_exists, put_template, exists, create_index ...) happen before anything has
    written a bulk, i.e. in an interpreter that has imported esrally.metrics and nothing else: the same fault classes, the same handling.
    """
    import subprocess  # pylint: disable=import-outside-toplevel

    repo = os.path.dirname(os.path.dirname(os.path.abspath(metrics.__file__)))
    p = subprocess.run([sys.executable, "-c", _FRESH_SCRIPT, repo, json.dumps(case["outcomes"])], capture_output=True, text=True, timeout=120,
                       env=dict(os.environ, PYTHONDONTWRITEBYTECODE="1"), check=False)
    if p.returncode != 0 or not p.stdout.strip():
        raise core.HarnessError(f"fresh interpreter failed: {p.stderr[-600:]}")
    out = json.loads(p.stdout.strip().splitlines()[-1])
    want_calls = len(case["outcomes"]) + 1 if case["expect"] == "ok" else len(case["outcomes"])
    where = f"fresh interpreter, outcomes {case['outcomes']}: {out}"
    obs.check("other_error" not in out, "fresh-process/unexpected-exception", where)
    if case["expect"] == "ok":
        obs.check(out.get("returned") == "result" and out["calls"] == want_calls and out["sleeps"] == want_calls - 1, "fresh-process/not-retried", where)
    else:
        obs.check("rally_error" in out and out["calls"] == want_calls, "fresh-process/not-a-rally-error", where)
    obs.cls("fresh-interpreter")
    obs.mark_nontrivial(True)


# ------------------------------------------------------------------------------------------------ flushes of more than one chunk
CHUNK = 5000  # metrics.EsClient.bulk_index sends chunks of 5000 documents (one bulk request each)


def _chunked_model(case):
    """(wire requests as (attempt, chunk index), number of pauses, end) for a flush of several chunks: a fault on any chunk ends the
    attempt (helpers.bulk raises at the first failing chunk), a retryable one makes the whole call start over after a pause"""
    sizes = []
    left = case["n_items"]
    while left > 0:
        sizes.append(min(CHUNK, left))
        left -= sizes[-1]
    script = list(case["script"])
    wire = []
    for attempt in range(MAX_RETRIES + 1):
        failed = None
        for ci, _ in enumerate(sizes):
            outcome = script[len(wire)] if len(wire) < len(script) else "ok"
            wire.append((attempt, ci))
            if outcome != "ok":
                failed = outcome
                break
        if failed is None:
            return sizes, wire, attempt, "success"
        status = int(failed.partition(":")[2]) if ":" in failed else None
        retryable = failed in ("conn_timeout", "conn_error") or status in RETRYABLE_STATUS
        if not retryable:
            return sizes, wire, attempt, "error"
    return sizes, wire, MAX_RETRIES, "exhausted"


def _run_chunked(case, obs):
    es = _STATE["es"]
    sizes, want_wire, want_pauses, end = _chunked_model(case)
    script = case["script"]
    seen = []  # documents per wire request
    sleeps = []

    def wire(method, target, **kw):
        if method == "GET" and target == "/":
            return TransportApiResponse(_meta(200), {"version": {"number": "8.6.1", "build_flavor": "default"}, "tagline": "You Know, for Search"})
        n = len(seen)
        if n >= len(want_wire) + 3 * len(sizes):
            raise _Runaway()
        body = kw.get("body")
        docs = len(body) // 2 if isinstance(body, (list, tuple)) else (body.count(b"\n") if isinstance(body, bytes) else str(body).count("\n")) // 2
        seen.append(docs)
        outcome = script[n] if n < len(script) else "ok"
        head, _, arg = outcome.partition(":")
        if outcome == "ok":
            return TransportApiResponse(_meta(200), _bulk_body([201] * docs, n + 1))
        if outcome == "conn_timeout":
            raise elasticsearch.ConnectionTimeout(f"wire-fault-{n + 1}")
        if outcome == "conn_error":
            raise elasticsearch.ConnectionError(f"wire-fault-{n + 1}")
        if head == "http":
            status = int(arg)
            return TransportApiResponse(_meta(status), {"error": {"type": ERROR_TYPE[status], "reason": f"request {n + 1}"}, "status": status})
        if head == "item":  # one document of this chunk is rejected
            statuses = [201] * docs
            statuses[(7 * n + docs // 2) % docs] = int(arg)
            return TransportApiResponse(_meta(200), _bulk_body(statuses, n + 1))
        raise core.HarnessError(f"unknown outcome {outcome}")

    es.transport.perform_request = wire
    es._verified_elasticsearch = True  # pylint: disable=protected-access
    esrally.time.sleep = sleeps.append
    random.seed(case.get("seed", 0))
    c = metrics.EsClient(es)
    error = raw = None
    runaway = False
    try:
        c.bulk_index("rally-metrics-2026-09", [{"name": "latency", "value": k} for k in range(case["n_items"])])
    except _Runaway:
        runaway = True
    except exceptions.RallyError as e:
        error = e
    except core.HarnessError:
        raise
    except Exception as e:  # pylint: disable=broad-except
        if not isinstance(e, (elasticsearch.ApiError, elasticsearch.TransportError)) and type(e).__name__ != "BulkIndexError":
            raise  # a crash inside the store call (classified by the framework)
        raw = e
    finally:
        esrally.time.sleep = _STATE["real_sleep"]
        del es.transport.perform_request
    what = f"bulk_index of {case['n_items']} documents (chunks {sizes}), wire outcomes {script} then ok"
    obs.cls("flush-of-several-chunks", f"several-chunks:{end}")
    obs.mark_nontrivial(True)
    if runaway:
        obs.violation("chunked/runaway", f"{what}: still sending after {len(seen)} requests, model expects {len(want_wire)}")
        return
    if raw is not None:
        obs.violation("chunked/raw-client-exception", f"{what}: {type(raw).__name__} escaped from the store call instead of being retried / reported as a Rally error: {str(raw)[:200]}")
        return
    want_docs = [sizes[ci] for _, ci in want_wire]
    if not obs.check(seen == want_docs, "chunked/requests", f"{what}: documents per wire request {seen}, expected {want_docs} (a fault ends the attempt, a retry starts over)"):
        return
    obs.check(len(sleeps) == want_pauses, "chunked/pauses", f"{what}: {len(sleeps)} pause(s) {sleeps}, expected {want_pauses}")
    for i, sl in enumerate(sleeps, start=1):
        obs.check(2 ** (i - 1) <= sl < 2 ** (i - 1) + 1, "chunked/pause-not-exponential", f"{what}: pause {i} is {sl} s; all pauses {sleeps}")
    if end == "success":
        obs.check(error is None, "chunked/error-after-success", f"{what}: the last attempt delivered every chunk but the call raised {error!r}")
    else:
        obs.check(error is not None, f"chunked/no-error-{end}", f"{what}: must surface as a Rally error but the call returned")


def run_case(case, obs):
    if case.get("chunked"):
        _run_chunked(case, obs)
        return
    if case.get("fresh_process"):
        _run_fresh_process(case, obs)
        return
    op = case["op"]
    outcomes = case["outcomes"]
    es = _STATE["es"]
    n_items = _n_items(case)
    events = []  # "R" operation request, "P" product check, ("S", seconds)
    requests = []
    produced = []

    def wire(method, target, **kw):
        if method == "GET" and target == "/":
            events.append("P")
            return TransportApiResponse(_meta(200), {"version": {"number": "8.6.1", "build_flavor": "default"}, "tagline": "You Know, for Search"})
        n = len(requests)
        if n >= len(outcomes) + 3:
            raise _Runaway()
        events.append("R")
        requests.append((method, target))
        outcome = _outcome_at(case, n)
        attempt = n + 1
        head, _, arg = outcome.partition(":")
        if outcome == "ok":
            body = _ok_body(op, attempt, n_items) if method != "HEAD" else None
            produced.append(("body", 200, body))
            return TransportApiResponse(_meta(200), body)
        if outcome == "conn_timeout":
            produced.append(("exc", None, None))
            raise elasticsearch.ConnectionTimeout(f"wire-fault-{attempt}")
        if outcome == "conn_error":
            produced.append(("exc", None, None))
            raise elasticsearch.ConnectionError(f"wire-fault-{attempt}")
        if outcome == "conn_error_tls":
            # the client library's sub-class of ConnectionError for TLS faults (handshake reset while a proxy restarts, ...)
            produced.append(("exc", None, None))
            raise elastic_transport.TlsError(f"wire-fault-{attempt}")
        if head == "transport_other":
            produced.append(("exc", None, None))
            t = {"ser": elasticsearch.SerializationError, "bare": elasticsearch.TransportError, "sniff": elastic_transport.SniffingError}[arg]
            raise t(f"wire-fault-{attempt}")
        if head == "http":
            status = int(arg)
            if method == "HEAD":
                body = None
            elif status == 404 and op == "delete":
                body = {"result": "not_found", "attempt": attempt}
            elif status in (502, 504) and attempt % 2 == 0:
                body = f"<html><body>{status} from the proxy, attempt {attempt}: {ERROR_TYPE[status]}</body></html>"
            else:
                body = {"error": {"type": ERROR_TYPE[status], "reason": f"attempt {attempt}"}, "status": status, "attempt": attempt}
            produced.append(("body", status, body))
            return TransportApiResponse(_meta(status), body)
        if head in ("bulk_retry", "bulk_fatal"):
            statuses = [int(s) for s in arg.split(",")]
            if len(statuses) != n_items:
                raise core.HarnessError(f"bulk outcome {outcome} does not match the {n_items} document(s) of the request")
            body = _bulk_body(statuses, attempt)
            produced.append(("body", 200, None))
            return TransportApiResponse(_meta(200), body)
        raise core.HarnessError(f"unknown outcome {outcome}")

    es.transport.perform_request = wire
    es._verified_elasticsearch = None if case.get("fresh", True) else True  # pylint: disable=protected-access
    esrally.time.sleep = lambda s: events.append(("S", s))
    random.seed(case.get("seed", 0))
    c = metrics.EsClient(es)
    result = error = None
    runaway = False
    try:
        result = ("value", _invoke(c, case))
    except _Runaway:
        runaway = True
    except exceptions.RallyError as e:
        error = e
    finally:
        esrally.time.sleep = _STATE["real_sleep"]
        del es.transport.perform_request

    n = len(requests)
    m, end = _model(case)
    sleeps = [e[1] for e in events if isinstance(e, tuple)]
    attempted = [_outcome_at(case, i) for i in range(n)]
    retry_classes = {o.partition(":")[0] if o.startswith("bulk") else o for i, o in enumerate(attempted) if _kind(op, o) == "retry"}

    # ---- classification
    if case.get("large_bulk"):
        obs.cls("bulk-with-hundreds-of-item-errors")
    obs.cls(f"op:{op}", f"end:{end}", f"attempts:{'1' if n == 1 else '2-3' if n <= 3 else '4-10' if n <= 10 else '11+'}")
    bulk_item_error = any(o.startswith("bulk_") and _kind(op, o) != "success" for o in attempted)
    if end == "exhausted":
        obs.cls("exhausted")
    if bulk_item_error:
        obs.cls("bulk-item-error")
        if any(o.startswith("bulk_fatal") for o in attempted):
            obs.cls("bulk-item-non-retryable")
    if n >= 3 and len(retry_classes) >= 2:
        obs.cls("attempts>=3-two-retryable-classes")
    if end == "success" and m >= 2:
        obs.cls("success-after-retries")
    if end == "success" and m == MAX_RETRIES + 1:
        obs.cls("eleventh-attempt-succeeds")
    if end == "auth":
        obs.cls("auth-error")
    last_model = _outcome_at(case, m - 1)
    if end == "error":
        obs.cls("other-transport-error" if last_model.startswith("transport_other") else "bulk-fatal" if last_model.startswith("bulk") else "other-api-error")
    if end == "success" and last_model != "ok" and not last_model.startswith("bulk"):
        obs.cls("benign-status")
    if len(outcomes) > m:
        obs.cls("outcomes-left-after-end")
    obs.mark_nontrivial((n >= 3 and len(retry_classes) >= 2) or end == "exhausted" or bulk_item_error)

    # ---- number of calls
    if runaway:
        obs.violation("calls/runaway", f"{op}: still calling the store after {n} requests; model expects {m} ({end}); outcomes={outcomes}")
        return
    if n > m:
        if end == "success":
            sig = "calls/repeated-after-success"
        elif end == "exhausted":
            sig = "calls/more-than-ten-retries"
        else:
            sig = f"calls/retried-{end}-{last_model.partition(':')[0]}"
        obs.violation(sig, f"{op}: {n} requests on the wire, model expects {m} (attempt {m} = {last_model!r} -> {end}); outcomes={outcomes} events={events}")
    elif n < m:
        obs.violation(
            f"calls/not-retried-{attempted[-1].partition(':')[0] if attempted else 'none'}",
            f"{op}: {n} requests on the wire, model expects {m}: attempt {n} = {attempted[-1] if attempted else None!r} is retryable and "
            f"{MAX_RETRIES} retries are allowed; outcomes={outcomes} error={error!r}",
        )
    obs.check(len(set(requests)) <= 1, "calls/request-changed", f"{op}: attempts differ on the wire: {sorted(set(requests))}")

    # ---- pauses: one before every retry, exponentially growing
    if n == m:
        shape = [e if isinstance(e, str) else "S" for e in events if e != "P"]
        want = ["R"] + ["S", "R"] * (m - 1)
        obs.check(shape == want, "pause/placement", f"{op}: expected one pause before each retry ({''.join(want)}), observed {''.join(shape)}; outcomes={outcomes}")
    for i, s in enumerate(sleeps[: max(min(n, m) - 1, 0)], start=1):
        obs.check(
            2 ** (i - 1) <= s < 2 ** (i - 1) + 1,
            "pause/not-exponential",
            f"{op}: pause {i} is {s} s, expected within [{2 ** (i - 1)}, {2 ** (i - 1) + 1}); all pauses {sleeps}; outcomes={outcomes}",
        )

    # ---- result / error
    if n != m:
        return
    if end == "success":
        if error is not None:
            obs.violation("result/error-after-success", f"{op}: attempt {m} succeeded ({last_model}) but the call raised {error!r}; outcomes={outcomes}")
        elif op not in BULK_OPS:
            kind, status, body = produced[m - 1]
            value = result[1]
            if op in HEAD_OPS:
                obs.check(
                    isinstance(value, elastic_transport.HeadApiResponse) and bool(value) == (status == 200),
                    "result/wrong-value",
                    f"{op}: attempt {m} answered {status}, returned {value!r}",
                )
            else:
                got = getattr(value, "body", value)
                obs.check(got == body, "result/wrong-value", f"{op}: returned {got!r}, attempt {m} answered {body!r}; outcomes={outcomes}")
    else:
        if error is None:
            obs.violation(
                f"result/no-error-{end}",
                f"{op}: attempt {m} = {last_model!r} ({end}) must surface as a Rally error but the call returned {result[1]!r}; outcomes={outcomes}",
            )
        else:
            msg = str(error.args[0]) if error.args else str(error)
            tokens = _cause_tokens(case, m - 1, end)
            obs.check(
                any(all(t in msg for t in alt) for alt in tokens),
                f"message/{end}-{last_model.partition(':')[0]}",
                f"{op}: error for attempt {m} = {last_model!r} does not name the cause (any of {tokens}): {msg!r}",
            )


# ------------------------------------------------------------------------------------------------ generator
def _bulk_outcome(kind, n_items):
    ok_or_retry = st.sampled_from([201, 201, 429, 503, 502, 504])

    @st.composite
    def build(draw):
        statuses = draw(st.lists(ok_or_retry if kind == "bulk_retry" else st.sampled_from([201, 429, 503, 400, 409, 404, 500]), min_size=n_items, max_size=n_items))
        pos = draw(st.integers(0, n_items - 1))
        statuses[pos] = draw(st.sampled_from(RETRYABLE_STATUS if kind == "bulk_retry" else OTHER_STATUS))
        return f"{kind}:{','.join(str(s) for s in statuses)}"

    return build()


def _terminal(op, n_items):
    alts = [
        st.just("ok"),
        st.sampled_from(["http:401", "http:403"]),
        st.sampled_from([f"http:{s}" for s in OTHER_STATUS]),
        st.sampled_from(["transport_other:ser", "transport_other:bare", "transport_other:sniff"]),
    ]
    if op in BULK_OPS:
        alts.append(_bulk_outcome("bulk_fatal", n_items))
        alts.append(_bulk_outcome("bulk_fatal", n_items))
    if op in HEAD_OPS or op == "delete":
        alts += [st.just("http:404")] * 3
    if op == "create_index":
        alts += [st.just("http:400")] * 3
    return st.one_of(alts)


@st.composite
def _case(draw):
    op = draw(st.sampled_from(OPS + ["bulk_index"]))
    n_items = 1 if op == "index" else draw(st.integers(1, 4))
    retry = [st.sampled_from(RETRYABLE)]
    if op in BULK_OPS:
        retry += [_bulk_outcome("bulk_retry", n_items)]
    shape = draw(st.sampled_from(["prefix+terminal", "prefix+terminal", "exhaust", "boundary", "free"]))
    if shape == "prefix+terminal":
        k = draw(st.integers(0, 9))
        outcomes = draw(st.lists(st.one_of(retry), min_size=k, max_size=k)) + [draw(_terminal(op, n_items))]
    elif shape == "exhaust":
        k = draw(st.integers(11, 12))
        outcomes = draw(st.lists(st.one_of(retry), min_size=k, max_size=k))
    elif shape == "boundary":  # the 10th / 11th attempt decides
        k = draw(st.integers(9, 10))
        outcomes = draw(st.lists(st.one_of(retry), min_size=k, max_size=k)) + [draw(st.one_of(st.just("ok"), _terminal(op, n_items)))]
    else:
        k = draw(st.integers(0, 12))
        outcomes = draw(st.lists(st.one_of(retry + retry + [_terminal(op, n_items)]), min_size=k, max_size=k))
    if int(hashlib.sha256(str(draw(st.integers(0, 2**32))).encode()).hexdigest(), 16) % 10 == 0:
        # volume: a flush of more than 5000 documents goes out as several bulk requests inside one store call
        faults = st.sampled_from(["conn_timeout", "conn_error", "http:429", "http:503", "http:504", "item:429", "item:503", "item:400", "item:409", "http:400", "http:401", "http:404"])
        k = draw(st.integers(1, 5))
        script = draw(st.lists(st.one_of(st.just("ok"), st.just("ok"), faults), min_size=k, max_size=k))
        if draw(st.integers(0, 9)) == 0:
            script = [draw(st.sampled_from(["conn_timeout", "http:503", "item:429"]))] * 12
        return {"chunked": True, "n_items": draw(st.sampled_from([5001, 5001, 5003, 10000, 10001])), "script": script, "seed": draw(st.integers(0, 2**16))}
    case = {"op": op, "outcomes": outcomes, "seed": draw(st.integers(0, 2**16)), "fresh": draw(st.booleans())}
    if op == "bulk_index":
        case["n_items"] = n_items
        if draw(st.integers(0, 7)) == 0:
            # volume: a chunk with hundreds of rejected items; what decides sits far down the list of item errors
            n = draw(st.sampled_from([130, 300]))
            pos = draw(st.sampled_from([0, 99, 100, 101, n - 1]))
            fatal = [draw(st.sampled_from([429, 503]))] * n
            fatal[pos] = draw(st.sampled_from([400, 409]))
            many = ",".join(str(x) for x in [429] * n)
            case["n_items"] = n
            case["outcomes"] = [f"bulk_retry:{many}"] * draw(st.integers(0, 2)) + [f"bulk_fatal:{','.join(str(x) for x in fatal)}"]
            case["large_bulk"] = True
    return case


def strategy(tier, known):
    return _case()


# ------------------------------------------------------------------------------------------------ exhaustive sub-domain (class patterns)
def enumerate_cases(tier):
    for outcomes, expect in ((["http:503"], "ok"), (["http:429", "http:504"], "ok"), (["http:404"], "error"), (["transport_other"], "error")):
        yield {"fresh_process": True, "op": "exists", "outcomes": outcomes, "expect": expect}
    for oi, op in enumerate(OPS):
        n_items = 1 if op == "index" else 2
        retry = list(RETRYABLE)
        if op in BULK_OPS:
            retry += ["bulk_retry:429" if n_items == 1 else "bulk_retry:201,429", "bulk_retry:503" if n_items == 1 else "bulk_retry:504,502"]
        terminals = ["ok", "http:401", "http:403"] + [f"http:{s}" for s in OTHER_STATUS] + ["transport_other:ser", "transport_other:bare", "transport_other:sniff"]
        if op in BULK_OPS:
            terminals += (["bulk_fatal:400", "bulk_fatal:409"] if n_items == 1 else ["bulk_fatal:400,201", "bulk_fatal:429,409", "bulk_fatal:500,503", "bulk_fatal:404,400"])
        prefixes = [()]
        for ln in range(1, 13):
            for r in retry:
                prefixes.append((r,) * ln)
            prefixes.append(tuple(retry[(ln + i + oi) % len(retry)] for i in range(ln)))  # rotating mix
        if tier == "thorough":
            for ln in (2, 3):
                prefixes.extend(p for p in itertools.product(retry, repeat=ln) if len(set(p)) > 1)
        for pi, prefix in enumerate(prefixes):
            for ti, t in enumerate(terminals):
                if tier == "quick" and 3 <= len(prefix) <= 8 and (ti + pi) % 3:
                    continue  # quick: mid-length prefixes get a rotating third of the terminal classes (thorough: all)
                case = {"op": op, "outcomes": list(prefix) + [t], "seed": (pi * 31 + ti) % 1000, "fresh": (pi + ti) % 2 == 0}
                if op == "bulk_index":
                    case["n_items"] = n_items
                yield case
