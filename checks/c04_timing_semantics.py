"""
C04 - Latency, service time and processing time mean what the docs say.

Engine E1 (loop only): the real AsyncIoAdapter.run / AsyncExecutor / execute_single / ScheduleHandle / schedulers / Sampler /
RequestContextHolder run one task with 1-4 clients against the simulated endpoint on a virtual-time asyncio loop.
Oracle: per request, the scripted endpoint's own log (virtual instants at which the runner was entered, each wire request was
sent/answered, the runner returned) is joined with the drained samples by (client, ordinal) and compared with the definitions in
docs/metrics.rst.
"""
from hypothesis import strategies as st

from esrally import metrics

from gen import tasks as gen_tasks
from sim import kernel, loadgen

ID = "C04"
LEVEL = "exploration"
ENGINE = "E1 virtual-time asyncio loop + Hypothesis"
TECHNIQUE = "property-based testing on a virtual-time simulator: generated service-time/overhead/outcome scripts, reference timing definitions as oracle"
RULE = (
    "Generated: one iteration-based task (1 in 6: time-based with warm-up and ramp-up, global client index > 0), 1-4 clients, 1-6 request scripts (client overhead before/after, 1-3 wire requests with "
    "gaps - in a quarter of the scripts each in a nested request context of its own, as a composite runs its sub-requests -, service times 1/1024..12.5 s, outcome ok / success:false / ApiError 4xx,5xx / ConnectionTimeout under on-error=continue, "
    "return shape tuple/dict/None, weights, units), target throughput number / '<n> unit/s' / target-interval / none, deterministic or "
    "poisson schedule - or no target at all but a custom (plugin) scheduler with a fixed interval -, per-process perf_counter offset; in a class of cases the shared completion event is set from outside at a drawn "
    "instant while requests are in flight; in a sixth of the cases the task is a later member of an over-committed parallel element (allocations from the real Allocator: client ids differ from global client indexes); timeout / connection-error outcomes end the last wire request without a response. Non-trivial = (throttled and at least one request started behind its schedule) "
    "or an error outcome was executed or clients >= 2. Distinct = distinct canonical JSON."
)
ASSUMPTIONS = [
    "asyncio tasks of one worker run on one loop; virtual time only advances in await asyncio.sleep (no CPU time is modelled)",
    "the endpoint calls on_request_start/on_request_end exactly where the aiohttp trace hooks of the real client do (send / last chunk)",
    "instants are dyadic rationals; comparisons use 1e-9 absolute tolerance",
]
BUDGET = {"quick": 4000, "thorough": 25000}
REQUIRED_CLASSES = {"client-id-differs-from-global-client-index": 100, "behind-schedule": 100, "error-outcome": 100, "multi-client": 300, "completed-from-outside-with-request-in-flight": 100, "ramped-up-client": 150,
                    "failing-sub-request-in-nested-context": 100, "throttled-by-custom-scheduler-only": 100}
TOL = 1e-9


@st.composite
def _case(draw):
    spec = draw(gen_tasks.task_spec(focus="timing"))
    # in a class of cases the task is asked to complete from outside (a completed-by partner finished) while requests are in flight
    spec["complete_at"] = draw(st.sampled_from([None, None, None, 1 / 32, 0.3, 1.0, 2.5]))
    return spec


def strategy(tier, known):
    return _case()


def _eq(a, b):
    return abs(a - b) <= TOL


def expected_ops(spec):
    if spec["outcome"] != "ok":
        if spec["outcome"] == "fail-dict":
            return spec["weight"], spec["unit"], False
        return 0, "ops", False
    if spec["shape"] in ("tuple", "dict"):
        return spec["weight"], spec["unit"], True
    return 1, "ops", True


def run_case(case, obs):
    r = loadgen.run_task(case, complete_at=case.get("complete_at"))
    err = r["error"]
    tp = gen_tasks.reference_throughput(case.get("throughput"))
    # the one documented failure: target unit other than ops/s and the runner reports a different unit
    mismatch_possible = tp is not None and tp[1] != "ops/s" and any(
        (expected_ops(q)[1] + "/s") != tp[1] and expected_ops(q)[0] > 0 for q in case["requests"]
    )
    if err is not None:
        if isinstance(err, (kernel.Quiescent, kernel.HorizonExceeded)):
            obs.violation("hang", f"task never finished: {type(err).__name__}")
            return
        if mismatch_possible and "is specified in" in str(err):
            obs.cls("unit-mismatch-raised")
            return
        obs.violation("unexpected-error", f"{type(err).__name__}: {err}")
        return

    c = case["clients"]
    goff = case.get("global_offset", 0)
    samples_by_client = {}
    for s in r["samples"]:
        samples_by_client.setdefault(s.client_id, []).append(s)
    reqs_by_client = {}
    for q in r["requests"]:
        reqs_by_client.setdefault(q["client"], []).append(q)
    behind = False
    errors_seen = False
    behind_global_index = False
    for ci in range(c):
        gid = r["client_ids"][ci]  # (the client that runs it: differs from the global client index goff + ci in an over-committed element)
        if gid != goff + ci:
            behind_global_index = True
        reqs = reqs_by_client.get(ci, [])
        smp = samples_by_client.get(gid, [])
        handed = r["handed"].get(ci, [])
        if not obs.check(len(reqs) == len(smp), "one-sample-per-request", f"client {ci}: {len(reqs)} requests executed, {len(smp)} samples"):
            continue
        obs.check(len(handed) == len(reqs), "handed-vs-executed", f"client {ci}: schedule handed out {len(handed)}, executed {len(reqs)}")
        total_start = r["starts"][ci][1]
        for k, (q, s) in enumerate(zip(reqs, smp)):
            spec = case["requests"][(ci * case.get("stride", 7) + q["ordinal"]) % len(case["requests"])]
            tag = f"client {ci} request {k}"
            wire_start = min(w[0] for w in q["wire"])
            wire_end = max(w[1] for w in q["wire"])
            st_ref = wire_end - wire_start
            pt_ref = q["pc_exit"] - q["pc_enter"]
            obs.check(_eq(s.service_time, st_ref), "service-time", f"{tag}: service_time {s.service_time} != last response - first send = {st_ref}")
            obs.check(s.service_time >= 0, "service-time-negative", f"{tag}: {s.service_time}")
            obs.check(_eq(s.processing_time, pt_ref), "processing-time", f"{tag}: processing_time {s.processing_time} != runner span {pt_ref}")
            obs.check(s.processing_time >= s.service_time - TOL, "processing-lt-service", f"{tag}: {s.processing_time} < {s.service_time}")
            obs.check(_eq(s.request_start, wire_start), "request-start", f"{tag}: request_start {s.request_start} != first send {wire_start}")
            obs.check(_eq(s.absolute_time, kernel.EPOCH + q["t_enter"]), "absolute-time", f"{tag}: absolute_time {s.absolute_time - kernel.EPOCH} != {q['t_enter']}")
            obs.check(_eq(s.time_period, wire_end - total_start), "time-period", f"{tag}: time_period {s.time_period} != {wire_end - total_start}")
            h = handed[k] if k < len(handed) else None
            if h is not None:
                sched = h["s"]
                if sched > 0:
                    due = total_start + sched
                    obs.check(q["pc_enter"] >= due - TOL, "issued-before-schedule", f"{tag}: issued at {q['pc_enter']} before scheduled {due}")
                    obs.check(_eq(s.latency, wire_end - due), "latency-throttled", f"{tag}: latency {s.latency} != response - scheduled = {wire_end - due}")
                    obs.check(s.latency >= s.service_time - TOL, "latency-lt-service", f"{tag}: latency {s.latency} < service_time {s.service_time}")
                    if q["pc_enter"] > due + TOL:
                        behind = True
                else:
                    obs.check(_eq(s.latency, s.service_time), "latency-unthrottled", f"{tag}: latency {s.latency} != service_time {s.service_time}")
                obs.check(int(s.sample_type) == h["sample_type"], "sample-type", f"{tag}: sample type {s.sample_type} != handed {h['sample_type']}")
            obs.check(s.client_id == gid, "client-id", f"{tag}: client id {s.client_id} != {gid}")
            obs.check(q["es_client_id"] == gid, "client-connection", f"{tag}: executed on the connection of client {q['es_client_id']}, allocated to client {gid}")
            obs.check(s.task == r["task"], "task", f"{tag}: task {s.task}")
            ops, unit, success = expected_ops(spec)
            obs.check(s.total_ops == ops and s.total_ops_unit == unit, "ops", f"{tag}: ops {s.total_ops} {s.total_ops_unit} != {ops} {unit} ({spec['outcome']}/{spec['shape']})")
            obs.check(bool(s.request_meta_data.get("success")) == success, "success-flag", f"{tag}: meta {s.request_meta_data} for outcome {spec['outcome']}")
            if not success:
                errors_seen = True
            want_tp = spec.get("runner_throughput") if (spec["outcome"] == "ok" and spec["shape"] == "dict") else None
            obs.check(s.throughput == want_tp, "runner-throughput", f"{tag}: throughput {s.throughput} != {want_tp}")
    obs.check(r["clients_closed"], "client-not-closed", "an ES client was left open")
    unthrottled = case.get("throughput") is None and case.get("custom_interval") is None
    if case.get("custom_interval") is not None:
        obs.cls("throttled-by-custom-scheduler-only")
        for ci in range(c):
            for k, h in enumerate(r["handed"].get(ci, [])):
                obs.check(abs(h["s"] - k * case["custom_interval"]) <= TOL, "custom-schedule-not-consulted",
                          f"client {ci} request {k}: scheduled at {h['s']}, its scheduler says {k * case['custom_interval']}")
    if unthrottled:
        obs.cls("unthrottled")
    else:
        obs.cls("throttled")
    if behind:
        obs.cls("behind-schedule")
    if errors_seen:
        obs.cls("error-outcome")
    if c >= 2:
        obs.cls("multi-client")
    if behind_global_index and r["samples"]:
        obs.cls("client-id-differs-from-global-client-index")
    if any(x.get("nested") and x["outcome"] not in ("ok", "fail-dict") for x in case["requests"]) and errors_seen:
        obs.cls("failing-sub-request-in-nested-context")
    if case.get("ramp_up") and (goff + c - 1) > 0 and r["samples"]:
        obs.cls("ramped-up-client")
    if case.get("complete_at") is not None and any(q["t_enter"] < case["complete_at"] < q.get("t_exit", -1) for q in r["requests"]):
        obs.cls("completed-from-outside-with-request-in-flight")
    if case.get("completes_parent") and case.get("throughput") is not None and isinstance(case.get("source_size"), list):
        obs.cls("throttled-completing-task-with-clients-of-different-length")
    obs.mark_nontrivial(behind or errors_seen or c >= 2)
