"""
C09 - Any failure or cancellation ends the race as failed, never as success.

Engine E1 + fault injection: the real racecontrol.race(cfg, external=True) drives the real BenchmarkActor / BenchmarkCoordinator /
MechanicActor (external) / DriverActor / TrackPreparationActor / TaskExecutionActor / Worker / AsyncIoAdapter on the actor simulator
(actor.bootstrap_actor_system returns a facade whose ask() runs the virtual loop). One fault per case.
Oracle: invariants over what race control observes (exception type of race(), virtual time of the reply, race store / results
store / summary recorder, Success messages).
"""
import hashlib
import json

from hypothesis import strategies as st

from gen import races as gen_races
from sim import race as sim_race

ID = "C09"
LEVEL = "fault_enumeration"
ENGINE = "E1 virtual-time actor simulator + fault injection + Hypothesis"
TECHNIQUE = "fault injection on a deterministic actor/asyncio simulator: generated races x one fault (kind x injection point), race-control-side invariants as oracle"
RULE = (
    "Generated: C01-style races x one fault: request failure (HTTP 5xx / success:false) under on-error=abort at a drawn request (other tasks, "
    "or in a class the failing task itself - then no fault -, may carry ignore-response-error-level=non-fatal); fatal "
    "ConnectionError under on-error=continue; parameter source raising at its n-th params() or in partition() (outside any executor), with or without a message (bare assert, ValueError()); runner raising KeyError / RuntimeError / "
    "RallyAssertionError; the driver's metrics store - or race control's, while it adds the metrics handed over after a step - failing on "
    "its n-th record, once or persistently (flush/close/externalise too); a "
    "track preparation task raising; a worker process killed at a drawn virtual time; user cancellation (KeyboardInterrupt in race "
    "control's ask) at a drawn virtual time; or no fault; a third of the runner / parameter-source faults hit a partner task's request issued about when the completed-by task of its element ends; in half of the parameter-source faults the task is one that its finite source ends (no iterations, no time period). Non-trivial = the fault actually fired and the race had >= 2 workers. "
    "Distinct = distinct canonical JSON."
)
ASSUMPTIONS = [
    "Thespian semantics as rendered in sim/actors.py (retry once, then PoisonMessage to the sender; ChildActorExited to the parent of a dead actor)",
    "single faults only; 'bounded time' is virtual time under the drawn bounds on message delay (<= 7 s) and wake-up lateness",
    "a killed worker counts as a fault only while it still has join points to report (a worker that dies after its last report cannot change the outcome)",
    "results stored (or Success sent) before race control has learnt about a cancellation are not counted against the cancellation",
    "messages an actor sends to itself are not delayed",
]
BUDGET = {"quick": 1200, "thorough": 8000}
REQUIRED_CLASSES = {
    "failing-source-is-the-one-that-ends-the-task": 5,
    "fired:runner-abort": 10, "fired:conn-error": 10, "fired:param-source": 10, "fired:runner-raises": 10, "fired:store-once": 10,
    "fired:store-persistent": 10, "fired:prep-task": 10, "fired:kill-worker": 10, "fired:cancel": 10, "no-fault": 8,
    "strict-task-beside-tolerant-task": 8, "tolerated-by-task": 5, "api-key-per-client-and-cluster-gone": 5, "exception-without-message": 10, "raised-outside-executor": 5,
}
TIMES = [0.5, 2.0, 6.5, 9.0, 14.0, 25.0, 45.0]


# what user code (parameter source, track preparation task) raises: usually something with a message; a bare assert has none
_EXC = st.sampled_from(["runtime", "runtime", "assert-empty", "value-empty", "timeout-empty"])


def _near_completion(case, draw):
    """(leaf, client, ordinal) of a request of a partner task that is issued about when the completed-by task of its element ends: a fault
    there falls between the worker's last look at its executor and the request to complete the element - or None"""
    options = []
    for el in case["schedule"]:
        cb = el.get("completed_by") if "parallel" in el else None
        named = next((t for t in el.get("parallel", []) if t["name"] == cb), None)
        if named is None or named["mode"] != "iterations":
            continue
        per_request = max(sum(g + sv for g, sv in q["wire"]) + q["pre"] + q["post"] for q in named["requests"])
        t_end = ((named.get("warmup_iterations") or 0) + named["iterations"]) * per_request
        for t in el["parallel"]:
            if t is not named and not t.get("throughput"):
                own = max(sum(g + sv for g, sv in q["wire"]) + q["pre"] + q["post"] for q in t["requests"])
                options.append((t, max(0, int(t_end / own) + draw(st.integers(-1, 3)))))
    if not options:
        return None
    t, ordinal = options[draw(st.integers(0, len(options) - 1))]
    return t, draw(st.integers(0, t["clients"] - 1)), ordinal


@st.composite
def _case(draw):
    case = draw(gen_races.race_case(avoid_named_wrap=True, max_elements=3))
    kind = draw(
        st.sampled_from(
            ["runner-abort", "conn-error", "param-source", "runner-raises", "store-once", "store-persistent", "prep-task", "kill-worker", "cancel", "none",
             "cancel-during-completion", "store-fault-then-completes"]
        )
    )
    leaves = [leaf for _, leaf in sim_race.leaves(case["schedule"])]
    leaf = leaves[draw(st.integers(0, len(leaves) - 1))]
    client = draw(st.integers(0, leaf["clients"] - 1))
    ordinal = draw(st.sampled_from([0, 0, 1, 2, 5]))
    if kind in ("runner-raises", "param-source") and draw(st.integers(0, 2)) == 0:
        near = _near_completion(case, draw)
        if near:
            leaf, client, ordinal = near
    case["on_error"] = "continue"
    fault = None
    force_api_keys = False
    if kind == "runner-abort":
        case["on_error"] = "abort"
        fault = {"kind": "runner", "task": leaf["name"], "client": client, "ordinal": ordinal, "outcome": draw(st.sampled_from(["api-5xx", "fail-dict", "api-4xx", "timeout"]))}
        # ignore-response-error-level=non-fatal relaxes on-error=abort for the task that carries it, and for that task only
        tol = draw(st.sampled_from(["none", "others", "others", "faulted"]))
        if tol == "others":
            # preferably the failing (strict) task is listed after tolerant siblings of its own parallel element
            later = [(el, j) for el in case["schedule"] if "parallel" in el for j in range(1, len(el["parallel"]))]
            if later and draw(st.integers(0, 3)):
                el, j = later[draw(st.integers(0, len(later) - 1))]
                leaf = el["parallel"][j]
                fault["task"], fault["client"] = leaf["name"], draw(st.integers(0, leaf["clients"] - 1))
                for other in el["parallel"][:j]:
                    other["tolerant"] = True
                fault["ordinal"] = 0
                if draw(st.integers(0, 3)):
                    case["hosts"] = [1]  # a single worker: the clients of all tasks of the element share it
            for other in leaves:
                if other is not leaf and draw(st.integers(0, 3)):
                    other["tolerant"] = True
        elif tol == "faulted":
            leaf["tolerant"] = True
    elif kind == "conn-error":
        fault = {"kind": "runner", "task": leaf["name"], "client": client, "ordinal": ordinal, "outcome": "conn-error",
                 # the connection error is what a client sees of a cluster that has died: from then on nobody reaches it, the driver's own
                 # (synchronous) client included
                 "cluster_down": False}
        flavour = draw(st.sampled_from(["plain", "cluster-gone", "cluster-gone+api-keys", "cluster-gone+api-keys"]))
        fault["cluster_down"] = flavour != "plain"
        force_api_keys = flavour.endswith("api-keys")
    elif kind == "runner-raises":
        case["on_error"] = draw(st.sampled_from(["continue", "abort"]))
        fault = {"kind": "runner", "task": leaf["name"], "client": client, "ordinal": ordinal, "outcome": draw(st.sampled_from(["raise-key", "raise-runtime", "raise-assert"]))}
    elif kind == "param-source":
        fault = {"kind": "param-source", "task": leaf["name"], "client": client, "ordinal": ordinal,
                 "where": draw(st.sampled_from(["params", "params", "partition"])), "exc": draw(_EXC)}
        # (decided by a hashed ticket: drawn directly, the combination "fails in params()" + "its source ends the task" never came up in
        # 800 cases - Hypothesis does not draw independent uniform values)
        ticket = int(hashlib.sha256(str(draw(st.integers(0, 2**32))).encode()).hexdigest(), 16)
        if leaf["mode"] == "iterations" and not leaf.get("completes_parent") and ticket % 2 == 0:
            if ticket % 8 != 0:
                fault["where"] = "params"
            # the failing source is one that decides itself when the task ends (like the bulk source: neither iterations nor a time period;
            # the schedule runs until params() raises StopIteration) and fails before it is exhausted
            leaf.pop("iterations", None)
            leaf.pop("warmup_iterations", None)
            leaf.update(mode="time", warmup_time_period=None, time_period=None, source_size=ordinal + draw(st.integers(1, 4)))
            fault["source_ends_the_task"] = True
    elif kind in ("store-once", "store-persistent"):
        fault = {"kind": "store", "n": draw(st.sampled_from([1, 2, 3, 7, 20, 60])), "persistent": kind == "store-persistent"}
        if draw(st.integers(0, 2)) == 0:
            # the store on race control's side fails while the metrics handed over after a step (or at the end) are added
            fault["where"] = "race-control"
        elif draw(st.booleans()):
            # a step longer than the 30 s post-processing interval: the store fails in a periodic tick while the race goes on
            leaf["mode"] = "time"
            leaf.pop("iterations", None)
            leaf.pop("warmup_iterations", None)
            leaf.pop("throughput", None)
            leaf["warmup_time_period"] = None
            leaf["time_period"] = draw(st.sampled_from([35, 70]))
            for q in leaf["requests"]:
                q["wire"][0][1] = draw(st.sampled_from([1.0, 2.5]))
            if draw(st.booleans()):
                # ... and race control's exit request is slow, so that the race may still complete after the failure was reported
                case["test_mode"] = True
                case["delay_overrides"] = {"ActorExitRequest": 7}
    elif kind == "prep-task":
        if not case["prep_tasks"]:
            case["prep_tasks"] = [0.5]
        fault = {"kind": "prep-task", "task_id": draw(st.integers(0, len(case["prep_tasks"]) - 1)), "exc": draw(_EXC)}
    elif kind == "kill-worker":
        if draw(st.booleans()):
            fault = {"kind": "kill-worker", "index": draw(st.integers(0, 3)), "after_wakeups": draw(st.sampled_from([1, 1, 2, 3, 5]))}
        else:
            fault = {"kind": "kill-worker", "index": draw(st.integers(0, 3)), "at": draw(st.sampled_from(TIMES))}
    elif kind == "cancel":
        if draw(st.integers(0, 2)):
            # Ctrl+C right after a protocol message has been sent (e.g. while BenchmarkComplete is still in flight)
            msg = draw(st.sampled_from(["BenchmarkComplete", "BenchmarkComplete", "TaskFinished", "JoinPointReached", "StartBenchmark", "PreparationComplete", "UpdateSamples"]))
            fault = {"kind": "cancel", "on_send": [msg, draw(st.sampled_from([1, 1, 2, 4]))]}
            if msg == "BenchmarkComplete" and draw(st.booleans()):
                # the completion message is still in flight while race control cancels and then lets the actors exit
                case["delay_overrides"] = {
                    "BenchmarkComplete": draw(st.sampled_from([2, 4, 5, 6])),
                    "BenchmarkCancelled": draw(st.sampled_from([0, 2])),
                    "ActorExitRequest": draw(st.sampled_from([4, 6, 7])),
                }
        else:
            fault = {"kind": "cancel", "at": draw(st.sampled_from(TIMES))}
    elif kind == "cancel-during-completion":
        # template: Ctrl+C while BenchmarkComplete is still in flight; race control's exit request is slow, so the benchmark actor
        # handles the completion message after it has been told about the cancellation
        fault = {"kind": "cancel", "on_send": ["BenchmarkComplete", 1]}
        case["delays"] = draw(st.lists(st.integers(0, 5), min_size=1, max_size=6))
        case["delay_overrides"] = {"BenchmarkComplete": 6, "BenchmarkCancelled": draw(st.sampled_from([0, 2])), "ActorExitRequest": 7}
        kind = "cancel"
    elif kind == "store-fault-then-completes":
        # template: the driver's store fails once in the periodic 30 s tick of a 35 s task; the failure is reported, but race
        # control's exit request is slow and the race still completes before the actors are told to exit
        long_leaf = {"name": "e0", "clients": draw(st.integers(1, 3)), "stride": 1, "mode": "time", "warmup_time_period": None, "time_period": 35,
                     "requests": [{"pre": 0, "wire": [[0, draw(st.sampled_from([1.0, 2.5]))]], "post": 0, "outcome": "ok", "shape": "dict", "weight": 1, "unit": "ops"}]}
        case["schedule"] = [long_leaf]
        case["test_mode"] = True
        case["prep_tasks"] = []
        case["preempt"] = None
        case["delays"] = draw(st.lists(st.integers(0, 4), min_size=1, max_size=6))
        case["delay_overrides"] = {"ActorExitRequest": 7}
        fault = {"kind": "store", "n": draw(st.sampled_from([1, 2, 3])), "persistent": False}
        kind = "store-once"
    case["fault"] = fault
    case["fault_class"] = kind
    case["api_keys"] = draw(st.sampled_from([False, False, True])) or force_api_keys  # client option create_api_key_per_client
    return case


def strategy(tier, known):
    return _case()


def run_case(case, obs):
    fault = case.get("fault")
    r = sim_race.run_full_race(case, fault)
    kind = case.get("fault_class", "none")
    wake = 0.5 if case.get("test_mode") else 5.0
    max_delay = max(sim_race.DELAYS[d % len(sim_race.DELAYS)] for d in list(case["delays"]) + list((case.get("delay_overrides") or {}).values()))
    longest = max(sum(g + s for g, s in q["wire"]) + q["pre"] + q["post"] for _, leaf in sim_race.leaves(case["schedule"]) for q in leaf["requests"])
    results_stored = [t for t, has in r.stored_races if has]
    successes = [t for t, m, _ in r.inbox if type(m).__name__ == "Success"]
    if r.outcome == "blocking":
        obs.violation("blocking-call", str(r.error))
        return
    fired = r.fired_at is not None
    if fired and kind == "runner-abort" and any(leaf.get("tolerant") for _, leaf in sim_race.leaves(case["schedule"]) if leaf["name"] == fault["task"]):
        # docs/track.rst: with ignore-response-error-level=non-fatal the task ignores non-fatal errors under on-error=abort: not a fault
        fired = False
        obs.cls("tolerated-by-task")
    elif fired and kind == "runner-abort" and any(leaf.get("tolerant") for _, leaf in sim_race.leaves(case["schedule"])):
        obs.cls("strict-task-beside-tolerant-task")
    if not fired:
        # success path: the race completes, results are stored and printed exactly once
        obs.check(r.outcome == "returned", "success-path-failed", f"no fault fired but race() ended with {r.outcome}: {str(r.error)[:300]}")
        if r.outcome == "returned":
            obs.check(len(results_stored) == 1 and len(r.summarize_calls) == 1 and len(r.results_store_calls) == 1, "success-path-results",
                      f"stored {r.stored_races}, summary {r.summarize_calls}, results store {r.results_store_calls}")
            obs.check(len(successes) == 1, "success-count", f"{len(successes)} Success messages")
        obs.cls("no-fault" if fault is None else f"not-fired:{kind}")
        return
    obs.cls(f"fired:{kind}")
    if case.get("api_keys"):
        obs.cls("api-key-per-client")
        if fault and fault.get("cluster_down"):
            obs.cls("api-key-per-client-and-cluster-gone")
    if fault and fault.get("exc", "runtime") != "runtime":
        obs.cls("exception-without-message")
    if fault and fault.get("where") == "partition":
        obs.cls("raised-outside-executor")
    if fault and fault.get("source_ends_the_task") and fault.get("where") == "params":
        obs.cls("failing-source-is-the-one-that-ends-the-task")
    # 1. race control is told, as a failure (or cancellation), never success
    if r.outcome == "hang":
        obs.violation("no-notification", f"fault {fault} fired at {r.fired_at:.3f} but race control never got a reply: {r.error}")
    elif kind == "cancel":
        obs.check(r.outcome == "user-interrupted", "cancel-not-reported", f"cancel at {r.fired_at}: race() ended with {r.outcome} {str(r.error)[:200]}")
    else:
        obs.check(r.outcome == "rally-error", "failure-reported-as-success", f"fault {fault} fired at {r.fired_at:.3f}: race() ended with {r.outcome}")
    # (a Success that BenchmarkActor sends *after* the failure notification is never read by race control: race() has already raised.
    #  What counts is the first reply, i.e. the outcome of race() checked above.)
    first_reply = [type(m).__name__ for _, m, _ in r.inbox][:1]
    if kind != "cancel":
        obs.check(first_reply != ["Success"], "success-before-failure", f"fault fired at {r.fired_at} but the first reply to race control was Success")
    # 2. in bounded (virtual) time
    if r.outcome in ("rally-error", "user-interrupted"):
        # a pre-empted handler holds its actor for the length of the window; events queued behind it are late by that much
        pre = max([sim_race.PREEMPT[i % len(sim_race.PREEMPT)] for i in (case.get("preempt") or [0])])
        bound = r.fired_at + 2 * (wake + 0.125) + 6 * max_delay + 2 * longest + 2.0 + 40 * pre
        obs.check(r.t_outcome <= bound, "notification-late", f"fault at {r.fired_at:.3f}, race control learnt at {r.t_outcome:.3f} (bound {bound:.3f})")
    # 3. no final results stored or printed
    if kind == "cancel":
        # results that were complete before race control knew about the cancellation do not count
        late = [t for t in results_stored + r.summarize_calls + r.results_store_calls if t > r.t_outcome + 1e-9]
        obs.check(not late, "results-after-cancel", f"cancelled at {r.fired_at}, known at {r.t_outcome}, results stored/printed at {late}")
    else:
        obs.check(not results_stored and not r.summarize_calls and not r.results_store_calls, "results-despite-failure",
                  f"fault {fault} fired at {r.fired_at:.3f}; results stored at {results_stored}, summary at {r.summarize_calls}, results store at {r.results_store_calls}")
    from esrally.driver import driver

    n_workers = len(r.rt.instances(driver.Worker))
    if n_workers >= 2:
        obs.cls("multi-worker")
    # phase of the fault
    if kind == "prep-task" or not r.requests:
        obs.cls("phase:preparation")
    elif r.requests and r.fired_at >= max(q.get("t_exit", q["t_enter"]) for q in r.requests):
        obs.cls("phase:after-last-request")
    else:
        obs.cls("phase:inside-a-step")
    obs.mark_nontrivial(n_workers >= 2)


PROBES = {
    # F23 (fixed 6f8e20a): race control's own store fails while it adds the metrics of the first task; the failure notification travels
    # BenchmarkActor -> driver -> BenchmarkActor with a 2 s message delay while the second (last) task takes 1 s: the benchmark completed first
    "failure-reported-as-success": json.loads(
        '{"delays": [0, 0, 2, 0, 0, 6, 0, 0, 0, 0, 0, 0], "fault": {"kind": "store", "n": 1, "persistent": false, "where": "race-control"}, "fault_class": "store-once", "hosts": [1], "offsets": [0.0], "on_error": "continue", "preempt": null, "prep_tasks": [], "quiet": true, "schedule": [{"clients": 1, "completed_by": "e0t0", "parallel": [{"clients": 1, "iterations": 1, "mode": "iterations", "name": "e0t0", "requests": [{"outcome": "ok", "post": 0, "pre": 0, "shape": "dict", "unit": "ops", "weight": 1, "wire": [[0, 0.00390625]]}], "stride": 1, "throughput": {"kind": "number", "unit": "ops/s", "value": 1}, "warmup_iterations": null}]}, {"clients": 1, "completed_by": "e1t0", "parallel": [{"clients": 1, "mode": "time", "name": "e1t0", "requests": [{"outcome": "ok", "post": 0, "pre": 0, "shape": "dict", "unit": "ops", "weight": 1, "wire": [[0, 0.125]]}], "stride": 1, "throughput": {"kind": "number", "unit": "ops/s", "value": 1}, "time_period": 1, "warmup_time_period": 0}]}], "seed": 0, "test_mode": true, "wake_late": [0]}'
    ),
}
