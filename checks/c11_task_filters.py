"""
C11 - Task filters keep exactly the selected tasks and leave a runnable track.

Real code: esrally.track.loader.TaskFilterTrackProcessor (configured exactly as rally.py does from --include-tasks / --exclude-tasks:
lists of strings "name", "type:<operation type>", "tag:<tag>" under track/include.tasks resp. track/exclude.tasks), track.Parallel /
Task.matches, Task*Filter; then driver.Allocator on every filtered schedule.
Generated: a track with 1-2 challenges whose schedules come from gen/schedules.py (real Task/Parallel objects) and one filter list.
Oracle: reference filter on the plain-dict model (docs/command_line_reference.rst), attribute snapshots taken before filtering,
"no Parallel without tasks", C02's allocator invariants (lab/allocator_oracle.py) on the result.
"""
import copy

from hypothesis import strategies as st

from esrally import track
from gen import schedules as S
from lab.allocator_oracle import check_allocator

ID = "C11"
LEVEL = "exploration"
TECHNIQUE = "property-based testing (Hypothesis): reference filter on a model + attribute snapshots + allocator invariants on the filtered schedule"
RULE = (
    "Generated: track with 1-2 challenges, each a schedule of 1-5 (thorough 1-7) elements (leaf tasks or parallel elements of 1-4 tasks; names, "
    "6 operation types, 4 tags, clients, caps, completed-by, iteration/time based, throughput targets) built into real Task/Parallel objects; one "
    "filter list in include or exclude mode with 1-4 items drawn from the task names / 'type:x' / 'tag:y' present in the first schedule and from "
    "absent ones, with the special classes 'all tasks of one parallel element matched', 'some but not all', 'only absent filters', 'filters of different kinds with one value' (a task named like the type / tag of others; <v>, type:<v>, tag:<v>) (and 8 % no "
    "filter at all); applied through the real TaskFilterTrackProcessor. Non-trivial = the filter removes at least one and keeps at least one task "
    "and removes at least one task of a parallel element. Distinct = distinct canonical JSON."
)
ASSUMPTIONS = [
    "task names are unique within a challenge and contain neither ':' nor ',' (the loader rejects duplicates; 'a:b' cannot be written as a name filter)",
    "include and exclude lists are mutually exclusive and non-empty when given (argparse group in rally.py; an empty CSV means 'no filter')",
    "unchanged properties are compared on all instance attributes of Task and Operation (deep copies taken before filtering), not on object identity",
    "the end-to-end race on the actor simulator runs for a ~9 % sample of the cases (drawn flag) with scripted operations; its trusted base is that of C01",
]
BUDGET = {"quick": 3000, "thorough": 20000}
REQUIRED_CLASSES = {
    "filters-of-different-kinds-with-one-value": 200,
    "mode:include": 600,
    "mode:exclude": 450,
    "parallel:all-tasks-matched": 150,
    "parallel:no-task-matched": 150,
    "parallel:some-tasks-matched": 150,
    "filter:name": 300,
    "filter:type": 300,
    "filter:tag": 300,
    "filter:absent": 150,
    "removes-everything": 50,
}

KNOWN_EMPTY = "runnable/empty-parallel-after-exclude"


# ------------------------------------------------------------------------------------------------ generator
@st.composite
def _case(draw, tier):
    big = tier == "thorough"
    n = draw(st.sampled_from([1, 1, 2]))
    kw = dict(max_elements=7 if big else 5, max_parallel_tasks=4, max_clients=4, meta=False, ramp_up=False)
    specs = [draw(S.schedule_specs(**kw)) for _ in range(n)]
    if n == 2 and draw(st.booleans()):
        # the challenges of a track share most of their tasks: the second one is the first with other tags on some of its tasks
        specs[1] = copy.deepcopy(specs[0])
        for leaf in S.leaves(specs[1]):
            if draw(st.booleans()):
                choice = draw(st.sampled_from(["drop", "str", "list"]))
                if choice == "drop":
                    leaf.pop("tags", None)
                elif choice == "str":
                    leaf["tags"] = draw(st.sampled_from(S.TAGS))
                else:
                    leaf["tags"] = draw(st.lists(st.sampled_from(S.TAGS), min_size=1, max_size=2, unique=True))
    flt = None
    if draw(st.integers(0, 11)) != 7:
        flt = draw(S.filter_specs(specs[0]))
        if n == 2 and draw(st.booleans()):
            # something that matters in the second challenge as well
            m2 = S.model(specs[1])
            cands = [l["name"] for l in S.leaves(m2)] + sorted({f"tag:{t}" for l in S.leaves(m2) for t in l["tags"]})
            extra = draw(st.sampled_from(cands))
            if extra not in flt["filters"]:
                flt["filters"].append(extra)
    if flt is not None and draw(st.integers(0, 4)) == 0:
        # filters of different kinds with one value ("refresh" next to "type:refresh", "setup" next to "tag:setup"): a task is named like the
        # operation type or the tag of (other) tasks, and the list holds two or three of <v>, type:<v>, tag:<v> in a drawn order
        m = S.model(specs[0])
        values = sorted({l["operation"]["type"] for l in S.leaves(m)} | {t for l in S.leaves(m) for t in l["tags"]})
        v = draw(st.sampled_from(values))
        taken = {S.resolved_name(l) for spec in specs for l in S.leaves(spec)}
        if v not in taken:
            for spec in specs:
                elements = [el for el in spec]
                el = elements[draw(st.integers(0, len(elements) - 1))]
                leaf = el["tasks"][draw(st.integers(0, len(el["tasks"]) - 1))] if "tasks" in el else el
                old = S.resolved_name(leaf)
                leaf["name"] = v
                if "tasks" in el and el.get("completed-by") == old:
                    el["completed-by"] = v
        pair = draw(st.permutations([v, f"type:{v}", f"tag:{v}"]))[: draw(st.sampled_from([2, 2, 3]))]
        keep = [f for f in flt["filters"] if f not in pair][: draw(st.integers(0, 1))]
        pos = draw(st.integers(0, len(keep)))
        flt["filters"] = keep[:pos] + list(pair) + keep[pos:]
        flt["same_value_across_kinds"] = True
    return {"schedules": specs, "filter": flt, "simulate": draw(st.integers(0, 9)) == 4}


def strategy(tier, known):
    return _case(tier)


def _in_known_region(case):
    flt = case.get("filter")
    if not flt or flt["mode"] != "exclude":
        return False
    return any(S.parallels_emptied_by(S.model(spec), "exclude", flt["filters"]) for spec in case["schedules"])


def is_excluded(case, known):
    return KNOWN_EMPTY in known and _in_known_region(case)


# ------------------------------------------------------------------------------------------------ hook for the lead
def run_on_simulator(schedule_spec, filtered_schedule=None, obs=None):
    """
    Runs the schedule the *real* filter left behind as a race on the actor simulator E1 (sim.race) with progress output enabled and
    applies C01's clauses: one BenchmarkComplete, no BenchmarkFailure, every remaining task runs on all its clients, steps in order.
    The operations are replaced by the scripted "sim-op" (0.125 s per request, unthrottled); names, clients, iterations / time periods,
    clients caps and completed-by flags are taken from the real objects.

    :param schedule_spec: the *filtered* schedule as a gen/schedules.py spec (unused: the real objects are what the driver would get)
    :param filtered_schedule: the real Task/Parallel objects the real filter left behind
    :param obs: the case's Obs
    """
    import importlib

    from sim import race as sim_race

    c01 = importlib.import_module("checks.c01_schedule_steps")
    req = [{"pre": 0, "wire": [[0, 0.125]], "post": 0, "outcome": "ok", "shape": "dict", "weight": 1, "unit": "ops"}]

    def leaf(t):
        d = {"name": t.name, "clients": t.clients, "stride": 1, "requests": req}
        if t.time_period is not None or t.warmup_time_period is not None:
            d.update(mode="time", warmup_time_period=t.warmup_time_period, time_period=t.time_period if t.time_period is not None else 1)
        else:
            d.update(mode="iterations", warmup_iterations=t.warmup_iterations, iterations=t.iterations if t.iterations is not None else 1)
        return d

    schedule = []
    for el in filtered_schedule or []:
        if hasattr(el, "tasks"):
            if not el.tasks:
                obs.violation(KNOWN_EMPTY, "the filtered schedule contains a parallel element without tasks")
                return None
            cb = None
            for t in el.tasks:
                if t.completes_parent:
                    cb = t.name
                elif t.any_completes_parent:
                    cb = "any"
            schedule.append({"parallel": [leaf(t) for t in el.tasks], "clients": el._clients, "completed_by": cb})  # pylint: disable=protected-access
        else:
            schedule.append(leaf(el))
    if not schedule:
        return None
    case = {"schedule": schedule, "hosts": [2], "test_mode": True, "offsets": [0.0], "delays": [0, 2], "wake_late": [0], "prep_tasks": [],
            "seed": 0, "quiet": False, "preempt": None}
    if c01.named_task_wraps(case):
        return None  # known finding of C01, not a property of the filter
    r = sim_race.run_race(case)
    sub = type(obs)()
    c01.check_race(case, r, sub)
    for sig, msg in sub.violations:
        obs.violation(f"runnable/race/{sig}", msg)
    obs.cls("simulated-race")
    if r.progress.lines:
        obs.cls("simulated-race-with-progress-output")
    return r


def _filtered_spec(spec, mode, filters):
    """the spec with the leaves the reference filter removes taken out (parallel elements without survivors disappear)"""
    survivors = {tuple(l["path"]) for l in S.leaves(S.reference_filter(S.model(spec), mode, filters))}
    out = []
    for i, el in enumerate(spec):
        if S.is_parallel(el):
            tasks = [copy.deepcopy(t) for j, t in enumerate(el["tasks"]) if (i, j) in survivors]
            if tasks:
                p = {k: copy.deepcopy(v) for k, v in el.items() if k != "tasks"}
                p["tasks"] = tasks
                out.append(p)
        elif (i,) in survivors:
            out.append(copy.deepcopy(el))
    return out


# ------------------------------------------------------------------------------------------------ oracle
def _snapshot(task):
    """every instance attribute of the task and of its operation, detached from the live objects"""
    d = {k: copy.deepcopy(v) for k, v in vars(task).items() if k != "operation"}
    d["operation"] = {k: copy.deepcopy(v) for k, v in vars(task.operation).items()}
    return d


def _diff(a, b):
    return sorted(k for k in set(a) | set(b) if a.get(k) != b.get(k))


def run_case(case, obs):
    flt = case.get("filter")
    mode, filters = (flt["mode"], flt["filters"]) if flt else ("exclude", [])
    specs = case["schedules"]
    models = [S.model(s) for s in specs]
    schedules = [S.build_schedule(s) for s in specs]

    # bookkeeping before the filter runs: attribute snapshot of every task by its path, cap of every parallel object
    snaps, caps = [], []
    for m, sched in zip(models, schedules):
        snaps.append({tuple(l["path"]): _snapshot(S.object_at(sched, l["path"])) for l in S.leaves(m)})
        caps.append({id(S.object_at(sched, el["path"])): el["clients_cap"] for el in m if el["kind"] == "parallel"})
    keep_alive = [list(s) for s in schedules]  # the original elements stay referenced, so ids stay unique

    # ---- the real filter
    if flt:
        t = S.apply_real_filter(schedules[0], mode, filters, extra_challenges=schedules[1:])
    else:
        # neither --include-tasks nor --exclude-tasks given
        from esrally import config
        from esrally.track import loader

        cfg = config.Config()
        cfg.add(config.Scope.applicationOverride, "track", "include.tasks", None)
        cfg.add(config.Scope.applicationOverride, "track", "exclude.tasks", None)
        t = track.Track(name="verif", challenges=[track.Challenge(f"c{i}", default=i == 0, schedule=s) for i, s in enumerate(schedules)])
        loader.TaskFilterTrackProcessor(cfg).on_after_load_track(t)
    obs.check(len(t.challenges) == len(specs), "selection/challenges", f"{len(t.challenges)} challenges left of {len(specs)}")
    # the driver can still pick every challenge by its name, also one that the filter has left without any task (it then runs nothing)
    from esrally import config as _config  # pylint: disable=import-outside-toplevel
    from esrally.driver import driver as _driver  # pylint: disable=import-outside-toplevel

    for ch in t.challenges:
        sel = _config.Config()
        sel.add(_config.Scope.applicationOverride, "track", "challenge.name", ch.name)
        try:
            picked = _driver.select_challenge(sel, t)
        except Exception as e:  # pylint: disable=broad-except
            picked = f"{type(e).__name__}: {str(e)[:120]}"
        obs.check(picked is ch, "runnable/challenge-cannot-be-selected", lambda: f"challenge {ch.name} ({len(ch.schedule)} elements left): select_challenge gives {picked!r}")
        was = ch.selected
        ch.selected = True  # what track loading does for the configured challenge
        try:
            got = t.selected_challenge_or_default
            obs.check(got is ch or any(c.selected and c is not ch for c in t.challenges), "runnable/selected-challenge-replaced-by-default",
                      lambda: f"challenge {ch.name} ({len(ch.schedule)} elements left) is selected but selected_challenge_or_default gives {got.name}")
        finally:
            ch.selected = was
        if not ch.schedule:
            obs.cls("challenge-left-without-tasks")

    removed_total = kept_total = removed_in_parallel = 0
    for ci, (challenge, m, snap, cap) in enumerate(zip(t.challenges, models, snaps, caps)):
        tag = f"challenge {ci}"
        expected = S.reference_filter(m, mode, filters)
        got = list(challenge.schedule)
        in_known = mode == "exclude" and bool(S.parallels_emptied_by(m, mode, filters)) and bool(filters)

        # ---- classes
        for el in m:
            if el["kind"] == "parallel" and filters:
                hits = [any(S.filter_matches(f, l) for f in filters) for l in el["tasks"]]
                obs.cls("parallel:all-tasks-matched" if all(hits) else "parallel:some-tasks-matched" if any(hits) else "parallel:no-task-matched")
                kept = [h if mode == "include" else not h for h in hits]
                removed_in_parallel += kept.count(False)
                if any(l["completes_parent"] and not k for l, k in zip(el["tasks"], kept)) and any(kept):
                    obs.cls("completing-task-removed")
        n_before = sum(1 for _ in S.leaves(m))
        n_after = sum(1 for _ in S.leaves(expected))
        removed_total += n_before - n_after
        kept_total += n_after

        # ---- runnable: no parallel element without tasks
        empties = [el for el in got if isinstance(el, track.Parallel) and len(el.tasks) == 0]
        if empties:
            obs.violation(
                KNOWN_EMPTY if in_known else "runnable/empty-parallel",
                f"{tag}: {mode} {filters} leaves {len(empties)} parallel element(s) without tasks in the schedule "
                f"(schedule now: {[('parallel', [x.name for x in el.tasks]) if isinstance(el, track.Parallel) else el.name for el in got]})",
            )
        # the selection clauses below speak about the rest, so that the empty elements are one root cause, reported once
        got_sel = [el for el in got if not (isinstance(el, track.Parallel) and len(el.tasks) == 0)]

        # ---- exactly the selected tasks, in order, in their elements
        def shape(elements, name_of, tasks_of, is_par):
            return [[name_of(x) for x in tasks_of(el)] if is_par(el) else name_of(el) for el in elements]

        want_shape = shape(expected, lambda x: x["name"], lambda el: el["tasks"], lambda el: el["kind"] == "parallel")
        got_shape = shape(got_sel, lambda x: x.name, lambda el: el.tasks, lambda el: isinstance(el, track.Parallel))
        if want_shape != got_shape:
            flat_w = [l["name"] for l in S.leaves(expected)]
            flat_g = [x.name for el in got_sel for x in el]
            if sorted(flat_w) != sorted(flat_g):
                extra = sorted(set(flat_g) - set(flat_w))
                missing = sorted(set(flat_w) - set(flat_g))
                sig = f"selection/{mode}/" + ("kept-unselected" if extra else "dropped-selected")
                obs.violation(sig, f"{tag}: {mode} {filters}: wrongly kept {extra}, wrongly removed {missing}; expected {want_shape}, got {got_shape}")
            elif flat_w != flat_g:
                obs.violation("selection/order", f"{tag}: {mode} {filters}: expected order {flat_w}, got {flat_g}")
            else:
                obs.violation("selection/structure", f"{tag}: {mode} {filters}: expected {want_shape}, got {got_shape}")
            continue

        # ---- all properties unchanged
        for el_m, el in zip(expected, got_sel):
            pairs = list(zip(el_m["tasks"], el.tasks)) if el_m["kind"] == "parallel" else [(el_m, el)]
            for lm, obj in pairs:
                before, after = snap[tuple(lm["path"])], _snapshot(obj)
                changed = _diff(before, after)
                if "operation" in changed:
                    changed = [c for c in changed if c != "operation"] + ["operation." + k for k in _diff(before["operation"], after["operation"])]
                obs.check(not changed, "properties/changed", lambda: f"{tag}: task {obj.name}: attributes changed by the filter: {changed}")
            if el_m["kind"] == "parallel":
                want_clients = el_m["clients_cap"] if el_m["clients_cap"] is not None else sum(l["clients"] for l in el_m["tasks"])
                obs.check(
                    el.clients == want_clients,
                    "properties/parallel-clients",
                    lambda: f"{tag}: parallel {[x.name for x in el.tasks]}: clients={el.clients}, written cap {el_m['clients_cap']}, surviving tasks need {want_clients}",
                )

        # ---- runnable: the allocator invariants of C02 on what the driver would get
        def cap_of(parallel, cap=cap):
            return cap[id(parallel)] if id(parallel) in cap else parallel._clients  # pylint: disable=protected-access

        scratch = type(obs)()  # classes of the allocator oracle are not this property's classes
        check_allocator(got, cap_of, scratch, prefix="runnable/allocator/", empty_sig=KNOWN_EMPTY if (in_known and empties) else None)
        for sig, msg in scratch.violations:
            obs.violation(sig, f"{tag}: {mode} {filters}: {msg}")

        if case.get("simulate") and filters:
            run_on_simulator(_filtered_spec(specs[ci], mode, filters), filtered_schedule=got, obs=obs)

    # ---- classes / non-trivial
    if not flt:
        obs.cls("no-filter")
    else:
        obs.cls(f"mode:{mode}")
        if case["filter"].get("same_value_across_kinds"):
            obs.cls("filters-of-different-kinds-with-one-value")
        for f in filters:
            obs.cls("filter:type" if f.startswith("type:") else "filter:tag" if f.startswith("tag:") else "filter:name")
            if not any(S.filter_matches(f, l) for m in models for l in S.leaves(m)):
                obs.cls("filter:absent")
        if kept_total == 0:
            obs.cls("removes-everything")
        if removed_total == 0:
            obs.cls("removes-nothing")
    if len(specs) > 1:
        obs.cls("two-challenges")
    if case.get("simulate"):
        obs.cls("simulate-sample")
    obs.mark_nontrivial(removed_total >= 1 and kept_total >= 1 and removed_in_parallel >= 1)


def _leaf(name, typ="bulk", **kw):
    d = {"name": name, "operation": {"name": f"op-{name}", "type": typ, "params": {}, "style": "inline"}}
    d.update(kw)
    return d


PROBES = {
    # F3: every task of the parallel element is excluded -> Parallel([]) stays in the schedule
    KNOWN_EMPTY: {
        "schedules": [[{"tasks": [_leaf("a"), _leaf("b", clients=2)]}, _leaf("c", typ="search")]],
        "filter": {"mode": "exclude", "filters": ["a", "b"]},
        "simulate": False,
    }
}
