"""
C20 - Race comparison reports signed differences with the right direction.

Real code: esrally.reporter.ComparisonReporter (_metrics_table plain/rich, report() with output.path, markdown and csv),
esrally.metrics.FileRaceStore / Race / GlobalStats for storing and reading back both races, esrally.utils.console.RichFormat.
Generated: pairs of race results (whole result structures with every key Rally writes, or results calculated by Rally from generated
metric stores), partially overlapping tasks, contender values derived from the baseline (equal, tiny / small / large deltas) or independent,
zero values, a class with negative values, a class of race files that lack the newer keys.
Oracle: reference table metric -> (row label, unit conversion, direction) written from docs/summary_report.rst and docs/tournament.rst;
row presence, values, Diff, Diff %, colour per cell, self comparison, swap, plain == rich without ANSI, file == console without ANSI.
"""
import contextlib
import copy
import datetime
import io
import os
import re
import shutil
import tempfile
from fractions import Fraction

from hypothesis import strategies as st

from esrally import metrics, reporter
from esrally.utils import console
from gen import results as R

ID = "C20"
LEVEL = "exploration"
TECHNIQUE = "property-based testing (Hypothesis): reference direction/unit table from the docs + metamorphic relations (self, swap, plain/rich, file/console)"
RULE = (
    "Generated: baseline = whole result structure (every key Rally writes; absent metrics None/[]/{}; 0-4 tasks) or result calculated by Rally "
    "from generated metric records (12 %); contender = second structure over a partially overlapping task set whose numeric leaves are, per leaf, "
    "kept independent, copied from the baseline, or baseline +- {1e-6,4e-6,6e-6,1e-5,2e-5,0.004,0.006,0.01,0.5,1} / x1.01 / x0.5 / x2; values incl. 0, "
    "1e-6..1e9; 10 % of cases with negative values; 6 % with one race file lacking the transform / ingest / disk usage keys (older Rally); "
    "markdown or csv, processing time shown or not. Both races go through FileRaceStore.store_race / find_by_race_id. "
    "Non-trivial = some common task has at least one Diff cell marked improved and one marked regressed and some row has |Diff| < 1e-5. "
    "Distinct = distinct canonical JSON."
)
ASSUMPTIONS = [
    "values are finite, 0 or 1e-9 <= |v| <= 1e9 (1e12 for counters); NaN, inf and subnormal magnitudes are not generated (a subnormal baseline makes the relative difference overflow to inf%)",
    "a race file written by the current Rally contains every result key (absent metrics are None / [] / {}); files lacking newer keys are a separate class",
    "Diff is compared after parsing the printed cell: tolerance half a unit of the last printed digit (0.5e-5, 0.5e-2 for Diff %) + 1e-9 relative",
    "Diff % is only compared when the baseline is non-zero (the relative difference to 0 is not defined by the statement)",
    "a cell whose magnitude is exactly one unit in the last printed place (0.00001 / 0.01%) may be neutral or coloured (rounding of the printed digits); "
    "every larger magnitude must be coloured by sign and direction, every cell printing as zero must be neutral",
    "disk usage rows: a (index, field, statistic) present in only one race may be listed against 0 or omitted; only entries present in both are required",
    "markdown: tabulate re-parses numeric-looking strings identically for the coloured and the plain table, so file == console without ANSI is asserted exactly",
]
BUDGET = {"quick": 800, "thorough": 7000}
WALL_BUDGET_S = {"quick": 70, "thorough": 1300}
REQUIRED_CLASSES = {"improved-and-regressed-in-one-task": 100, "tiny-diff": 100, "partial-task-overlap": 50, "negative-values": 30, "from-records": 30}

ANSI = re.compile(r"\x1b\[[0-9;]*m")
CELL = re.compile(r"^\x1b\[(31|32|39);1m(.*)\x1b\[0m$", re.S)
COLOUR = {"31": "red", "32": "green", "39": "neutral"}
DELTAS = [1e-6, 4e-6, 6e-6, 1e-5, 2e-5, 0.004, 0.006, 0.01, 0.5, 1]
LEGACY_GROUPS = {
    "transform": list(R.TRANSFORM_METRICS.values()),
    "ingest": ["ingest_pipeline_cluster_count", "ingest_pipeline_cluster_time", "ingest_pipeline_cluster_failed"],
    "disk": list(R.DISK_METRICS),
}
LEGACY_CRASH = "crash/legacy-file-without-transform-keys"


# ------------------------------------------------------------------------------------------------ generator
_KNOBS = st.tuples(
    st.sampled_from(["dicts"] * 18 + ["records"] * 3 + ["negative"] * 3 + ["legacy"] * 2 + ["legacy-crash"] * 1),
    st.sampled_from(["markdown", "markdown", "csv"]),
    st.booleans(),
    st.sampled_from([None, "decimal", "right"]),
    st.lists(st.sampled_from(R._TASK_NAMES), max_size=4),
    st.lists(st.sampled_from(["both", "both", "both", "baseline", "contender"]), min_size=4, max_size=4),
    st.lists(st.integers(0, 13), min_size=24, max_size=24),
    st.sampled_from(["baseline", "contender"]),
    st.lists(st.sampled_from(sorted(LEGACY_GROUPS)), min_size=1, max_size=3, unique=True),
    st.lists(st.booleans(), min_size=4, max_size=4),
)


@st.composite
def _case(draw):
    kind, fmt, show_pt, align, names, sides, mix, legacy_side, legacy_groups, rename = draw(_KNOBS)
    case = {"kind": kind, "format": fmt, "processing_time": show_pt, "numbers_align": align, "mix": mix}
    if kind == "records":
        case["baseline"] = draw(R.record_race(max_tasks=3, allow_big=False))
        case["contender"] = draw(R.record_race(max_tasks=3, allow_big=False))
        case["rename"] = rename  # contender task i takes the name of baseline task i
        return case
    names = [f"{n}-{i}" for i, n in enumerate(names)]
    neg = kind == "negative"
    case["baseline"] = draw(R.result_dict([n for n, s in zip(names, sides) if s in ("both", "baseline")], negative=neg))
    case["contender"] = draw(R.result_dict([n for n, s in zip(names, sides) if s in ("both", "contender")], negative=neg))
    if kind.startswith("legacy"):
        case["legacy"] = {"side": legacy_side, "groups": legacy_groups}
        if kind == "legacy-crash":
            # the contender file predates the transform results, the baseline has some
            case["legacy"] = {"side": "contender", "groups": ["transform"]}
            for attr in R.TRANSFORM_METRICS.values():
                if not case["baseline"][attr]:
                    case["baseline"][attr] = [{"id": "transform-0", "mean": 12.5, "unit": "docs/s" if attr.endswith("throughput") else "ms"}]
    return case


def strategy(tier, known):
    return _case()


def _legacy_crash_region(case):
    """the contender file lacks the transform keys while the baseline has transform results"""
    lg = case.get("legacy")
    return bool(lg and lg["side"] == "contender" and "transform" in lg["groups"] and case["baseline"].get("total_transform_processing_times"))


def is_excluded(case, known):
    return LEGACY_CRASH in known and _legacy_crash_region(case)


# ------------------------------------------------------------------------------------------------ building the two result dicts
def _is_num(x):
    return isinstance(x, (int, float)) and not isinstance(x, bool)


def _mix_leaf(b, c, mode):
    if not (_is_num(b) and _is_num(c)):
        return c
    if mode <= 2:
        return c
    if mode <= 4:
        return b
    if mode <= 8:
        d = DELTAS[(mode * 7 + int(abs(b)) % 10) % len(DELTAS)]
        return b + d if mode % 2 else b - d
    return {9: b * 1.01, 10: b * 0.5, 11: b * 2, 12: b + 1e-6, 13: b - 4e-6}[mode]


def _mix(b, c, mix, counter):
    """contender structure with numeric leaves chosen per leaf: independent / equal to baseline / baseline + delta"""
    if isinstance(b, dict) and isinstance(c, dict):
        return {k: (_mix(b[k], v, mix, counter) if k in b else v) for k, v in c.items()}
    if isinstance(b, list) and isinstance(c, list):
        key = lambda x: x.get("task", x.get("job", x.get("id", (x.get("index"), x.get("field"))))) if isinstance(x, dict) else None  # noqa: E731
        by = {str(key(x)): x for x in b if isinstance(x, dict)}
        return [_mix(by[str(key(x))], x, mix, counter) if isinstance(x, dict) and str(key(x)) in by else x for x in c]
    counter[0] += 1
    return _mix_leaf(b, c, mix[counter[0] % len(mix)])


def _results_from_records(race_case, root, race_id):
    cfg, trk, challenge, store, _model = R.materialize(race_case, root, race_id)
    race = R.make_race(cfg, trk, challenge)
    return _plain(metrics.calculate_results(store, race).as_dict())


def _plain(x):
    if isinstance(x, dict):
        return {str(k): _plain(v) for k, v in x.items()}
    if isinstance(x, (list, tuple)):
        return [_plain(v) for v in x]
    return x


def _build_dicts(case, root):
    if case["kind"] == "records":
        b_case = case["baseline"]
        c_case = copy.deepcopy(case["contender"])
        used = {t["name"] for t in c_case["tasks"]}
        for i, t in enumerate(c_case["tasks"]):
            if i < len(b_case["tasks"]) and case["rename"][i] and (b_case["tasks"][i]["name"] not in used or b_case["tasks"][i]["name"] == t["name"]):
                used.discard(t["name"])
                t["name"] = b_case["tasks"][i]["name"]
                used.add(t["name"])
        b = _results_from_records(b_case, os.path.join(root, "rec-b"), "rec-b")
        c = _results_from_records(c_case, os.path.join(root, "rec-c"), "rec-c")
    else:
        b, c = copy.deepcopy(case["baseline"]), copy.deepcopy(case["contender"])
    c = _mix(b, c, case["mix"], [0])
    lg = case.get("legacy")
    if lg:
        target = b if lg["side"] == "baseline" else c
        for g in lg["groups"]:
            for k in LEGACY_GROUPS[g]:
                target.pop(k, None)
    return b, c


# ------------------------------------------------------------------------------------------------ reference table (from the docs)
MS_TO_MIN = Fraction(1, 60000)
MS_TO_S = Fraction(1, 1000)
B_TO_GB = Fraction(1, 1024**3)
B_TO_MB = Fraction(1, 1024**2)
ONE = Fraction(1)
LOWER, HIGHER = False, True

# summary_report.rst: "Cumulative <x> time of primary shards", "... count ...", "... across primary shards" (min, median, max);
# tournament.rst shows the times in minutes, GC times in seconds, sizes in GB, heap in MB, latencies in ms.
CUMULATIVE = [
    ("indexing time", "total_time", None),
    ("indexing throttle time", "indexing_throttle_time", None),
    ("merge time", "merge_time", "merge_count"),
    ("merge throttle time", "merge_throttle_time", None),
    ("refresh time", "refresh_time", "refresh_count"),
    ("flush time", "flush_time", "flush_count"),
]
GC = [("Young Gen", "young"), ("Old Gen", "old"), ("ZGC Cycles", "zgc_cycles"), ("ZGC Pauses", "zgc_pauses")]
SIZES = [("Dataset size", "dataset_size"), ("Store size", "store_size"), ("Translog size", "translog_size")]
HEAP = [
    ("segments", "memory_segments"),
    ("doc values", "memory_doc_values"),
    ("terms", "memory_terms"),
    ("norms", "memory_norms"),
    ("points", "memory_points"),
    ("stored fields", "memory_stored_fields"),
]
TRANSFORM = [
    ("Transform processing time", "total_transform_processing_times", LOWER),
    ("Transform indexing time", "total_transform_index_times", LOWER),
    ("Transform search time", "total_transform_search_times", LOWER),
    ("Transform throughput", "total_transform_throughput", HIGHER),
]
PERCENTILES = [("50", "50_0"), ("90", "90_0"), ("99", "99_0"), ("99.9", "99_9"), ("99.99", "99_99"), ("100", "100_0")]
DISK_STATS = {
    "inverted index": "disk_usage_inverted_index",
    "stored fields": "disk_usage_stored_fields",
    "doc values": "disk_usage_doc_values",
    "points": "disk_usage_points",
    "norms": "disk_usage_norms",
    "term vectors": "disk_usage_term_vectors",
    "total": "disk_usage_total",
}


def expected_rows(b, c, show_processing_time):
    """(label, task) -> dict(b=, c=, factor=, unit= (None: not checked), higher=)   for every metric present in both results"""
    rows = {}

    def add(label, task, bv, cv, factor, unit, higher=LOWER):
        if bv is None or cv is None:
            return
        rows[(label, str(task))] = {"b": bv, "c": cv, "factor": factor, "unit": unit, "higher": higher}

    for name, attr, count_attr in CUMULATIVE:
        add(f"Cumulative {name} of primary shards", "", b.get(attr), c.get(attr), MS_TO_MIN, "min")
        if count_attr:
            add(f"Cumulative {name.replace('time', 'count')} of primary shards", "", b.get(count_attr), c.get(count_attr), ONE, "")
        bs, cs = b.get(attr + "_per_shard") or {}, c.get(attr + "_per_shard") or {}
        for stat in ("min", "median", "max"):
            add(f"{stat.capitalize()} cumulative {name} across primary shard", "", bs.get(stat), cs.get(stat), MS_TO_MIN, "min")
    cjobs = {j["job"]: j for j in c.get("ml_processing_time") or []}
    for j in b.get("ml_processing_time") or []:
        if j["job"] in cjobs:
            for stat in ("min", "mean", "median", "max"):
                add(f"{stat.capitalize()} ML processing time", j["job"], j[stat], cjobs[j["job"]][stat], ONE, "ms")
    for label, prefix in GC:
        add(f"Total {label} GC time", "", b.get(f"{prefix}_gc_time"), c.get(f"{prefix}_gc_time"), MS_TO_S, "s")
        add(f"Total {label} GC count", "", b.get(f"{prefix}_gc_count"), c.get(f"{prefix}_gc_count"), ONE, "")
    for label, attr in SIZES:
        add(label, "", b.get(attr), c.get(attr), B_TO_GB, "GB")
    for label, attr in HEAP:
        add(f"Heap used for {label}", "", b.get(attr), c.get(attr), B_TO_MB, "MB")
    add("Segment count", "", b.get("segment_count"), c.get("segment_count"), ONE, "")
    for label, attr, higher in TRANSFORM:
        ct = {t["id"]: t for t in c.get(attr) or []}
        for t in b.get(attr) or []:
            if t["id"] in ct:
                add(label, t["id"], t["mean"], ct[t["id"]]["mean"], ONE, None, higher)
    add("Total Ingest Pipeline count", "", b.get("ingest_pipeline_cluster_count"), c.get("ingest_pipeline_cluster_count"), ONE, "")
    add("Total Ingest Pipeline time", "", b.get("ingest_pipeline_cluster_time"), c.get("ingest_pipeline_cluster_time"), ONE, None)
    add("Total Ingest Pipeline failed", "", b.get("ingest_pipeline_cluster_failed"), c.get("ingest_pipeline_cluster_failed"), ONE, "")
    ctasks = {t["task"]: t for t in c.get("op_metrics") or []}
    for bt in b.get("op_metrics") or []:
        task = bt["task"]
        if task not in ctasks:
            continue
        ct = ctasks[task]
        for stat in ("min", "mean", "median", "max"):
            add(f"{stat.capitalize()} Throughput", task, bt["throughput"].get(stat), ct["throughput"].get(stat), ONE, None, HIGHER)
        for name, key in [("latency", "latency"), ("service time", "service_time")] + ([("processing time", "processing_time")] if show_processing_time else []):
            for p, pkey in PERCENTILES:
                add(f"{p}th percentile {name}", task, (bt.get(key) or {}).get(pkey), (ct.get(key) or {}).get(pkey), ONE, "ms")
        add("error rate", task, bt.get("error_rate"), ct.get("error_rate"), Fraction(100), "%")
    return rows


def expected_disk_rows(b, c):
    """-> required {(label, ""): row} for entries present in both (not both zero), and allowed labels (present in at least one)"""
    required, allowed = {}, set()
    if not (b.get("disk_usage_total") and c.get("disk_usage_total")):
        return required, allowed

    def collate(d):
        out = {}
        for stat, attr in DISK_STATS.items():
            for e in d.get(attr) or []:
                out[(e["index"], e["field"], stat)] = e["value"]
        return out

    cb, cc = collate(b), collate(c)
    for key in set(cb) | set(cc):
        label = "%s %s %s" % key
        allowed.add(label)
        if key in cb and key in cc and not (cb[key] == 0 and cc[key] == 0):
            required[(label, "")] = {"b": cb[key], "c": cc[key], "higher": LOWER}
    return required, allowed


DISK_UNITS = {"GB": Fraction(1, 1024**3), "MB": Fraction(1, 1024**2), "kB": Fraction(1, 1024), "bytes": ONE}


# ------------------------------------------------------------------------------------------------ cell oracles
def _split(cell):
    """rich cell -> (colour, text)"""
    m = CELL.match(cell)
    if not m:
        return None, cell
    return COLOUR[m.group(1)], m.group(2)


def _num(text):
    return float(text[:-1] if text.endswith("%") else text)


def _check_cell(obs, tag, rich_cell, plain_cell, higher, unit_last_place):
    """colour of one Diff / Diff % cell against the sign of its own number and the metric direction; -> (colour, number)"""
    colour, text = _split(rich_cell)
    if not obs.check(colour is not None, "rich/not-coloured", f"{tag}: rich cell {rich_cell!r} carries no colour code"):
        return None, None
    obs.check(text == plain_cell, "plain-vs-rich", f"{tag}: rich {text!r} vs plain {plain_cell!r}")
    try:
        v = _num(text)
        if v != v or v in (float("inf"), float("-inf")):
            raise ValueError(text)
    except ValueError:
        obs.violation("cell/not-a-number", f"{tag}: {text!r}")
        return colour, None
    if v == 0:
        obs.check(colour == "neutral", "colour/zero-not-neutral", f"{tag}: {text!r} prints as zero but is {colour}")
    elif abs(v) == unit_last_place and colour == "neutral":
        pass  # one unit in the last printed place: rounding artefact, may be neutral
    else:
        want = "green" if (v > 0) == higher else "red"
        obs.check(colour == want, "colour/direction", f"{tag}: {text!r} is {colour}, expected {want} (higher is better: {higher})")
        obs.check(text.startswith("+") == (v > 0), "sign/prefix", f"{tag}: {text!r} sign prefix")
    return colour, v


def _close(actual, expected, tol_abs, tol_rel=1e-9):
    return abs(actual - expected) <= tol_abs + tol_rel * abs(expected)


def _check_table(obs, tag, plain, rich, b, c, show_pt, exp=None, disk=None, values=True):
    """oracle for one comparison table; -> {(label, task): (diff colour, pct colour, diff value, pct value)}
    values=False: only row set, plain == rich and the colour rules (used for the self comparison, whose value rule is checked by the caller)"""
    out = {}
    obs.check(len(plain) == len(rich), "plain-vs-rich", f"{tag}: {len(plain)} plain rows, {len(rich)} rich rows")
    exp = exp if exp is not None else expected_rows(b, c, show_pt)
    disk_required, disk_allowed = disk if disk is not None else expected_disk_rows(b, c)
    seen = set()
    for pr, rr in zip(plain, rich):
        if not obs.check(len(pr) == 7 and len(rr) == 7, "row/shape", f"{tag}: row {pr}"):
            continue
        key = (pr[0], pr[1])
        obs.check(rr[:4] == pr[:4] and rr[5] == pr[5], "plain-vs-rich", f"{tag}: {pr} vs {rr}")
        obs.check(key not in seen, "row/duplicate", f"{tag}: two rows for {key}")
        seen.add(key)
        e = exp.get(key)
        if e is None:
            if key in disk_required:
                e = dict(disk_required[key])
                if not obs.check(pr[5] in DISK_UNITS, "disk/unit", f"{tag}: {pr}"):
                    continue
                e["factor"], e["unit"] = DISK_UNITS[pr[5]], None
            elif pr[0] in disk_allowed and pr[1] == "":
                # entry present in one race only, listed against 0: only the colour rules are applied
                _check_cell(obs, f"{tag} {key} Diff", rr[4], pr[4], LOWER, 1e-5)
                _check_cell(obs, f"{tag} {key} Diff%", rr[6], pr[6], LOWER, 0.01)
                continue
            else:
                obs.violation("row/unexpected", f"{tag}: row {pr} for a metric that is not present in both races")
                continue
        dcol, dv = _check_cell(obs, f"{tag} {key} Diff", rr[4], pr[4], e["higher"], 1e-5)
        pcol, pv = _check_cell(obs, f"{tag} {key} Diff%", rr[6], pr[6], e["higher"], 0.01)
        if dv is None or pv is None:
            continue
        out[key] = (dcol, pcol, dv, pv)
        obs.check(pr[6].endswith("%"), "cell/not-a-number", f"{tag}: {key}: Diff % cell {pr[6]!r}")
        if e["unit"] is not None:
            obs.check(pr[5] == e["unit"], "row/unit", f"{tag}: {key}: unit {pr[5]!r}, expected {e['unit']!r}")
        if not values:
            continue
        f = float(e["factor"])
        eb, ec = e["b"] * f, e["c"] * f
        scale = max(abs(eb), abs(ec), 1.0)
        obs.check(
            _is_num(pr[2]) and _is_num(pr[3]) and _close(pr[2], eb, 1e-12 * scale) and _close(pr[3], ec, 1e-12 * scale),
            "row/values",
            f"{tag}: {key}: baseline/contender cells {pr[2]!r}/{pr[3]!r}, expected {eb}/{ec}",
        )
        ed = float((Fraction(e["c"]) - Fraction(e["b"])) * e["factor"])  # contender - baseline, exact, in the unit of the row
        obs.check(
            _close(dv, ed, 0.5000001e-5 + 1e-9 * scale),
            "diff/value",
            f"{tag}: {key}: Diff {pr[4]!r}, expected contender - baseline = {ed!r} (baseline {eb!r}, contender {ec!r})",
        )
        if e["b"] != 0:
            want = float((Fraction(e["c"]) - Fraction(e["b"])) / Fraction(e["b"]) * 100)
            obs.check(_close(pv, want, 0.5000001e-2), "diff/percent", f"{tag}: {key}: Diff % {pr[6]!r}, expected {want!r}")
    for key in list(exp) + list(disk_required):
        obs.check(key in seen, "row/missing", f"{tag}: no row for {key} although both races have the metric")
    return out


# ------------------------------------------------------------------------------------------------ run
class _Results:
    """stands in for GlobalStats in Race.as_dict: writes exactly the generated structure (GlobalStats would add missing keys as None)"""

    def __init__(self, d):
        self.d = d

    def as_dict(self):
        return self.d


def _store_and_read(root, race_id, results, ts):
    from esrally import track

    cfg = R.make_config(root, race_id, ts=ts)
    challenge = track.Challenge("verif-challenge", default=True)
    trk = track.Track("verif-track", challenges=[challenge])
    race = R.make_race(cfg, trk, challenge)
    race.add_results(_Results(results))
    store = metrics.FileRaceStore(cfg)
    store.store_race(race)
    return cfg, store.find_by_race_id(race_id)


def run_case(case, obs):
    root = tempfile.mkdtemp(prefix="verif-c20-")
    saved = (console.format, console.QUIET, console.ASSUME_TTY)
    console.format, console.QUIET, console.ASSUME_TTY = console.RichFormat, False, True
    try:
        _run(case, obs, root)
    finally:
        console.format, console.QUIET, console.ASSUME_TTY = saved
        shutil.rmtree(root, ignore_errors=True)


def _tables(cfg, bs, cs):
    rep = reporter.ComparisonReporter(cfg)
    plain = rep._metrics_table(bs, cs, plain=True)  # pylint: disable=protected-access
    rich = rep._metrics_table(bs, cs, plain=False)  # pylint: disable=protected-access
    return plain, rich


def _run(case, obs, root):
    b, c = _build_dicts(case, root)
    show_pt = bool(case["processing_time"])
    cfg, r1 = _store_and_read(root, "baseline-race", b, R.RACE_TS)
    _, r2 = _store_and_read(root, "contender-race", c, R.RACE_TS + datetime.timedelta(hours=3))
    out_file = os.path.join(root, "out", "report." + ("md" if case["format"] == "markdown" else "csv"))
    S = __import__("esrally.config", fromlist=["Scope"]).Scope.application
    cfg.add(S, "reporting", "output.path", out_file)
    cfg.add(S, "reporting", "format", case["format"])
    if case["numbers_align"]:
        cfg.add(S, "reporting", "numbers.align", case["numbers_align"])
    cfg.add(S, "reporting", "output.processingtime", show_pt)

    legacy = case.get("legacy")
    bs, cs = metrics.GlobalStats(r1.results), metrics.GlobalStats(r2.results)
    try:
        plain, rich = _tables(cfg, bs, cs)
    except TypeError as e:
        if _legacy_crash_region(case):
            obs.violation(LEGACY_CRASH, f"comparison with a contender race file that lacks the transform keys raises {type(e).__name__}: {e}")
            obs.cls("legacy-file")
            return
        raise
    eb, ec = b, c  # a file without the newer keys: GlobalStats yields None, i.e. the metric is absent (dict.get -> None in the reference)
    exp_bc = expected_rows(eb, ec, show_pt)
    rows = _check_table(obs, "b-vs-c", plain, rich, eb, ec, show_pt, exp=exp_bc)

    # ---- report(): console (rich) vs file (plain)
    buf = io.StringIO()
    with contextlib.redirect_stdout(buf):
        reporter.ComparisonReporter(cfg).report(r1, r2)
    console_text = buf.getvalue()
    if obs.check(os.path.isfile(out_file), "file/missing", f"report file {out_file} was not written"):
        with open(out_file, encoding="utf-8", newline="") as f:
            file_text = f.read()
        stripped = ANSI.sub("", console_text)
        obs.check(
            stripped.endswith(file_text + "\n") and len(file_text) > 0,
            "file-vs-console",
            lambda: f"file ({len(file_text)} chars) is not the tail of the console output without ANSI codes:\nFILE:\n{file_text[-600:]}\nCONSOLE:\n{stripped[-600:]}",
        )
        obs.check(not ANSI.search(file_text), "file/ansi", "report file contains ANSI sequences")
        if case["format"] == "csv":
            import csv

            parsed = list(csv.reader(io.StringIO(file_text)))
            obs.check(parsed[0] == ["Metric", "Task", "Baseline", "Contender", "Diff", "Unit", "Diff %"], "file/header", f"csv header {parsed[:1]}")
            obs.check(parsed[1:] == [[str(x) for x in row] for row in plain], "file/rows", "csv rows differ from the plain table rows")
        obs.check(r1.race_id in console_text and r2.race_id in console_text, "console/race-ids", "race ids not printed")

    # ---- a race compared with itself
    for tag, stats, d in (("b-vs-b", bs, eb), ("c-vs-c", cs, ec)):
        p2, r2_ = _tables(cfg, stats, stats)
        for key, (dcol, pcol, dv, pv) in _check_table(obs, tag, p2, r2_, d, d, show_pt, values=False).items():
            obs.check(dv == 0 and pv == 0 and dcol == "neutral" and pcol == "neutral", "self/difference", f"{tag}: {key}: Diff {dv} ({dcol}), Diff % {pv} ({pcol})")

    # ---- swapped
    try:
        p3, r3 = _tables(cfg, cs, bs)
    except TypeError:
        if legacy:
            p3 = None
        else:
            raise
    if p3 is not None:
        swapped = _check_table(obs, "c-vs-b", p3, r3, ec, eb, show_pt)
        flip = {"green": "red", "red": "green", "neutral": "neutral", None: None}
        if not legacy:
            non_disk = lambda keys: {k for k in keys if k in exp_bc}  # noqa: E731
            obs.check(non_disk(rows) == non_disk(swapped), "swap/rows", f"row sets differ: {sorted(set(rows) ^ set(swapped))[:5]}")
        for key, (dcol, pcol, dv, pv) in rows.items():
            if key not in swapped:
                continue
            sdcol, spcol, sdv, spv = swapped[key]
            obs.check(sdv == -dv, "swap/diff", f"{key}: Diff {float(dv)} swapped {float(sdv)}")
            obs.check(sdcol == flip[dcol], "swap/colour", f"{key}: Diff colour {dcol} swapped {sdcol}")
            e = exp_bc.get(key)
            if e and e["b"] != 0 and e["c"] != 0 and (e["b"] > 0) == (e["c"] > 0) and pv != 0 and spv != 0:
                obs.check((pv > 0) != (spv > 0), "swap/percent-sign", f"{key}: Diff % {float(pv)} swapped {float(spv)}")

    # ---- classes / non-trivial
    per_task = {}
    tiny = tiny_nonzero = False
    for (label, task), (dcol, pcol, dv, pv) in rows.items():
        if task:
            per_task.setdefault(task, set()).add(dcol)
        if abs(dv) < Fraction(1, 10**5):
            tiny = True
            e = exp_bc.get((label, task))
            if e and e["b"] != e["c"]:
                tiny_nonzero = True
    btasks = {t["task"] for t in b.get("op_metrics") or []}
    ctasks = {t["task"] for t in c.get("op_metrics") or []}
    both_dirs = any({"green", "red"} <= cols for t, cols in per_task.items() if t in btasks & ctasks)
    if both_dirs:
        obs.cls("improved-and-regressed-in-one-task")
    if tiny:
        obs.cls("tiny-diff")
    if tiny_nonzero:
        obs.cls("tiny-nonzero-diff")
    if btasks & ctasks:
        obs.cls("common-task")
    if (btasks ^ ctasks) and (btasks & ctasks):
        obs.cls("partial-task-overlap")
    if not rows:
        obs.cls("empty-table")
    if case["kind"] == "negative":
        obs.cls("negative-values")
    if case["kind"] == "records":
        obs.cls("from-records")
    if legacy:
        obs.cls("legacy-file")
    if any(k not in exp_bc for k in rows):
        obs.cls("disk-usage-rows")
    obs.cls("format:" + case["format"])
    obs.mark_nontrivial(both_dirs and tiny)


PROBES = {
    LEGACY_CRASH: {
        "kind": "legacy-crash",
        "format": "markdown",
        "processing_time": False,
        "numbers_align": None,
        "mix": [0],
        "baseline": {
            "op_metrics": [],
            "young_gc_time": 100,
            "total_transform_processing_times": [{"id": "transform-0", "mean": 10, "unit": "ms"}],
            "total_transform_index_times": [],
            "total_transform_search_times": [],
            "total_transform_throughput": [],
        },
        "contender": {"op_metrics": [], "young_gc_time": 120},
        "legacy": {"side": "contender", "groups": ["transform"]},
    }
}
