"""
C02 - Every task gets exactly its clients; clients are partitioned over workers.

Real code: esrally.driver.driver.Allocator (allocations / join_points / tasks_per_joinpoint / clients), track.Parallel.clients,
driver.calculate_worker_assignments; filtered schedules come out of the real loader.TaskFilterTrackProcessor.
Generated: schedule specs (gen/schedules.py) built into real Task/Parallel objects, optionally pushed through the real task filter
with generated include/exclude lists (the only way a caller can produce an element without tasks), plus a host layout and a client
count. An exhaustive grid of small layouts x client counts runs before the generated search.
Oracle: structural invariants recomputed from the spec (never from the allocator): row count, rectangular matrix, aligned and
consecutively numbered join points, exactly-once (task, client index) sets per element, completing clients, one progress entry per
step holding that element's tasks; exact contiguous partition of range(clients) over hosts x workers.
"""
from hypothesis import strategies as st

from esrally.driver import driver
from gen import schedules as S
from lab.allocator_oracle import check_allocator

ID = "C02"
LEVEL = "exploration"
TECHNIQUE = "property-based testing (Hypothesis) with structural invariants recomputed from the input + exhaustive enumeration of small host layouts"
RULE = (
    "Generated: schedule of 1-5 (thorough 1-7) elements, each a leaf task (1-6 clients) or a parallel element of 1-5 tasks with an optional "
    "'clients' cap below / equal to / above the sum of its tasks' clients and optional completed-by (task name or 'any'); in 45 % of the cases the "
    "built Task/Parallel objects are pushed through the real TaskFilterTrackProcessor with an include or exclude list drawn from the names, "
    "operation types and tags of the schedule (special class: all tasks of one parallel element named); plus 1-3 (thorough 1-4) load-driver "
    "hosts with 1-4 (1-8) cores and a client count 1-24 (1-64). Exhaustive sub-domain: every layout of <= 3 hosts x <= 4 cores x 1..16 clients "
    "(thorough: <= 4 hosts x <= 6 cores x 1..48 clients). Non-trivial = the schedule handed to the allocator contains a parallel element whose "
    "cap differs from the sum of its tasks' clients (capped or over-committed), or a filter removed every task of a parallel element; for "
    "layout-only cases: client count not divisible by the total number of cores. 1 case in 12 is a driver-level case: a two-task race on the actor "
    "simulator with 1-4 load-driver host entries that may name the same machine twice; what the workers started by Driver.start_benchmark hold is "
    "compared with client ids 0..n-1. Distinct = distinct canonical JSON."
)
ASSUMPTIONS = [
    "task names are unique within a schedule, clients >= 1, parallel cap >= 1, every host has >= 1 core (what the track schema and Driver.prepare_benchmark guarantee)",
    "a Parallel without tasks can only come out of the task filter (no other caller removes tasks), so such schedules are produced by the real filter only",
    "workers listed with an empty client list count as workers with load 0 (Driver.start_benchmark does not start them)",
]
BUDGET = {"quick": 3000, "thorough": 20000}
REQUIRED_CLASSES = {
    "parallel:cap-below-sum": 150,
    "parallel:cap-above-sum": 150,
    "wrap-around": 150,
    "completed-by:task": 150,
    "completed-by:any": 150,
    "filtered": 300,
    "filter-emptied-parallel": 100,
    "layout:uneven": 300,
    "layout:multi-host": 300,
    "driver-level": 60,
    "driver-level:host-listed-twice": 30,
}

KNOWN_EMPTY = "empty-parallel-from-filter"


# ------------------------------------------------------------------------------------------------ generator
@st.composite
def _case(draw, tier):
    big = tier == "thorough"
    spec = draw(
        S.schedule_specs(
            max_elements=7 if big else 5,
            max_parallel_tasks=5,
            max_clients=6,
            throughput=False,
            schedule_names=False,
            meta=False,
            ramp_up=False,
            op_styles=("inline", "ref"),
            max_ops=3,
        )
    )
    flt = draw(S.filter_specs(spec)) if draw(st.integers(0, 99)) < 45 else None
    cores = draw(S.host_layouts(4 if big else 3, 8 if big else 4))
    clients = draw(st.integers(1, 64 if big else 24))
    return {"schedule": spec, "filter": flt, "cores": cores, "clients": clients}


@st.composite
def _driver_case(draw):
    """what Driver.start_benchmark really hands to the workers it creates (run on the actor simulator E1): hosts may be listed twice"""
    n_entries = draw(st.integers(1, 4))
    alias = [0]
    for _ in range(n_entries - 1):
        alias.append(draw(st.integers(0, max(alias) + 1)))
    if n_entries >= 2 and draw(st.booleans()):
        alias[draw(st.integers(1, n_entries - 1))] = draw(st.sampled_from(alias))  # some machine is named twice (adjacent or not)
    return {"driver": True, "cores": [draw(st.integers(1, 4))] * n_entries, "alias": alias, "clients": draw(st.integers(1, 12)),
            "second_task_clients": draw(st.integers(1, 3))}


def strategy(tier, known):
    return st.integers(0, 11).flatmap(lambda k: _driver_case() if k == 0 else _case(tier))


def _in_known_region(case):
    """exclude filter that matches every task of some parallel element: the real filter leaves a Parallel without tasks (F3)"""
    flt = case.get("filter")
    if not case.get("schedule") or not flt or flt["mode"] != "exclude":
        return False
    return bool(S.parallels_emptied_by(S.model(case["schedule"]), flt["mode"], flt["filters"]))


def is_excluded(case, known):
    return KNOWN_EMPTY in known and _in_known_region(case)


def enumerate_cases(tier):
    max_hosts, max_cores, max_clients = (4, 6, 48) if tier == "thorough" else (3, 4, 16)

    def layouts(n):
        if n == 0:
            yield []
            return
        for rest in layouts(n - 1):
            for c in range(1, max_cores + 1):
                yield rest + [c]

    for h in range(1, max_hosts + 1):
        for cores in layouts(h):
            for clients in range(1, max_clients + 1):
                yield {"schedule": None, "filter": None, "cores": cores, "clients": clients}


# ------------------------------------------------------------------------------------------------ oracle: allocator
def _check_allocator(case, obs):
    spec = case["schedule"]
    m = S.model(spec)
    schedule = S.build_schedule(spec)
    # identity map: real Parallel object -> model entry (for the cap the element was written with)
    by_id = {id(S.object_at(schedule, el["path"])): el for el in m if el["kind"] == "parallel"}
    flt = case.get("filter")
    expected_empty = False
    emptied = []
    if flt:
        obs.cls("filtered", f"filter:{flt['mode']}")
        emptied = S.parallels_emptied_by(m, flt["mode"], flt["filters"])
        if emptied:
            obs.cls("filter-emptied-parallel")
        expected_empty = bool(emptied) and flt["mode"] == "exclude"
        schedule = S.apply_real_filter(schedule, flt["mode"], flt["filters"]).challenges[0].schedule
        if not schedule:
            obs.cls("filter-emptied-schedule")

    def cap_of(parallel):
        me = by_id.get(id(parallel))
        return me["clients_cap"] if me is not None else parallel._clients  # pylint: disable=protected-access

    info = check_allocator(schedule, cap_of, obs, empty_sig=KNOWN_EMPTY if expected_empty else None)
    # the partition used for this very schedule
    if info["clients"]:
        _check_layout(case["cores"], info["clients"], obs)
    return bool(emptied) or info["capped"]


# ------------------------------------------------------------------------------------------------ oracle: layout
def _check_layout(cores, clients, obs):
    hosts = [{"host": f"h{i}", "cores": c} for i, c in enumerate(cores)]
    res = driver.calculate_worker_assignments(hosts, clients)
    obs.check([a["host"] for a in res] == [h["host"] for h in hosts], "layout/hosts", lambda: f"hosts {[a['host'] for a in res]}")
    flat = [c for a in res for w in a["workers"] for c in w]
    if sorted(flat) != list(range(clients)):
        obs.violation("layout/partition", f"cores={cores} clients={clients}: assigned client ids {flat}")
    elif flat != list(range(clients)) or any(w != list(range(w[0], w[0] + len(w))) for a in res for w in a["workers"] if w):
        obs.violation("layout/not-contiguous", f"cores={cores} clients={clients}: {[a['workers'] for a in res]}")
    for a, h in zip(res, hosts):
        busy = [w for w in a["workers"] if w]
        obs.check(len(busy) <= h["cores"], "layout/workers-per-core", lambda: f"{len(busy)} workers on {h['cores']} cores: {a['workers']}")
        loads = [len(w) for w in a["workers"]]
        if loads:
            obs.check(max(loads) - min(loads) <= 1, "layout/imbalance", lambda: f"cores={cores} clients={clients}: loads on {h['host']}: {loads}")
    uneven = clients % sum(cores) != 0
    if uneven:
        obs.cls("layout:uneven")
    if len(cores) > 1:
        obs.cls("layout:multi-host")
    return uneven


def _run_driver(case, obs):
    from sim import race as sim_race  # pylint: disable=import-outside-toplevel

    def leaf(name, clients):
        return {"name": name, "clients": clients, "stride": 1, "mode": "iterations", "warmup_iterations": None, "iterations": 1,
                "requests": [{"pre": 0, "wire": [[0, 0.125]], "post": 0, "outcome": "ok", "shape": "dict", "weight": 1, "unit": "ops"}]}

    n = case["clients"]
    race = {"schedule": [leaf("a", n), leaf("b", min(n, case["second_task_clients"]))], "hosts": case["cores"], "host_alias": case["alias"],
            "test_mode": True, "offsets": [0.0], "delays": [0], "wake_late": [0], "prep_tasks": [], "preempt": None, "quiet": True}
    r = sim_race.run_race(race)
    workers = [rec.instance for rec in r.rt.instances(driver.Worker)]
    handed = []
    for w in workers:
        ids = [a["client_id"] for a in w.client_allocations.allocations] if getattr(w, "client_allocations", None) is not None else []
        obs.check(ids == list(range(ids[0], ids[0] + len(ids))) if ids else True, "driver/not-contiguous", lambda: f"a worker got clients {ids}")
        handed += ids
    where = f"hosts {case['alias']} x {case['cores'][0]} cores, {n} clients"
    obs.check(sorted(handed) == list(range(n)), "driver/clients-lost-or-duplicated", lambda: f"{where}: the workers that were started hold client ids {sorted(handed)}")
    ran = sorted(q["client"] for q in r.requests if q["task"] == "a")
    obs.check(ran == list(range(n)), "driver/task-not-run-by-all-clients", lambda: f"{where}: task a ({n} clients) was executed by client indexes {ran}")
    ran_b = sorted(q["client"] for q in r.requests if q["task"] == "b")
    obs.check(ran_b == list(range(min(n, case["second_task_clients"]))), "driver/task-not-run-by-all-clients", lambda: f"{where}: task b was executed by client indexes {ran_b}")
    obs.check(r.state["complete"] and not r.state["failed"], "driver/race-did-not-complete", lambda: f"{where}: {r.state}")
    obs.cls("driver-level")
    if len(set(case["alias"])) < len(case["alias"]):
        obs.cls("driver-level:host-listed-twice")
    obs.mark_nontrivial(len(case["alias"]) >= 2 and n >= 2)


def run_case(case, obs):
    if case.get("driver"):
        _run_driver(case, obs)
        return
    layout_nt = _check_layout(case["cores"], case["clients"], obs)
    if case.get("schedule") is None:
        obs.cls("layout-only")
        obs.mark_nontrivial(layout_nt)
        return
    schedule_nt = _check_allocator(case, obs)
    if schedule_nt:
        obs.cls("schedule-nontrivial")
    obs.mark_nontrivial(schedule_nt)


def _leaf(name, typ="bulk", **kw):
    d = {"name": name, "operation": {"name": f"op-{name}", "type": typ, "params": {}, "style": "inline"}}
    d.update(kw)
    return d


PROBES = {
    # F3: --exclude-tasks naming every task of a parallel element leaves Parallel([]) in the schedule
    KNOWN_EMPTY: {
        "schedule": [{"tasks": [_leaf("a"), _leaf("b", clients=2)]}, _leaf("c", typ="search")],
        "filter": {"mode": "exclude", "filters": ["a", "b"]},
        "cores": [2],
        "clients": 3,
    }
}


def evidence_extra():
    return {
        "exhaustive_subdomain": "calculate_worker_assignments on every layout of <= 3 hosts x 1..4 cores x 1..16 clients (thorough: <= 4 hosts x 1..6 cores x "
        "1..48 clients); all of them are evaluated before the generated search (count: exhaustive_subdomain_cases)"
    }
