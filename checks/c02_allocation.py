"""
C02 - Every task gets exactly its clients; clients are partitioned over workers.

Real code: esrally.driver.driver.Allocator (allocations / join_points / tasks_per_joinpoint / clients), track.Parallel.clients,
driver.calculate_worker_assignments; filtered schedules come out of the real loader.TaskFilterTrackProcessor.
Generated: schedule specs (gen/schedules.py) built into real Task/Parallel objects, optionally pushed through the real task filter
with generated include/exclude lists (the only way a caller can produce an element without tasks), plus a host layout and a client
count. An exhaustive grid of small layouts x client counts runs before the generated search.
Oracle: structural invariants recomputed from the spec (never from the allocator): row count, rectangular matrix, aligned and
consecutively numbered join points, exactly-once (task, client index) sets per element, completing clients, one progress entry per
step holding that element's tasks; exact contiguous partition of range(clients) over hosts x workers.
"""
from hypothesis import strategies as st

from esrally import track
from esrally.driver import driver
from gen import schedules as S

ID = "C02"
LEVEL = "exploration"
TECHNIQUE = "property-based testing (Hypothesis) with structural invariants recomputed from the input + exhaustive enumeration of small host layouts"
RULE = (
    "Generated: schedule of 1-5 (thorough 1-7) elements, each a leaf task (1-6 clients) or a parallel element of 1-5 tasks with an optional "
    "'clients' cap below / equal to / above the sum of its tasks' clients and optional completed-by (task name or 'any'); in 45 % of the cases the "
    "built Task/Parallel objects are pushed through the real TaskFilterTrackProcessor with an include or exclude list drawn from the names, "
    "operation types and tags of the schedule (special class: all tasks of one parallel element named); plus 1-3 (thorough 1-4) load-driver "
    "hosts with 1-4 (1-8) cores and a client count 1-24 (1-64). Exhaustive sub-domain: every layout of <= 3 hosts x <= 4 cores x 1..16 clients "
    "(thorough: <= 4 hosts x <= 6 cores x 1..48 clients). Non-trivial = the schedule handed to the allocator contains a parallel element whose "
    "cap differs from the sum of its tasks' clients (capped or over-committed), or a filter removed every task of a parallel element; for "
    "layout-only cases: client count not divisible by the total number of cores. Distinct = distinct canonical JSON."
)
ASSUMPTIONS = [
    "task names are unique within a schedule, clients >= 1, parallel cap >= 1, every host has >= 1 core (what the track schema and Driver.prepare_benchmark guarantee)",
    "a Parallel without tasks can only come out of the task filter (no other caller removes tasks), so such schedules are produced by the real filter only",
    "workers listed with an empty client list count as workers with load 0 (Driver.start_benchmark does not start them)",
]
BUDGET = {"quick": 3000, "thorough": 20000}
REQUIRED_CLASSES = {
    "parallel:cap-below-sum": 150,
    "parallel:cap-above-sum": 150,
    "wrap-around": 150,
    "completed-by:task": 150,
    "completed-by:any": 150,
    "filtered": 300,
    "filter-emptied-parallel": 100,
    "layout:uneven": 300,
    "layout:multi-host": 300,
}

KNOWN_EMPTY = "empty-parallel-from-filter"


# ------------------------------------------------------------------------------------------------ generator
@st.composite
def _case(draw, tier):
    big = tier == "thorough"
    spec = draw(
        S.schedule_specs(
            max_elements=7 if big else 5,
            max_parallel_tasks=5,
            max_clients=6,
            throughput=False,
            schedule_names=False,
            meta=False,
            ramp_up=False,
            op_styles=("inline", "ref"),
            max_ops=3,
        )
    )
    flt = draw(S.filter_specs(spec)) if draw(st.integers(0, 99)) < 45 else None
    cores = draw(S.host_layouts(4 if big else 3, 8 if big else 4))
    clients = draw(st.integers(1, 64 if big else 24))
    return {"schedule": spec, "filter": flt, "cores": cores, "clients": clients}


def strategy(tier, known):
    return _case(tier)


def _in_known_region(case):
    """exclude filter that matches every task of some parallel element: the real filter leaves a Parallel without tasks (F3)"""
    flt = case.get("filter")
    if not case.get("schedule") or not flt or flt["mode"] != "exclude":
        return False
    return bool(S.parallels_emptied_by(S.model(case["schedule"]), flt["mode"], flt["filters"]))


def is_excluded(case, known):
    return KNOWN_EMPTY in known and _in_known_region(case)


def enumerate_cases(tier):
    max_hosts, max_cores, max_clients = (4, 6, 48) if tier == "thorough" else (3, 4, 16)

    def layouts(n):
        if n == 0:
            yield []
            return
        for rest in layouts(n - 1):
            for c in range(1, max_cores + 1):
                yield rest + [c]

    for h in range(1, max_hosts + 1):
        for cores in layouts(h):
            for clients in range(1, max_clients + 1):
                yield {"schedule": None, "filter": None, "cores": cores, "clients": clients}


# ------------------------------------------------------------------------------------------------ oracle: allocator
def _names(tasks):
    return sorted(t.name for t in tasks)


def _check_allocator(case, obs):
    spec = case["schedule"]
    m = S.model(spec)
    schedule = S.build_schedule(spec)
    # identity map: real object -> model entry (for what the element / task requests)
    by_id = {}
    for el in m:
        by_id[id(S.object_at(schedule, el["path"]))] = el
        if el["kind"] == "parallel":
            for t in el["tasks"]:
                by_id[id(S.object_at(schedule, t["path"]))] = t
    flt = case.get("filter")
    expected_empty = False
    if flt:
        obs.cls("filtered", f"filter:{flt['mode']}")
        emptied = S.parallels_emptied_by(m, flt["mode"], flt["filters"])
        if emptied:
            obs.cls("filter-emptied-parallel")
        expected_empty = bool(emptied) and flt["mode"] == "exclude"
        schedule = S.apply_real_filter(schedule, flt["mode"], flt["filters"]).challenges[0].schedule
        if not schedule:
            obs.cls("filter-emptied-schedule")

    # what each element of the schedule handed to the allocator requests
    elements = []  # (tasks, element clients, completing task objects, any-completes task objects)
    has_empty = False
    schedule_nt = bool(flt and emptied)
    for el in schedule:
        if isinstance(el, track.Parallel):
            tasks = list(el.tasks)
            me = by_id.get(id(el))
            cap = me["clients_cap"] if me is not None else el._clients  # pylint: disable=protected-access
            total = sum(t.clients for t in tasks)
            clients = cap if cap is not None else total
            if not tasks:
                has_empty = True
            if cap is not None and cap < total:
                obs.cls("parallel:cap-below-sum")
                schedule_nt = True
            elif cap is not None and cap > total:
                obs.cls("parallel:cap-above-sum")
                schedule_nt = True
            elif cap is not None:
                obs.cls("parallel:cap-equal-sum")
            obs.cls("parallel")
        else:
            tasks, clients = [el], el.clients
        completing = [t for t in tasks if t.completes_parent]
        any_completing = [t for t in tasks if t.any_completes_parent and not t.completes_parent]
        if completing:
            obs.cls("completed-by:task")
        if any_completing:
            obs.cls("completed-by:any")
        elements.append((tasks, clients, completing, any_completing))

    allocator = driver.Allocator(schedule)
    n = allocator.clients
    allocs = allocator.allocations
    join_points = allocator.join_points
    per_jp = allocator.tasks_per_joinpoint

    # ---- rows
    # upper bound: the largest element (its cap, else the sum of its tasks' clients); lower bound: what the largest element needs so that
    # every task gets its own clients as far as a cap allows
    upper = max([1] + [c for _, c, _, _ in elements])
    lower = max([1] + [min(c, sum(t.clients for t in tasks)) for tasks, c, _, _ in elements])
    obs.check(lower <= n <= upper, "matrix/rows", f"Allocator.clients={n}, the largest element needs between {lower} and {upper} clients")
    if not obs.check(len(allocs) == n and n >= 1, "matrix/rows", f"{len(allocs)} rows for Allocator.clients={n}"):
        return schedule_nt
    if any(sum(t.clients for t in tasks) > n for tasks, _, _, _ in elements):
        obs.cls("wrap-around")
    # ---- rectangular
    width = len(allocs[0])
    if not obs.check(all(len(r) == width for r in allocs), "matrix/ragged", f"row lengths {[len(r) for r in allocs]}"):
        return schedule_nt
    # ---- join points aligned, consecutive ids, one more than elements
    jp_cols = [c for c in range(width) if isinstance(allocs[0][c], driver.JoinPoint)]
    for r, row in enumerate(allocs):
        cols = [c for c in range(width) if isinstance(row[c], driver.JoinPoint)]
        if not obs.check(cols == jp_cols, "joinpoints/misaligned", f"row {r} has join points in columns {cols}, row 0 in {jp_cols}"):
            return schedule_nt
        obs.check(
            all(row[c].id == allocs[0][c].id for c in cols), "joinpoints/misaligned", lambda r=r: f"row {r} holds different join points than row 0"
        )
    ids = [allocs[0][c].id for c in jp_cols]
    obs.check(ids == list(range(len(ids))), "joinpoints/ids", f"join point ids {ids}")
    obs.check([j.id for j in join_points] == ids, "joinpoints/ids", "Allocator.join_points differs from the join points of row 0")
    if not obs.check(
        len(jp_cols) == len(elements) + 1 and jp_cols and jp_cols[0] == 0 and jp_cols[-1] == width - 1,
        "joinpoints/count",
        f"{len(jp_cols)} join points in columns {jp_cols} (width {width}) for {len(elements)} schedule elements",
    ):
        return schedule_nt

    # ---- per element: exactly-once allocations between its two join points
    for k, (tasks, clients, completing, any_completing) in enumerate(elements):
        lo, hi = jp_cols[k], jp_cols[k + 1]
        got = []
        rows_of = {}
        for r in range(n):
            for c in range(lo + 1, hi):
                a = allocs[r][c]
                if a is None:
                    continue
                if not obs.check(isinstance(a, driver.TaskAllocation), "element/allocations", f"element {k}: unexpected entry {a!r}"):
                    continue
                got.append((id(a.task), a.client_index_in_task))
                rows_of.setdefault(id(a.task), set()).add(r)
                obs.check(
                    a.total_clients == clients,
                    "element/total-clients",
                    lambda a=a: f"element {k}: total_clients={a.total_clients} on {a!r}, the element has {clients} clients",
                )
        want = [(id(t), i) for t in tasks for i in range(t.clients)]
        obs.check(
            sorted(got) == sorted(want),
            "element/allocations",
            lambda: f"element {k} ({_names(tasks)} with clients {[t.clients for t in tasks]}): allocated (task, client index) pairs "
            f"{sorted((next((t.name for t in tasks if id(t) == i), '?'), j) for i, j in got)}",
        )
        for t in tasks:
            # as many clients as it requests (all of them when the element is over-committed)
            obs.check(
                len(rows_of.get(id(t), ())) == min(t.clients, n),
                "element/distinct-clients",
                lambda t=t: f"element {k}: task {t.name} requests {t.clients} clients and runs on clients {sorted(rows_of.get(id(t), ()))} of {n}",
            )
        jp = allocs[0][hi]
        want_completing = set().union(*[rows_of.get(id(t), set()) for t in completing]) if completing else set()
        want_any = set().union(*[rows_of.get(id(t), set()) for t in any_completing]) if any_completing else set()
        obs.check(
            set(jp.clients_executing_completing_task) == want_completing,
            "completing-clients",
            lambda: f"element {k}: clients_executing_completing_task={jp.clients_executing_completing_task}, rows holding the completing task: {sorted(want_completing)}",
        )
        obs.check(
            set(jp.any_task_completes_parent) == want_any,
            "completing-clients",
            lambda: f"element {k}: any_task_completes_parent={jp.any_task_completes_parent}, rows holding such tasks: {sorted(want_any)}",
        )

    # ---- one progress entry per step (what Driver.update_progress_message indexes with current_step)
    steps = len(join_points) - 1
    if has_empty and expected_empty:
        sig_len = sig_set = KNOWN_EMPTY
    elif has_empty:
        sig_len = sig_set = "steps/empty-parallel-unexpected"
    else:
        sig_len, sig_set = "steps/progress-entries", "steps/task-set"
    if obs.check(
        len(per_jp) == steps,
        sig_len,
        f"the race walks through {steps} steps but tasks_per_joinpoint has {len(per_jp)} entries "
        f"(elements: {[_names(t) for t, _, _, _ in elements]}) - Driver.update_progress_message indexes it with the step number",
    ):
        for k, (tasks, _, _, _) in enumerate(elements):
            obs.check(
                sorted(id(t) for t in per_jp[k]) == sorted(id(t) for t in tasks),
                sig_set,
                lambda: f"step {k}: progress entry {_names(per_jp[k])}, element holds {_names(tasks)}",
            )
    # the partition used for this very schedule
    _check_layout(case["cores"], n, obs)
    return schedule_nt


# ------------------------------------------------------------------------------------------------ oracle: layout
def _check_layout(cores, clients, obs):
    hosts = [{"host": f"h{i}", "cores": c} for i, c in enumerate(cores)]
    res = driver.calculate_worker_assignments(hosts, clients)
    obs.check([a["host"] for a in res] == [h["host"] for h in hosts], "layout/hosts", lambda: f"hosts {[a['host'] for a in res]}")
    flat = [c for a in res for w in a["workers"] for c in w]
    if sorted(flat) != list(range(clients)):
        obs.violation("layout/partition", f"cores={cores} clients={clients}: assigned client ids {flat}")
    elif flat != list(range(clients)) or any(w != list(range(w[0], w[0] + len(w))) for a in res for w in a["workers"] if w):
        obs.violation("layout/not-contiguous", f"cores={cores} clients={clients}: {[a['workers'] for a in res]}")
    for a, h in zip(res, hosts):
        busy = [w for w in a["workers"] if w]
        obs.check(len(busy) <= h["cores"], "layout/workers-per-core", lambda: f"{len(busy)} workers on {h['cores']} cores: {a['workers']}")
        loads = [len(w) for w in a["workers"]]
        if loads:
            obs.check(max(loads) - min(loads) <= 1, "layout/imbalance", lambda: f"cores={cores} clients={clients}: loads on {h['host']}: {loads}")
    uneven = clients % sum(cores) != 0
    if uneven:
        obs.cls("layout:uneven")
    if len(cores) > 1:
        obs.cls("layout:multi-host")
    return uneven


def run_case(case, obs):
    layout_nt = _check_layout(case["cores"], case["clients"], obs)
    if case.get("schedule") is None:
        obs.cls("layout-only")
        obs.mark_nontrivial(layout_nt)
        return
    schedule_nt = _check_allocator(case, obs)
    if schedule_nt:
        obs.cls("schedule-nontrivial")
    obs.mark_nontrivial(schedule_nt)


def _leaf(name, typ="bulk", **kw):
    d = {"name": name, "operation": {"name": f"op-{name}", "type": typ, "params": {}, "style": "inline"}}
    d.update(kw)
    return d


PROBES = {
    # F3: --exclude-tasks naming every task of a parallel element leaves Parallel([]) in the schedule
    KNOWN_EMPTY: {
        "schedule": [{"tasks": [_leaf("a"), _leaf("b", clients=2)]}, _leaf("c", typ="search")],
        "filter": {"mode": "exclude", "filters": ["a", "b"]},
        "cores": [2],
        "clients": 3,
    }
}
