"""
C01 - The schedule runs step by step on all clients under any message timing.

Engine E1: the real DriverActor / Driver / TrackPreparationActor / TaskExecutionActor / Worker / AsyncIoAdapter / AsyncExecutor run a
whole generated race on the virtual-time actor simulator (sim.race). Message delays, wake-up lateness, per-worker clock offsets,
service times and the host/core layout are generated values.
Oracle: invariants over the request log of the simulated cluster, race control's inbox and the driver->worker message log.
"""
import json

from gen import races as gen_races
from sim import race as sim_race

ID = "C01"
LEVEL = "exploration"
ENGINE = "E1 virtual-time actor simulator + Hypothesis"
TECHNIQUE = "property-based testing on a deterministic actor/asyncio simulator: generated schedules x layouts x message delays, history invariants as oracle"
RULE = (
    "Generated: schedules of 1-4 elements (leaf tasks or parallel elements with 1-3 tasks, optional clients cap below/above the sum, "
    "completed-by a task or 'any' with long-running partner tasks; iteration- and time-based tasks, 1-4 clients, a few throttled; "
    "templates: two consecutive completed-by elements, and a parallel element with ramp-up whose tasks run until their finite parameter source is exhausted, and an over-committed completed-by element with 3 or 5 one-client tasks on 2 clients - in a flavour with a slow JoinPointReached so that the request to complete reaches a worker that is idle with a task of the element still queued), "
    "1-3 load-driver hosts x 1-4 cores, test mode on/off, per-worker perf_counter offsets, per-message delays from "
    "{0, 1/1024, 0.25, 0.3125, 2, 7} s (cycled list, FIFO per sender/receiver pair kept), wake-up lateness, 0-3 track preparation tasks. "
    "Non-trivial = >= 2 workers and (a completed-by broadcast was actually sent, or an over-committed element, or >= 3 elements) and at "
    "least one message delayed by >= 2 s. Distinct = distinct canonical JSON."
)
ASSUMPTIONS = [
    "Thespian semantics as rendered in sim/actors.py (FIFO per pair, retry once then poison, exit propagation), written from thespian/system/actorManager.py",
    "one executor thread per worker is modelled as asyncio tasks on the shared virtual loop; thread pre-emption inside a handler is not explored",
    "all load-driver hosts have the coordinator's core count (Rally assumes the same)",
    "bounded message delay (<= 7 s) and wake-up lateness (<= 0.125 s)",
]
BUDGET = {"quick": 1000, "thorough": 6000}
REQUIRED_CLASSES = {"multi-worker": 200, "completed-by-broadcast": 50, "delay>=2s": 150, "over-committed": 50}
TOL = 1e-5  # timedelta arithmetic inside Rally rounds to microseconds


def strategy(tier, known):
    return gen_races.race_case(allow_overcommit=True, avoid_named_wrap=KNOWN_QUEUED in known)


KNOWN_QUEUED = "request-count/named-task-client-queued-behind-itself"


def named_task_wraps(case):
    """over-committed parallel element whose completed-by task has clients queued in a later column than its first client"""
    for el in case["schedule"]:
        if gen_races.over_committed(el) and el.get("completed_by") not in (None, "any"):
            start = 0
            for leaf in el["parallel"]:
                if leaf["name"] == el["completed_by"] and (start // el["clients"]) != ((start + leaf["clients"] - 1) // el["clients"]):
                    return True
                start += leaf["clients"]
    return False


def is_excluded(case, known):
    return KNOWN_QUEUED in known and "schedule" in case and named_task_wraps(case)


def element_of(case):
    m = {}
    for i, leaf in sim_race.leaves(case["schedule"]):
        m[leaf["name"]] = (i, leaf)
    return m


def full_count(leaf):
    if leaf["mode"] == "iterations":
        return (leaf.get("warmup_iterations") or 0) + leaf["iterations"]
    if leaf.get("source_size") is not None and leaf.get("time_period") is None:
        return leaf["source_size"]  # warm-up period only: runs until its (finite) parameter source is exhausted, like bulk indexing
    return None


def check_race(case, r, obs, expect_success=True):
    """the C01 clauses; shared with C09 (success path) and C11"""
    by_name = element_of(case)
    schedule = case["schedule"]
    inbox_types = [type(m).__name__ for _, m, _ in r.inbox]
    # ---- 5 progress
    if r.blocking:
        obs.violation("blocking-call", r.blocking)
        return False
    if r.horizon_exceeded:
        obs.violation("never-finishes", f"race still running at virtual time {r.t_end:.1f}s (horizon)")
        return False
    if not r.state["complete"]:
        if r.state["failed"]:
            fails = [m for _, m, _ in r.inbox if type(m).__name__ == "BenchmarkFailure"]
            obs.violation("unexpected-failure", f"race failed: {str(fails[0].message)[-600:]} {str(fails[0].cause)[-300:]}")
        else:
            obs.violation("deadlock", f"simulation quiescent at {r.t_end:.3f}s before BenchmarkComplete; inbox {inbox_types}")
        return False
    # ---- 4 completion
    obs.check(inbox_types.count("BenchmarkComplete") == 1, "complete-count", f"inbox {inbox_types}")
    obs.check("BenchmarkFailure" not in inbox_types, "failure-reported", f"inbox {inbox_types}")
    steps = len([el for el in schedule if ("parallel" not in el) or len(el["parallel"]) > 0])
    # one TaskFinished per join point that is not the last one (the initial join point included)
    obs.check(inbox_types.count("TaskFinished") == steps, "task-finished-count", f"{inbox_types.count('TaskFinished')} TaskFinished for {steps} steps")
    obs.check(inbox_types.count("PreparationComplete") == 1, "preparation-complete-count", f"inbox {inbox_types}")
    if inbox_types:
        obs.check(inbox_types[-1] == "BenchmarkComplete", "message-after-complete", f"inbox {inbox_types}")
    t_complete = r.state["t_complete"]
    if r.requests:
        last_end = max(q.get("t_exit", q["t_enter"]) for q in r.requests)
        obs.check(t_complete >= last_end - TOL, "complete-before-last-request", f"BenchmarkComplete at {t_complete}, last request ended {last_end}")
        obs.check(all("t_exit" in q for q in r.requests), "request-in-flight-at-end", "a request never finished")
    # ---- 1 step order
    per_element = {}
    for q in r.requests:
        i, _ = by_name[q["task"]]
        lo, hi = per_element.get(i, (float("inf"), float("-inf")))
        per_element[i] = (min(lo, q["t_enter"]), max(hi, q.get("t_exit", q["t_enter"])))
    idx = sorted(per_element)
    for a, b in zip(idx, idx[1:]):
        obs.check(
            per_element[b][0] >= per_element[a][1] - TOL,
            "step-order",
            f"element {b} issued a request at {per_element[b][0]:.4f} before element {a} finished at {per_element[a][1]:.4f}",
        )
    # ---- 2 exactly once
    groups = {}
    for q in r.requests:
        groups.setdefault((q["task"], q["client"]), []).append(q)
    for (task, client), qs in sorted(groups.items()):
        i, leaf = by_name[task]
        ordinals = [q["ordinal"] for q in qs]
        obs.check(ordinals == list(range(len(qs))), "task-run-twice", f"task {task} client {client}: request ordinals {ordinals[:12]}")
        obs.check(len({q["proc"] for q in qs}) == 1 and len({q["es_client_id"] for q in qs}) == 1, "task-split-across-clients", f"task {task} client {client} ran on {sorted({(q['proc'], q['es_client_id']) for q in qs})}")
        obs.check(0 <= client < leaf["clients"], "unknown-client-index", f"task {task}: client index {client} of {leaf['clients']}")
    for el_i, el in enumerate(schedule):
        tasks = el["parallel"] if "parallel" in el else [el]
        cb = el.get("completed_by") if "parallel" in el else None
        for leaf in tasks:
            want = full_count(leaf)
            cut_allowed = cb is not None and cb != leaf["name"]
            for ci in range(leaf["clients"]):
                n = len(groups.get((leaf["name"], ci), []))
                if cut_allowed:
                    if want is not None:
                        obs.check(n <= want, "too-many-requests", f"task {leaf['name']} client {ci}: {n} > {want}")
                    continue
                if want is not None:
                    sig = "request-count"
                    if cb == leaf["name"] and n == 0 and named_task_wraps(case):
                        sig = KNOWN_QUEUED
                    obs.check(
                        n == want,
                        sig,
                        f"element {el_i} task {leaf['name']} client {ci}: {n} requests, spec says {want} (completed-by of the element: {cb})",
                    )
                else:
                    sig = "time-based-task-not-run"
                    if cb == leaf["name"] and named_task_wraps(case):
                        sig = KNOWN_QUEUED
                    obs.check(n >= 1, sig, f"element {el_i} task {leaf['name']} client {ci} issued no request")
                    if n >= 1:
                        # a time-based task that is not cut short by completed-by runs until its warm-up + time period has elapsed
                        qs = groups[(leaf["name"], ci)]
                        due = qs[0]["t_enter"] + (leaf.get("warmup_time_period") or 0) + leaf["time_period"]
                        obs.check(
                            qs[-1]["t_exit"] >= due - TOL,
                            "time-based-task-stopped-early",
                            f"element {el_i} task {leaf['name']} client {ci}: last request ended at {qs[-1]['t_exit']:.4f}, its period ends at {due:.4f}",
                        )
        if cb == "any":
            # the first finisher runs its full specification: at least one client of the element completed all its iterations
            finished = False
            for leaf in tasks:
                want = full_count(leaf)
                for ci in range(leaf["clients"]):
                    n = len(groups.get((leaf["name"], ci), []))
                    if (want is not None and n == want) or (want is None and n >= 1):
                        finished = True
            obs.check(finished, "any-nobody-finished", f"element {el_i}: no client ran its full specification")
    # ---- 3 completed-by bound
    wake = 0.5 if case.get("test_mode") else 5.0
    max_delay = max(sim_race.DELAYS[d % len(sim_race.DELAYS)] for d in list(case["delays"]) + list((case.get("delay_overrides") or {}).values()))
    broadcast = any(m[4] == "CompleteCurrentTask" for m in r.rt.message_log)
    for el_i, el in enumerate(schedule):
        if "parallel" not in el or not el.get("completed_by"):
            continue
        tasks = el["parallel"]
        longest = max(sum(g + s for g, s in q["wire"]) + q["pre"] + q["post"] for leaf in tasks for q in leaf["requests"])
        cb = el["completed_by"]
        ends = {}
        for q in r.requests:
            if by_name[q["task"]][0] == el_i:
                ends.setdefault(q["task"], []).append(q)
        if cb == "any":
            # T* = the first instant at which some client had run its full specification
            t_star = None
            for leaf in tasks:
                want = full_count(leaf)
                for ci in range(leaf["clients"]):
                    qs = groups.get((leaf["name"], ci), [])
                    if not qs:
                        continue
                    # a client has finished when it has run all its iterations, or when its time period has elapsed
                    done = (want is not None and len(qs) == want) or (
                        want is None and qs[-1]["t_exit"] >= qs[0]["t_enter"] + (leaf.get("warmup_time_period") or 0) + leaf["time_period"] - 1e-6
                    )
                    if done:
                        t = qs[-1]["t_exit"]
                        t_star = t if t_star is None else min(t_star, t)
            if t_star is None:
                continue
            others = [q for t, qs in ends.items() for q in qs]
        else:
            if cb not in ends:
                continue
            t_star = max(q["t_exit"] for q in ends[cb])
            others = [q for t, qs in ends.items() if t != cb for q in qs]
        # ... and not before: a task of the element that was cut short must still have been running when the first client of the
        # completing task (for 'any': the first client to run its full specification) had finished
        if cb == "any":
            t_first = t_star
        else:
            per_client = {}
            for q in ends[cb]:
                per_client[q["client"]] = max(per_client.get(q["client"], 0.0), q["t_exit"])
            t_first = min(per_client.values())
        for leaf in tasks:
            if leaf["name"] == cb:
                continue
            want = full_count(leaf)
            for ci in range(leaf["clients"]):
                qs = groups.get((leaf["name"], ci), [])
                if not qs:
                    continue
                cut = (want is not None and len(qs) < want) or (
                    want is None and qs[-1]["t_exit"] < qs[0]["t_enter"] + (leaf.get("warmup_time_period") or 0) + leaf["time_period"] - 1e-6
                )
                if cb == "any" and want is not None and len(qs) == want:
                    cut = False
                obs.check(
                    not cut or qs[-1]["t_exit"] >= t_first - 1e-6,
                    "completed-by-too-early",
                    f"element {el_i} completed-by {cb}: task {leaf['name']} client {ci} was cut short at {qs[-1]['t_exit']:.3f} after {len(qs)} requests, "
                    f"but the completing task's first client only finished at {t_first:.3f}",
                )
        pre = max([sim_race.PREEMPT[i % len(sim_race.PREEMPT)] for i in (case.get("preempt") or [0])])
        bound = t_star + 2 * (wake + 0.125) + 2 * max_delay + 2 * longest + 2.0 + 40 * pre
        late = [q for q in others if q["t_enter"] > bound]
        obs.check(
            not late,
            "completed-by-ignored",
            lambda: f"element {el_i} completed-by {cb}: completing task ended at {t_star:.3f}, but {late[0]['task']} still issued a request at {late[0]['t_enter']:.3f} (bound {bound:.3f})",
        )
    # ---- CompleteCurrentTask at most once per step per worker
    counts = {}
    step = 0
    for _t, _sender, target, tname in r.rt.send_log:  # sending order
        if tname == "TaskFinished":
            step += 1
        elif tname == "CompleteCurrentTask":
            counts[(target, step)] = counts.get((target, step), 0) + 1
    obs.check(all(v == 1 for v in counts.values()), "complete-current-task-repeated", f"{counts}")
    # ---- a worker that has been told to complete the element does not start another task of it (over-committed elements: a worker may
    # have further tasks of the element queued behind the ones it is running; they are skipped up to the join point)
    nonempty = [i for i, el in enumerate(schedule) if ("parallel" not in el) or len(el["parallel"]) > 0]
    delivered_at = {}
    for t_sent, t_del, _sender, target, tname in r.rt.message_log:
        if tname == "CompleteCurrentTask" and t_del is not None:
            delivered_at.setdefault((t_sent, target), t_del)
    step = 0
    for t_sent, _sender, target, tname in r.rt.send_log:
        if tname == "TaskFinished":
            step += 1
        elif tname == "CompleteCurrentTask" and (t_sent, target) in delivered_at and 1 <= step <= len(nonempty):
            el_i = nonempty[step - 1]
            t_del = delivered_at[(t_sent, target)]
            for (task, client), qs in sorted(groups.items()):
                if by_name[task][0] == el_i and qs[0]["proc"] == target:
                    first = min(q["t_enter"] for q in qs)
                    leaf = by_name[task][1]
                    if leaf.get("ramp_up"):
                        # a ramped-up client is started with its task and issues its first request after its ramp-up wait
                        if schedule[el_i].get("clients") is not None:
                            continue
                        first -= leaf["ramp_up"] * qs[0]["es_client_id"] / sum(m["clients"] for m in schedule[el_i]["parallel"])
                    obs.check(
                        first <= t_del + TOL,
                        "task-started-after-completion",
                        f"element {el_i}: worker {target} was told to complete the element at {t_del:.4f} but started task {task} client {client} at {first:.4f}",
                    )
    # ---- classes
    n_workers = len(r.rt.instances(__import__("esrally.driver.driver", fromlist=["Worker"]).Worker))
    if n_workers >= 2:
        obs.cls("multi-worker")
    if broadcast:
        obs.cls("completed-by-broadcast")
    if any(leaf.get("ramp_up") for _, leaf in sim_race.leaves(schedule)):
        obs.cls("ramp-up-element")
    if any(gen_races.over_committed(el) for el in schedule):
        obs.cls("over-committed")
    if max_delay >= 2:
        obs.cls("delay>=2s")
    if len(case["hosts"]) > 1:
        obs.cls("multi-host")
    if any(leaf["mode"] == "time" for _, leaf in sim_race.leaves(schedule)):
        obs.cls("time-based")
    obs.mark_nontrivial(
        n_workers >= 2 and (broadcast or any(gen_races.over_committed(el) for el in schedule) or len(schedule) >= 3) and max_delay >= 2
    )
    return True


def run_case(case, obs):
    if case.get("selftest") == "thespian-semantics":
        # replay tier: the actor runtime of the simulator against Thespian's own simpleSystemBase (trusted-base check, not a property)
        from sim import selftest
        from vlib import core

        ok, detail = selftest.compare()
        if not ok:
            raise core.HarnessError(f"the simulated actor runtime and Thespian disagree on the ping/pong/poison/exit scenario: {detail}")
        obs.cls("selftest-thespian-semantics")
        return
    r = sim_race.run_race(case)
    check_race(case, r, obs)


_REQ = [{"pre": 0, "wire": [[0, 0.25]], "post": 0, "outcome": "ok", "shape": "dict", "weight": 1, "unit": "ops"}]
_FAST = [{"pre": 0, "wire": [[0, 1 / 256]], "post": 0, "outcome": "ok", "shape": "dict", "weight": 1, "unit": "ops"}]


def _leaf(name, iterations, clients=1, requests=None, **kw):
    d = {"name": name, "clients": clients, "mode": "iterations", "warmup_iterations": None, "iterations": iterations,
         "requests": requests or _REQ, "stride": 1}
    d.update(kw)
    return d


def _race(schedule, **kw):
    d = {"schedule": schedule, "hosts": [1], "test_mode": False, "offsets": [0.0], "delays": [0], "wake_late": [0], "prep_tasks": [],
         "seed": 0, "quiet": True}
    d.update(kw)
    return d


PROBES = {
    # F6 (fixed): over-committed parallel element with completed-by: the worker skipped the queued task and never moved on
    "never-finishes": _race(
        [{"parallel": [_leaf("e0t0", 2), _leaf("e0t1", 60), _leaf("e0t2", 60)], "clients": 2, "completed_by": "e0t0"}, _leaf("e1", 1)]
    ),
    # F15 (fixed): CompleteCurrentTask delivered between Drive and the wake-up of a worker was ignored
    "completed-by-ignored": json.loads('{"delays": [0, 0, 0, 0, 0, 0, 0, 6], "hosts": [1, 1, 1], "offsets": [0.0], "prep_tasks": [], "quiet": true, "schedule": [{"clients": 1, "mode": "time", "name": "e0", "requests": [{"outcome": "ok", "post": 0, "pre": 0, "shape": "dict", "unit": "ops", "weight": 1, "wire": [[0, 0.125]]}], "stride": 1, "throughput": {"kind": "number", "unit": "ops/s", "value": 1}, "time_period": 1, "warmup_time_period": null}, {"clients": 3, "completed_by": "e1t1", "parallel": [{"clients": 1, "iterations": 60, "mode": "iterations", "name": "e1t0", "requests": [{"outcome": "ok", "post": 0, "pre": 0, "shape": "dict", "unit": "ops", "weight": 1, "wire": [[0, 0.25]]}], "stride": 1, "warmup_iterations": null}, {"clients": 1, "iterations": 1, "mode": "iterations", "name": "e1t1", "requests": [{"outcome": "ok", "post": 0, "pre": 0, "shape": "dict", "unit": "ops", "weight": 1, "wire": [[0, 0.00390625]]}], "stride": 1, "warmup_iterations": null}, {"clients": 1, "iterations": 60, "mode": "iterations", "name": "e1t2", "requests": [{"outcome": "ok", "post": 0, "pre": 0, "shape": "dict", "unit": "ops", "weight": 1, "wire": [[0, 0.25]]}], "stride": 1, "warmup_iterations": null}]}, {"clients": 1, "completed_by": "e2t0", "parallel": [{"clients": 1, "mode": "time", "name": "e2t0", "requests": [{"outcome": "ok", "post": 0, "pre": 0, "shape": "dict", "unit": "ops", "weight": 1, "wire": [[0, 0.125]]}], "stride": 1, "throughput": {"kind": "number", "unit": "ops/s", "value": 1}, "time_period": 1, "warmup_time_period": null}]}], "seed": 0, "test_mode": true, "wake_late": [0]}'),
    # F16 (fixed): completed-by any triggered by a worker that has no task in the element
    "any-nobody-finished": _race(
        [_leaf("e0", 1, clients=2, requests=_FAST), {"parallel": [_leaf("e1t0", 3)], "clients": 1, "completed_by": "any"}], hosts=[2]
    ),
    # known: the completed-by task's own second client is queued behind its first one (clients cap 1) and gets skipped
    KNOWN_QUEUED: _race([{"parallel": [_leaf("e0t0", 2, clients=2)], "clients": 1, "completed_by": "e0t0"}]),
}
