"""
C14 - Corpus preparation ends with complete, verified data or an explicit error.

Real code: esrally.track.loader.DefaultTrackPreparator.prepare_docs -> DocumentSetPreparator (prepare_document_set /
prepare_bundled_document_set, create_file_offset_table) with the real Downloader / Decompressor, esrally.utils.net.download*,
esrally.utils.io.decompress / prepare_file_offset_table / skip_lines, on real files in a per-case temporary directory,
against a loopback HTTP server that plays a fault script (lab/httpfault.py); an optional *earlier run* of the same
preparation is executed in a forked child that dies at a drawn crash point (lab/crash.py) or runs to its end.

Oracle (none of it is Rally code): the published content is known to the harness, so after the run under test
  returned  -> the document file the readers will use is byte-identical to the published content (hence has the declared size
               when that is declared correctly), an archive used for decompression in this run has its declared size, an offset
               table exists and io.skip_lines() leaves a binary reader at the byte where n naive line reads end
               (positions computed from the published bytes) for a probe set of n;
  raised    -> fine, any exception is an explicit error (type recorded as a class);
  always    -> the download target (archive, or document file for uncompressed sources), if this run / the crashed earlier
               run changed it, holds a *complete* body that the server sent (never a strict prefix, never empty) and has the
               declared size when one is declared; no <target>.tmp is left after a run that talked to the server and did
               not crash;
  clean     -> with nothing wrong anywhere (right/absent declarations, files missing or correct, first response ok) the
               preparation must succeed (keeps the other clauses from holding vacuously).
"""
from __future__ import annotations

import itertools
import logging
import os
import shutil
import sys
import tempfile
import warnings

from hypothesis import strategies as st

from esrally import config, exceptions, track
from esrally.track import loader
from esrally.utils import console
from esrally.utils import io as rio
from esrally.utils import net
from lab import crash, disk, httpfault
from vlib import core

ID = "C14"
LEVEL = "fault_enumeration"
TECHNIQUE = (
    "stateful fault injection (Hypothesis-generated disk states x HTTP fault scripts x crash points of an earlier run) on real "
    "files with a loopback HTTP server; reference oracle = published bytes + naive line positions; exact enumeration of "
    "offset-table truncations and of all crash points of fixed scenarios"
)
RULE = (
    "Generated: a published corpus (1-60 documents, or 50 000-100 001 lines for the offset-entry class; ASCII / 2-4-byte UTF-8; LF or "
    "CRLF; with/without final newline; with/without action-and-meta-data lines) published as .bz2/.gz/.zst/.zip/.tar.gz/.tgz/.tar.bz2/"
    ".tar or uncompressed; compressed-bytes / uncompressed-bytes declared right, wrong or not at all; document-count right or wrong; "
    "base-url present/absent/with trailing slash; offline; test mode; plain or bundled (track directory first, then cache) path; "
    "initial disk state of document file (missing, correct, truncated, empty, longer), archive (missing, correct, truncated, longer, "
    "corrupted in the middle with its size kept), offset table (missing, correct, stale from another file, truncated at byte k; "
    "older/same/newer mtime than the document file) and a leftover .tmp; a download script of up to 12 outcomes (ok, chunked, 206, "
    "403/404/500/503, short body, reset, chunked body cut mid-chunk, stalled read, wrong content of right length, wrong-size HTML page; eleven "
    "retriable failures in a row ending in any of them); template: leftover offset table next to a document file this run has to decompress again; "
    "optionally an earlier run of the same preparation that is killed after n file-system events (optionally with a torn write) or runs "
    "to its end; external decompressors: as installed (pigz only), plus stand-ins for pbzip2/pzstd, or none at all. Non-trivial = the run under test retried a download (>= 2 requests) or decompressed at least once, AND started from a "
    "non-pristine disk (some initial file present or an earlier run happened). Distinct = distinct canonical JSON. Enumerated "
    "sub-domain: every byte truncation of a complete offset table (2 entries quick, 3 thorough) and every crash point of fixed "
    "scenarios (each format x sizes declared/undeclared)."
)
ASSUMPTIONS = [
    "a crash is process death (os._exit in a forked child at a file-system event boundary, optionally with a torn write that lets a "
    "prefix of the pending data reach the disk - the small-scale picture of buffer-sized flushes on large files); un-synced page cache "
    "loss (power failure) is not modelled",
    "the server always delimits a body by Content-Length or chunked encoding; HTTP only (no S3/GCS)",
    "a pre-existing document file with wrong content that Rally keeps (size undeclared or coincidentally equal) is generated only when "
    "its line count differs from the declared one or it is empty; same-size-same-line-count corruption is outside the statement",
    "wrong content of right length is served / pre-placed only for archive formats whose decompression, the way Rally performs it, "
    "verifies a checksum: .bz2 .gz .zst .zip .tar.bz2 - not plain .tar, not uncompressed sources, and not .tar.gz/.tgz (tarfile.extractall "
    "stops at the end-of-archive marker and never reads the gzip trailer, so the CRC is not verified)",
    "pbzip2 / pzstd are absent: .bz2 / .zst use the library path, or (tools=shims) stand-in scripts on a private PATH that behave like the "
    "real tools (bytes on stdout, non-zero exit on damaged / truncated input); .gz uses pigz with library fallback, or (tools=none) the library",
    "multi-GB corpora are represented by kilobyte stand-ins; the 50 000-line offset entries by 0.6-1.3 MB files",
    "mtimes of pre-existing files lie in the past (document 1 700 000 000, tar members 1 600 000 000), files written by a run are newer",
]
BUDGET = {"quick": 1000, "thorough": 4000}
WALL_BUDGET_S = {"quick": 55, "thorough": 1200}
REQUIRED_CLASSES = {
    "earlier-run:crashed": 20,
    "offset:stale": 20,
    "offset:truncated": 8,
    "returned": 60,
    "download-retry": 20,
    "decompressed": 60,
    "big-corpus": 15,
}

DOC_NAME = "documents.json"
TRACK_NAME = "c14track"
CORPUS_NAME = "c14corpus"
MAX_DECOMPRESSIONS = 4
STALL_READ_TIMEOUT = 0.15
RETRIABLE = ("short", "cut-chunked", "stall")

SIG_EMPTY = "empty-doc-accepted"  # F10
SIG_TORN = "interrupted-offset-table-build-trusted"  # F11 (a)
SIG_STALE = "stale-offset-table-trusted"  # F11 (b)
SIG_PARTIAL = "interrupted-decompression-output-accepted"
SIG_ZST = "truncated-zst-archive-accepted"
# whether these two are hit depends on where the crash injected into the earlier run happened to cut a write: is_excluded (a predicate on the
# initial state) cannot tell, so a hit outside the static region is counted as known instead of being reported as a different violation
INEXACT_REGIONS = (SIG_TORN, SIG_PARTIAL)

_SERVER = None
_URLLIB3_PROXY = None
_BIN = None  # private PATH entries: <_BIN>/shims (pbzip2, pzstd stand-ins), <_BIN>/none (empty: not even pigz)
_ORIG_PATH = os.environ.get("PATH", "")
_KEYS = itertools.count()
_ENUM_EXCLUDED = {"count": 0}


# ------------------------------------------------------------------------------------------------ set-up
class _Urllib3Proxy:
    """stands in for the name `urllib3` inside esrally.utils.net so that the hard-wired 240 s read timeout can be scaled down"""

    def __init__(self, real):
        self._real = real
        self.read_timeout = None

    def __getattr__(self, name):
        return getattr(self._real, name)

    def Timeout(self, connect=None, read=None, **kw):  # noqa: N802
        return self._real.Timeout(connect=connect, read=self.read_timeout if self.read_timeout is not None else read, **kw)


def _no_sleep(_seconds):
    return None


_SHIM = """#!{python}
# stand-in for pbzip2 / pzstd (absent here) so that Rally's external-tool path is exercised for .bz2 / .zst as well:
# <tool> <flags...> -c FILE  ->  decompressed bytes on stdout, exit status != 0 on damaged or truncated input
import os, sys
path = sys.argv[-1]
try:
    if os.path.basename(sys.argv[0]) == "pbzip2":
        import bz2
        d = bz2.BZ2Decompressor()
    else:
        import zstandard
        d = zstandard.ZstdDecompressor().decompressobj()
    with open(path, "rb") as f:
        while True:
            chunk = f.read(1 << 16)
            if not chunk:
                break
            sys.stdout.buffer.write(d.decompress(chunk))
    if not d.eof:
        raise EOFError("premature end of input")
    sys.stdout.buffer.flush()
except Exception as e:
    sys.stderr.write(str(e))
    sys.exit(1)
"""


def _make_shims():
    d = tempfile.mkdtemp(prefix="verif-c14-bin-")
    os.makedirs(os.path.join(d, "shims"))
    os.makedirs(os.path.join(d, "none"))
    for tool in ("pbzip2", "pzstd"):
        p = os.path.join(d, "shims", tool)
        with open(p, "w", encoding="utf-8") as f:
            f.write(_SHIM.format(python=sys.executable))
        os.chmod(p, 0o755)
    return d


def setup():
    global _SERVER, _URLLIB3_PROXY, _BIN
    console.init(quiet=True)
    for name in ("esrally", "urllib3"):
        lg = logging.getLogger(name)
        lg.addHandler(logging.NullHandler())
        lg.propagate = False
    kw = net.download_http.__kwdefaults__
    if not kw or "sleep" not in kw:
        raise core.HarnessError("net.download_http has no keyword default 'sleep' any more: the retry pause cannot be removed")
    kw["sleep"] = _no_sleep
    import urllib3

    if not isinstance(net.urllib3, _Urllib3Proxy):
        _URLLIB3_PROXY = _Urllib3Proxy(urllib3)
        net.urllib3 = _URLLIB3_PROXY
    else:
        _URLLIB3_PROXY = net.urllib3
    for var in ("http_proxy", "HTTP_PROXY", "https_proxy", "HTTPS_PROXY", "all_proxy", "ALL_PROXY"):
        os.environ.pop(var, None)
    net.init()
    _BIN = _make_shims()
    _SERVER = httpfault.FaultServer().start()


def teardown():
    global _SERVER, _BIN
    if _SERVER is not None:
        _SERVER.stop()
        _SERVER = None
    if _BIN is not None:
        shutil.rmtree(_BIN, ignore_errors=True)
        _BIN = None
    os.environ["PATH"] = _ORIG_PATH


def evidence_extra():
    return {"enumerated_cases_in_known_regions_skipped": _ENUM_EXCLUDED["count"]}


# ------------------------------------------------------------------------------------------------ the model of a case
def _published(case):
    d = case["docs"]
    return disk.corpus(d["n"], d["style"], "\r\n" if d["eol"] == "crlf" else "\n", d["trailing"], d["meta"], d["salt"])


def _archive_name(case):
    return None if case["format"] == "plain" else DOC_NAME + case["format"]


def _archive_bytes(case):
    if case["format"] == "plain":
        return None
    return disk.archive(case["format"], DOC_NAME, _published(case))


def _declared(case):
    """(compressed_bytes, uncompressed_bytes, document_count, number_of_lines) as the track declares them"""
    p = _published(case)
    a = _archive_bytes(case)
    dec = case["decl"]

    def size(kind, real):
        if kind == "none" or real is None:
            return None
        if kind == "right":
            return real
        wrong = real + dec["delta"]
        return wrong if wrong >= 1 else real + abs(dec["delta"])

    comp = size(dec["compressed"], len(a) if a is not None else None)
    unc = size(dec["uncompressed"], len(p))
    n_docs = case["docs"]["n"]
    if dec["count"] == "wrong":
        n_docs = n_docs + dec["count_delta"] if n_docs + dec["count_delta"] >= 1 else n_docs + abs(dec["count_delta"])
    lines = n_docs * (2 if case["docs"]["meta"] else 1)
    return comp, unc, n_docs, lines


def _extra_lines(case, k):
    eol = b"\r\n" if case["docs"]["eol"] == "crlf" else b"\n"
    return b"".join(b'{"id":"extra-%d"}' % i + eol for i in range(k))


def _initial_doc(case):
    p = _published(case)
    s = case["disk"]["doc"]
    if s[0] == "missing":
        return None
    if s[0] == "correct":
        return p
    if s[0] == "empty":
        return b""
    if s[0] == "truncated":
        return p[: httpfault.cut(len(p), s[1])]
    if s[0] == "longer":
        tail = b"" if p.endswith(b"\n") or not p else (b"\r\n" if case["docs"]["eol"] == "crlf" else b"\n")
        return p + tail + _extra_lines(case, s[1])
    raise core.HarnessError(f"doc state {s}")


def _initial_archive(case):
    a = _archive_bytes(case)
    s = case["disk"]["archive"]
    if a is None or s[0] == "missing":
        return None
    if s[0] == "correct":
        return a
    if s[0] == "truncated":
        return a[: httpfault.cut(len(a), s[1])]
    if s[0] == "longer":
        return a + b"\0" * s[1]
    if s[0] == "corrupt":
        return httpfault.corrupt(a)
    raise core.HarnessError(f"archive state {s}")


_STALE_TABLE = None


def _stale_table():
    global _STALE_TABLE
    if _STALE_TABLE is None:
        _STALE_TABLE = disk.reference_offset_table(disk.corpus(100010, "ascii", "\n", True, False, 1))
    return _STALE_TABLE


def _initial_offset(case):
    s = case["disk"]["offset"]
    if s[0] == "missing":
        return None
    if s[0] == "correct":
        return disk.reference_offset_table(_published(case))
    if s[0] == "stale":
        return _stale_table()
    if s[0] == "truncated":
        ref = disk.reference_offset_table(_published(case))
        return ref[: min(s[1], len(ref))]
    raise core.HarnessError(f"offset state {s}")


def _table_harmful(table, content):
    """would a reader that trusts `table` be sent to a wrong byte (or fail to parse it) for some n <= number of lines of content?"""
    starts = disk.line_starts(content)
    n_lines = len(starts) - 1
    if n_lines < 1:
        return False
    for raw in table.decode("ascii", "replace").splitlines():
        try:
            ln, off = (int(i) for i in raw.strip().split(";"))
        except ValueError:
            return True
        if ln > n_lines:
            return False
        if off != starts[ln]:
            return True
    return False


def _zst_partial(data):
    """what a streaming zstd decoder has produced when its input ends (reference: zstandard's decompressobj, not Rally's adapter)"""
    import zstandard

    try:
        return zstandard.ZstdDecompressor().decompressobj().decompress(data)
    except zstandard.ZstdError:
        return b""


def _doc_kept(case):
    """the pre-existing document file passes the size check (so neither path replaces it)"""
    d0 = _initial_doc(case)
    if d0 is None:
        return False
    unc = _declared(case)[1]
    return unc is None or len(d0) == unc


def _normalise(case):
    """constructive fix-ups that keep a drawn case inside the input domain (see ASSUMPTIONS)"""
    fmt = case["format"]
    if fmt == "plain":
        case["disk"]["archive"] = ["missing"]
        case["decl"]["compressed"] = "none"
    if case["disk"]["archive"][0] == "corrupt" and fmt not in disk.CHECKSUMMED:
        case["disk"]["archive"] = ["truncated", 700]
    if fmt not in disk.CHECKSUMMED:
        case["script"] = [o if o[0] != "corrupt" else ["short", 512] for o in case["script"]]
    ref = disk.reference_offset_table(_published(case))
    if case["disk"]["offset"][0] == "truncated":
        if len(ref) == 0:
            case["disk"]["offset"] = ["stale"]
        else:
            case["disk"]["offset"] = ["truncated", case["disk"]["offset"][1] % (len(ref) + 1)]
    # a garbage page must be noticeable for an uncompressed source of undeclared size: give it a line count that differs
    lines = _declared(case)[3]
    case["script"] = [o if o[0] != "garbage" else ["garbage", (lines + 1 if fmt == "plain" else 1) + (o[1] % 3)] for o in case["script"]]
    # guard (ii): kept, wrong, non-empty and same line count as declared -> not noticeable by anybody -> declare the size
    d0 = _initial_doc(case)
    if d0 is not None and d0 != _published(case) and len(d0) > 0 and _doc_kept(case) and disk.count_lines(d0) == lines:
        case["decl"]["uncompressed"] = "right"
    return case


def _static_region(case):
    """signature of the known-finding region the *initial* state of a case lies in (or None); mirrors the analysis in DESIGN 5"""
    p = _published(case)
    d0 = _initial_doc(case)
    unc = _declared(case)[1]
    kept = _doc_kept(case)
    t0 = _initial_offset(case)
    if t0 is not None:
        if kept:
            trusted = case["disk"]["offset_age"] in ("same", "newer")
        elif case["format"] in disk.TAR_FAMILY:  # extracted members keep their (old) mtime
            trusted = case["path"] == "prepare" or (d0 is None and case["disk"]["archive"][0] != "missing")
        else:
            trusted = False
        if trusted:
            state = case["disk"]["offset"][0]
            if state == "truncated" and _table_harmful(t0, p):
                return SIG_TORN
            if state == "stale" and _table_harmful(t0, p):
                return SIG_STALE
            if kept and d0 != p:
                return SIG_STALE  # the line-count check is skipped together with the rebuild
    if kept and len(d0) == 0 and unc is None:
        return SIG_EMPTY
    if case["format"] == ".zst" and case["disk"]["archive"][0] == "truncated" and not kept and unc is None and _declared(case)[0] is None:
        # the library path ends silently at the end of a truncated frame; what it produced so far becomes the document file
        partial = _zst_partial(_initial_archive(case))
        if len(partial) == 0:
            return SIG_EMPTY
        if partial != p and disk.count_lines(partial) == _declared(case)[3]:
            return SIG_ZST
    return None


def is_excluded(case, known):
    r = _static_region(case)
    return r is not None and core.signature_matches(r, known)


# ------------------------------------------------------------------------------------------------ generator
_FAULT = st.one_of(
    st.tuples(st.just("short"), st.sampled_from([0, 1, 300, 512, 1000, 1023])),
    st.tuples(st.just("short"), st.integers(0, 1023)),
    st.tuples(st.just("cut-chunked"), st.sampled_from([0, 3, 512, 1023])),
    st.tuples(st.just("reset")),
)
_TERMINAL = st.one_of(
    st.tuples(st.just("status"), st.sampled_from([403, 404, 500, 503])),
    st.tuples(st.just("corrupt")),
    st.tuples(st.just("garbage"), st.integers(0, 2)),
)
_OK = st.sampled_from([["ok"], ["ok"], ["ok"], ["ok-chunked"], ["ok-206"]])


def _weighted(*pairs):
    return st.sampled_from([v for v, w in pairs for _ in range(w)])


@st.composite
def _segment(draw):
    kind = draw(_weighted(("ok", 6), ("retry-ok", 8), ("boundary", 2), ("exhaust", 2), ("status", 4), ("corrupt", 6), ("garbage", 4), ("mixed", 4), ("stall", 2)))
    faults = lambda lo, hi: [list(o) for o in draw(st.lists(_FAULT, min_size=lo, max_size=hi))]  # noqa: E731
    if kind == "ok":
        return [draw(_OK)]
    if kind == "retry-ok":
        return faults(1, 4) + [draw(_OK)]
    if kind == "boundary":  # the 11th attempt is the last one
        n = draw(st.sampled_from([9, 10, 10, 11]))
        f = list(draw(st.sampled_from([("short", 512), ("cut-chunked", 512), ("short", 0)])))
        return [f] * n + [draw(_OK)]
    if kind == "exhaust":
        # eleven retriable failures: ten of one kind, the last (the one that must raise) of any retriable kind - a stalled read included
        return [["short", draw(st.integers(0, 1023))]] * 10 + [draw(st.sampled_from([["short", 512], ["short", 0], ["cut-chunked", 512], ["stall", 512], ["stall", 0]]))]
    if kind == "status":
        return faults(0, 2) + [["status", draw(st.sampled_from([403, 404, 500, 503]))]]
    if kind == "corrupt":
        return faults(0, 1) + [["corrupt"]]
    if kind == "garbage":
        return faults(0, 1) + [["garbage", draw(st.integers(0, 2))]]
    if kind == "stall":
        return [["stall", draw(st.sampled_from([0, 512]))]] + faults(0, 1) + [draw(_OK)]
    return [list(o) for o in draw(st.lists(st.one_of(_FAULT, _FAULT, _TERMINAL, _OK.map(tuple)), max_size=6))]


@st.composite
def _case(draw):
    big = draw(_weighted((False, 4), (True, 1)))
    if big:
        meta = draw(_weighted((False, 3), (True, 1)))
        lines = draw(st.sampled_from([50000, 50001, 50001, 100001]))
        if meta:
            lines = 50002 if lines in (50000, 50001) else 100002
        docs = {"n": lines // 2 if meta else lines, "style": "short", "eol": draw(st.sampled_from(["lf", "lf", "crlf"])),
                "trailing": draw(st.sampled_from([True, True, False])), "meta": meta, "salt": 0}
    else:
        docs = {"n": draw(st.sampled_from([1, 1, 2, 3, 5, 17, 60]) | st.integers(1, 60)), "style": draw(st.sampled_from(["mixed", "mixed", "ascii"])),
                "eol": draw(st.sampled_from(["lf", "lf", "crlf"])), "trailing": draw(st.sampled_from([True, True, False])),
                "meta": draw(_weighted((False, 3), (True, 1))), "salt": draw(st.integers(0, 2))}
    fmt = draw(st.sampled_from(disk.FORMATS + [".bz2", ".gz", "plain", "plain"]))
    decl = {
        "compressed": draw(_weighted(("right", 3), ("none", 4), ("wrong", 1))),
        "uncompressed": draw(_weighted(("right", 3), ("none", 4), ("wrong", 1))),
        "count": draw(_weighted(("right", 8), ("wrong", 1))),
        "delta": draw(st.sampled_from([-7, -1, 1, 9])),
        "count_delta": draw(st.sampled_from([-1, 1, 3])),
    }
    doc = draw(st.sampled_from([["missing"], ["missing"], ["missing"], ["correct"], ["correct"], ["empty"], ["truncated"], ["longer"], ["longer"]]))
    if doc[0] == "truncated":
        doc = ["truncated", draw(st.sampled_from([1, 300, 512, 900, 1023]) | st.integers(1, 1023))]
    elif doc[0] == "longer":
        doc = ["longer", draw(st.integers(1, 3))]
    arch = draw(st.sampled_from([["missing"], ["missing"], ["missing"], ["correct"], ["correct"], ["correct"], ["truncated"], ["longer"], ["corrupt"]]))
    if arch[0] == "truncated":
        arch = ["truncated", draw(st.sampled_from([0, 512, 700, 1023]) | st.integers(0, 1023))]
    elif arch[0] == "longer":
        arch = ["longer", draw(st.integers(1, 9))]
    if big:
        off = draw(_weighted((["missing"], 1), (["correct"], 1), (["stale"], 2), (["truncated"], 5)))
    else:
        off = draw(st.sampled_from([["missing"], ["missing"], ["correct"], ["stale"], ["stale"]]))
    if off[0] == "truncated":
        off = ["truncated", draw(st.integers(0, 40))]
    age = draw(st.sampled_from(["older", "older", "older", "same", "newer"]))
    tmp = draw(st.sampled_from([None, None, None, 0, 400]))
    path = draw(st.sampled_from(["prepare", "prepare", "bundled"]))
    base_url = draw(_weighted(("present", 8), ("trailing-slash", 1), ("absent", 1)))
    offline = draw(_weighted((False, 11), (True, 1)))

    # what the preparation will have to do: fetch, work with local files, or whatever the free draws above give
    plan = draw(_weighted(("download", 5), ("local", 3), ("free", 2)))
    last_crash_point = 11
    if plan == "download":
        offline = False
        if base_url == "absent":
            base_url = "present"
        if path == "bundled":  # a present file of wrong size is an error there, not a reason to fetch
            doc, arch = ["missing"], ["missing"]
        else:
            if doc[0] == "correct":
                doc = ["missing"]
            elif doc[0] != "missing":
                decl["uncompressed"] = "right"  # the size check rejects the file
            if arch[0] in ("correct", "corrupt"):
                arch = ["missing"]
            elif arch[0] != "missing":
                decl["compressed"] = "right"
    elif plan == "local":
        last_crash_point = 2  # only the offset table is written
        if draw(_weighted(("decompress", 2), ("use", 1))) == "decompress":
            last_crash_point = 7
            if fmt == "plain":
                fmt = draw(st.sampled_from(disk.FORMATS))
            arch = draw(_weighted((["correct"], 5), (["corrupt"], 3), (["truncated", 700], 1), (["truncated", 1023], 1), (["longer", 3], 1)))
            if doc[0] == "correct":
                doc = ["missing"]
            elif doc[0] != "missing":
                decl["uncompressed"] = "right"
        elif doc[0] == "missing":
            doc = ["correct"]

    script = draw(_segment())
    mode = draw(_weighted(("single", 4), ("crash", 3), ("complete", 1)))
    earlier = None
    if mode == "crash":
        earlier = {"crash_after": draw(st.integers(0, last_crash_point + (4 if big else 0))), "torn": draw(st.sampled_from([None, None, 1, 300, 700, 1000, 1023]))}
        script = script + draw(_segment())
    elif mode == "complete":
        earlier = {"crash_after": None, "torn": None}
        script = script + draw(_segment())
    case = {
        "docs": docs,
        "format": fmt,
        "decl": decl,
        "base_url": base_url,
        "offline": offline,
        "test_mode": draw(_weighted((False, 5), (True, 1))),
        "path": path,
        "disk": {"doc": doc, "archive": arch, "offset": off, "offset_age": age, "tmp": tmp},
        "script": script[:12],
        "earlier": earlier,
        "probe_lines": sorted(set(draw(st.lists(st.integers(0, 1024), max_size=3)))),
        "tools": draw(_weighted(("default", 5), ("shims", 2), ("none", 2))),
        # 0: prepare_docs for the corpus directly; 1-4: through DefaultTrackPreparator.on_prepare_track for a challenge whose (unnamed,
        # inline) bulk operations name the corpora they read - ours alone, after / beside / before one on another corpus
        "via_challenge": draw(_weighted((0, 4), (1, 1), (2, 2), (3, 1), (4, 1))),
    }
    if big and off[0] in ("stale", "truncated") and draw(st.integers(0, 2)) == 0:
        # template: a leftover offset table next to a document file that this run has to produce again from a good local archive
        case["format"] = fmt if fmt != "plain" else draw(st.sampled_from(disk.FORMATS))
        case["disk"]["archive"] = ["correct"]
        case["disk"]["doc"] = draw(st.sampled_from([["missing"], ["missing"], ["truncated", 512], ["longer", 2]]))
        if case["disk"]["doc"][0] != "missing":
            case["decl"]["uncompressed"] = "right"
        case["earlier"] = None
        case["offline"] = draw(st.booleans())
        case["template"] = "leftover-table-and-fresh-decompression"
    return _normalise(case)


def strategy(tier, known):
    return _case()


# ------------------------------------------------------------------------------------------------ execution
class _Loop(Exception):
    pass


class _CountingDecompressor(loader.Decompressor):
    def __init__(self):
        super().__init__()
        self.calls = 0

    def decompress(self, archive_path, documents_path, uncompressed_size):
        self.calls += 1
        if self.calls > MAX_DECOMPRESSIONS:
            raise _Loop(f"decompress called {self.calls} times in one preparation")
        return super().decompress(archive_path, documents_path, uncompressed_size)


class _Env:
    """directories, declared document set and the callable that runs the preparation once"""

    def __init__(self, case, tmp, key):
        self.case = case
        self.tmp = tmp
        self.key = key
        self.cache_root = os.path.join(tmp, "cache")
        self.corpus_dir = os.path.join(self.cache_root, CORPUS_NAME)
        self.track_dir = os.path.join(tmp, TRACK_NAME)
        os.makedirs(self.corpus_dir)
        self.cfg = config.Config()
        self.cfg.add(config.Scope.application, "benchmarks", "local.dataset.cache", self.cache_root)
        if case["path"] == "bundled":
            os.makedirs(self.track_dir)
            disk.write_file(os.path.join(self.track_dir, "track.json"), b"{}", disk.T_ARCHIVE)
            self.cfg.add(config.Scope.application, "track", "track.path", self.track_dir)
            self.roots = [self.track_dir, self.corpus_dir]
        else:
            self.roots = [self.corpus_dir]
        self.comp, self.unc, self.n_docs, self.lines = _declared(case)
        self.archive_name = _archive_name(case)
        self.target_name = self.archive_name or DOC_NAME  # what a download writes
        self.decompressor = _CountingDecompressor()

    def document_set(self):
        base = {"present": _SERVER.base_url(self.key), "trailing-slash": _SERVER.base_url(self.key) + "/", "absent": None}[self.case["base_url"]]
        return track.Documents(
            source_format=track.Documents.SOURCE_FORMAT_BULK,
            document_file=DOC_NAME,
            document_archive=self.archive_name,
            base_url=base,
            includes_action_and_meta_data=self.case["docs"]["meta"],
            number_of_documents=self.n_docs,
            compressed_size_in_bytes=self.comp,
            uncompressed_size_in_bytes=self.unc,
        )

    def prepare(self):
        docs = self.document_set()
        corpus = track.DocumentCorpus(CORPUS_NAME, documents=[docs])
        via = self.case.get("via_challenge")
        if not via:
            t = track.Track(name=TRACK_NAME, corpora=[corpus])
            prep = loader.DocumentSetPreparator(TRACK_NAME, loader.Downloader(self.case["offline"], self.case["test_mode"]), self.decompressor)
            with warnings.catch_warnings():
                warnings.simplefilter("ignore")
                loader.DefaultTrackPreparator.prepare_docs(self.cfg, t, corpus, prep)
            return
        # The way a race does it: which corpora are prepared follows from the bulk operations of the selected challenge (loader.used_corpora).
        # A second, tiny corpus is complete on disk already; the challenge's bulk operations are written inline without a name (so both
        # are called "bulk", the operation type) and each names the corpus it reads.
        if not docs.includes_action_and_meta_data:
            docs.target_index = "idx"
        other_dir = os.path.join(self.cache_root, "other")
        os.makedirs(other_dir, exist_ok=True)
        other_file = os.path.join(other_dir, "other.json")
        if not os.path.exists(other_file):
            disk.write_file(other_file, b'{"a": 1}\n{"a": 2}\n', disk.T_DOC)
        other = track.DocumentCorpus("other", documents=[track.Documents(
            source_format=track.Documents.SOURCE_FORMAT_BULK, document_file="other.json", number_of_documents=2, uncompressed_size_in_bytes=18, target_index="idx")])

        def bulk(name, corpus_name):
            op = track.Operation("bulk", track.OperationType.Bulk.to_hyphenated_string(), params={"bulk-size": 100, "corpora": [corpus_name]})
            return track.Task(name, op)

        ours, theirs = bulk("index-ours", CORPUS_NAME), bulk("index-other", "other")
        schedule = {1: [ours], 2: [theirs, ours], 3: [track.Parallel([theirs, ours])], 4: [ours, theirs]}[via]
        t = track.Track(name=TRACK_NAME, corpora=[other, corpus], challenges=[track.Challenge("c", default=True, schedule=schedule)])
        tp = loader.DefaultTrackPreparator()
        tp.cfg, tp.downloader, tp.decompressor = self.cfg, loader.Downloader(self.case["offline"], self.case["test_mode"]), self.decompressor
        with warnings.catch_warnings():
            warnings.simplefilter("ignore")
            # as the driver's TrackPreparationActor does: collect all preparation tasks first, hand them out (and run them) afterwards
            tasks = list(tp.on_prepare_track(t, self.cache_root))
            for fn, params in tasks:
                fn(**params)

    def write_initial_state(self):
        case = self.case
        root = self.roots[0]
        d0, a0, t0 = _initial_doc(case), _initial_archive(case), _initial_offset(case)
        if a0 is not None:
            disk.write_file(os.path.join(root, self.archive_name), a0, disk.T_ARCHIVE)
        if d0 is not None:
            disk.write_file(os.path.join(root, DOC_NAME), d0, disk.T_DOC)
        if t0 is not None:
            disk.write_file(os.path.join(root, DOC_NAME + ".offset"), t0, disk.T_DOC + disk.AGE[case["disk"]["offset_age"]])
        if case["disk"]["tmp"] is not None:
            body = _archive_bytes(case) if self.archive_name else _published(case)
            for r in self.roots[-1:]:  # downloads always go to the cache directory
                disk.write_file(os.path.join(r, self.target_name + ".tmp"), body[: httpfault.cut(len(body), case["disk"]["tmp"])], disk.T_ARCHIVE)

    def doc_in_use(self):
        """the file the readers will open: loader.set_absolute_data_path takes the first root in which the name exists"""
        for r in self.roots:
            p = os.path.join(r, DOC_NAME)
            if os.path.exists(p):
                return p
        return None


def _complete_bodies(env):
    body = _archive_bytes(env.case) if env.archive_name else _published(env.case)
    out = {body, httpfault.corrupt(body)}
    for o in env.case["script"]:
        if o[0] == "garbage":
            out.add(httpfault.garbage(o[1]))
    return out


def _check_download_target(env, obs, before, after, when):
    """what the download step put under the final name must be a complete body of the declared size"""
    declared = env.comp if env.archive_name else env.unc
    for r in env.roots:
        p = os.path.join(r, env.target_name)
        if p not in after:
            continue
        if p in before and before[p][2] == after[p][2]:
            continue
        if env.archive_name is None and after[p][2] == _published(env.case):
            continue
        data = after[p][2]
        ok = data in _complete_bodies(env)
        obs.check(
            ok,
            "download/partial-file-under-final-name",
            f"{when}: [{os.path.basename(p)}] was written with {len(data)} bytes which is not a complete body the server sent "
            f"(published body has {len(_archive_bytes(env.case) if env.archive_name else _published(env.case))} bytes)",
        )
        if ok and declared is not None:
            obs.check(
                len(data) == declared,
                "download/wrong-size-under-final-name",
                f"{when}: [{os.path.basename(p)}] was written with {len(data)} bytes although {declared} bytes are declared",
            )


def _probe_lines(case, n_lines):
    ns = {0, 1, 2, n_lines // 2, n_lines - 1, n_lines, 49999, 50000, 50001, 99999, 100000, 100001}
    for f in case["probe_lines"]:
        ns.add((n_lines * f) // 1024)
    return sorted(n for n in ns if 0 <= n <= n_lines)


def _check_offsets(env, obs, doc_path, content, before, after):
    table_path = doc_path + ".offset"
    if not obs.check(table_path in after, "offset-table-missing", "preparation returned but there is no offset table next to the document file"):
        return
    starts = disk.line_starts(content)
    n_lines = len(starts) - 1
    bad = None
    for n in _probe_lines(env.case, n_lines):
        with open(doc_path, "rb") as f:
            try:
                rio.skip_lines(doc_path, f, n)
                got = f.tell()
            except (ValueError, OverflowError, OSError) as e:
                got = f"{type(e).__name__}: {e}"
        if got != starts[n]:
            bad = (n, got, starts[n])
            break
    if bad is None:
        return
    rebuilt = not (table_path in before and before[table_path][1:] == after[table_path][1:])
    table = after[table_path][2]
    msg = (
        f"skip_lines({bad[0]}) leaves the reader at {bad[1]}, reading {bad[0]} lines one by one ends at byte {bad[2]}; "
        f"offset table ({'written by this run' if rebuilt else 'pre-existing, not rebuilt'}): {table[:80]!r}"
    )
    doc_replaced = not (doc_path in before and before[doc_path][1:] == after[doc_path][1:])
    if not _table_harmful(table, content):
        # every entry the table holds is right (a complete table, or a prefix of one: slower, never wrong): the reader mis-used it
        obs.violation("offset-table-misread", msg + " (every entry of the table is correct as far as it goes)")
    elif rebuilt:
        obs.violation("offset-table-wrong", msg)
    elif doc_replaced and env.case["format"] not in disk.TAR_FAMILY:
        # this run wrote the document file (download / decompression) and still trusts a table that was there before: not the known
        # weakness (a table that is not older than an *unchanged* document file); extracted tar members keep their old mtime (known)
        obs.violation("offset-table-survives-new-document", msg + " (the document file was written by this run)")
    elif after[table_path][1] < after[doc_path][1]:
        # older than the data file and still used: not the known "validated by mtime only" weakness
        obs.violation("outdated-offset-table-kept", msg + " (the table is older than the document file)")
    else:
        ref = disk.reference_offset_table(content)
        torn = len(table) < len(ref) and ref.startswith(table)
        obs.violation(SIG_TORN if torn else SIG_STALE, msg)


def run_case(case, obs):
    if _SERVER is None:
        raise core.HarnessError("setup() was not called")
    case = core.jsonable(case)
    published = _published(case)
    has_stall = any(o[0] == "stall" for o in case["script"])
    tmp = tempfile.mkdtemp(prefix="verif-c14-")
    key = f"c{next(_KEYS)}-{os.getpid()}"
    try:
        env = _Env(case, tmp, key)
        env.write_initial_state()
        bodies = {env.target_name: _archive_bytes(case) if env.archive_name else published}
        _SERVER.register(key, bodies, case["script"])
        _URLLIB3_PROXY.read_timeout = STALL_READ_TIMEOUT if has_stall else None
        tools = case.get("tools", "default")
        if tools == "shims":
            os.environ["PATH"] = os.path.join(_BIN, "shims") + os.pathsep + _ORIG_PATH
        elif tools == "none":
            os.environ["PATH"] = os.path.join(_BIN, "none")
        initial = disk.snapshot(tmp)

        # ---------------- earlier run (forked child; killed at a crash point or run to its end)
        earlier = case["earlier"]
        rep = None
        if earlier is not None:
            def reset_pools():
                net.init()

            rep = crash.run_in_child(env.prepare, [tmp], earlier["crash_after"], earlier["torn"], before=reset_pools)
            if rep["status"] == "lost":
                raise core.HarnessError(f"earlier run left no report (exit {rep.get('exit')})")
            obs.cls(f"earlier-run:{rep['status']}")
            if rep["status"] == "crashed":
                kind, name = rep["died_before"]
                phase = "download" if name.endswith(".tmp") or name == env.target_name and kind == "rename" else (
                    "offset-table" if name.endswith(".offset") else ("decompress" if name == DOC_NAME or kind == "run" else "other"))
                obs.cls(f"crash-in:{phase}")
                if earlier["torn"] is not None and kind == "write":
                    obs.cls("crash:torn-write")
            after_earlier = disk.snapshot(tmp)
            _check_download_target(env, obs, initial, after_earlier, f"after the earlier run ({rep['status']})")
            if rep["status"] != "crashed" and len(_SERVER.log(key)) > 0:
                for p in after_earlier:
                    obs.check(not p.endswith(".tmp"), "download/tmp-left-behind",
                              f"[{os.path.basename(p)}] is left after the earlier run talked to the server and {rep['status']}")
        requests_before = len(_SERVER.log(key))

        # ---------------- run under test
        before = disk.snapshot(tmp)
        outcome, exc = "returned", None
        try:
            env.prepare()
        except _Loop as e:
            outcome, exc = "loop", e
        except Exception as e:  # pylint: disable=broad-except
            outcome, exc = "raised", e
        after = disk.snapshot(tmp)
        log = _SERVER.log(key)[requests_before:]

        # ---------------- classes
        obs.cls(f"format:{case['format']}", f"path:{case['path']}", f"tools:{tools}", outcome if outcome != "raised" else f"raised:{type(exc).__name__}")
        if outcome == "raised":
            obs.cls("raised")
        for o in log:
            obs.cls(f"played:{o[0]}")
        retried = len(log) >= 2
        decompressed = env.decompressor.calls >= 1
        non_pristine = any(case["disk"][k][0] != "missing" for k in ("doc", "archive", "offset")) or case["disk"]["tmp"] is not None or earlier is not None
        if retried:
            obs.cls("download-retry")
        if len(log) >= 11:
            obs.cls("download-11th-attempt")
        if decompressed:
            obs.cls("decompressed")
        if non_pristine:
            obs.cls("non-pristine")
        if case["disk"]["offset"][0] in ("stale", "truncated"):
            obs.cls(f"offset:{case['disk']['offset'][0]}")
        if case["disk"]["offset"][0] != "missing":
            obs.cls(f"offset-age:{case['disk']['offset_age']}")
        if case.get("template"):
            obs.cls(f"template:{case['template']}")
        if case.get("via_challenge"):
            obs.cls("through-on_prepare_track")
        for k in ("doc", "archive"):
            obs.cls(f"initial-{k}:{case['disk'][k][0]}")
        if case["disk"]["tmp"] is not None:
            obs.cls("leftover-tmp")
        if len(disk.line_starts(published)) - 1 >= 50000:
            obs.cls("big-corpus")
        for k in ("compressed", "uncompressed"):
            obs.cls(f"decl-{k}:{case['decl'][k]}")
        if case["decl"]["count"] == "wrong":
            obs.cls("decl-count:wrong")
        if case["offline"]:
            obs.cls("offline")
        obs.mark_nontrivial((retried or decompressed) and non_pristine)

        # ---------------- oracle
        if outcome == "loop":
            obs.violation("no-termination/decompress-loop", str(exc))
        _check_download_target(env, obs, before, after, f"after the run under test ({outcome})")
        if len(log) > 0:
            for p in after:
                obs.check(not p.endswith(".tmp"), "download/tmp-left-behind",
                          f"[{os.path.basename(p)}] is left after a run that talked to the server and {outcome}")
        if outcome == "returned":
            doc_path = env.doc_in_use()
            if obs.check(doc_path is not None, "doc-missing", "preparation returned but the document file does not exist"):
                data = after[doc_path][2]
                table_path = doc_path + ".offset"
                table_kept = table_path in before and table_path in after and before[table_path][1:] == after[table_path][1:]
                if data != published:
                    arch_path = os.path.join(os.path.dirname(doc_path), env.archive_name) if env.archive_name else None
                    trusted = table_kept and after[table_path][1] >= after[doc_path][1]
                    if trusted and initial.get(table_path, (None,))[1:] == after[table_path][1:]:
                        sig = SIG_STALE  # a table that was there from the start is trusted, so the line count is never compared
                    elif trusted and _build_interrupted(rep):
                        sig = SIG_TORN  # same, but the table is the unfinished work of the earlier run (killed, or the build raised)
                    elif len(data) == 0 and env.unc is None:
                        sig = SIG_EMPTY
                    elif (case["format"] == ".zst" and arch_path in after and _archive_bytes(case).startswith(after[arch_path][2])
                          and len(after[arch_path][2]) < len(_archive_bytes(case)) and published.startswith(data)):
                        sig = SIG_ZST  # a truncated .zst archive of undeclared size was decompressed without an error
                    elif (env.archive_name and rep is not None and rep["status"] in ("crashed", "raised") and doc_path in before
                          and before[doc_path][2] == data and initial.get(doc_path, (None,))[1:] != before[doc_path][1:]):
                        # the document file is what the killed / failed decompression of the earlier run left under the final name (a prefix
                        # that ends inside the last line, or the unverified output of an external tool) and this run could not tell
                        sig = SIG_PARTIAL
                    else:
                        sig = "doc-content-mismatch"
                    common = os.path.commonprefix([data, published])
                    obs.violation(
                        sig,
                        f"preparation returned but [{os.path.basename(doc_path)}] has {len(data)} bytes / {disk.count_lines(data)} lines, published "
                        f"{len(published)} bytes / {disk.count_lines(published)} lines (declared: {env.unc} bytes, {env.lines} lines); first difference at byte "
                        f"{len(common)}; decompressions in this run: {env.decompressor.calls}; offset table kept: {table_kept}",
                    )
                else:
                    if decompressed and env.comp is not None:
                        arch_path = os.path.join(os.path.dirname(doc_path), env.archive_name)
                        obs.check(
                            arch_path in after and after[arch_path][0] == env.comp,
                            "archive-size",
                            lambda: f"archive used for decompression has {after.get(arch_path, (None,))[0]} bytes, declared {env.comp}",
                        )
                    _check_offsets(env, obs, doc_path, published, before, after)
        # nothing wrong anywhere -> must succeed
        if outcome == "raised" and _clean(case):
            obs.violation("clean-scenario-failed", f"nothing is wrong in this scenario but preparation raised {type(exc).__name__}: {str(exc)[:300]}")
    finally:
        os.environ["PATH"] = _ORIG_PATH
        _URLLIB3_PROXY.read_timeout = None
        _SERVER.unregister(key)
        shutil.rmtree(tmp, ignore_errors=True)


def _build_interrupted(rep):
    """the earlier run was killed, or its offset-table build was aborted by an exception (e.g. UnicodeDecodeError)"""
    if rep is None:
        return False
    return rep["status"] == "crashed" or (rep["status"] == "raised" and "prepare_file_offset_table" in (rep.get("raised_in") or []))


def _clean(case):
    if case["earlier"] is not None or case["offline"] or case["base_url"] == "absent":
        return False
    if case["decl"]["compressed"] == "wrong" or case["decl"]["uncompressed"] == "wrong" or case["decl"]["count"] == "wrong":
        return False
    if case["disk"]["doc"][0] not in ("missing", "correct") or case["disk"]["archive"][0] not in ("missing", "correct"):
        return False
    if _static_region(case) is not None:
        return False
    if any(o[0] == "stall" for o in case["script"]):
        return False  # the scaled-down read timeout is active for the whole case
    return len(case["script"]) >= 1 and case["script"][0][0] in ("ok", "ok-chunked", "ok-206")


# ------------------------------------------------------------------------------------------------ enumerated sub-domains
def _base_case(**kw):
    case = {
        "docs": {"n": 5, "style": "mixed", "eol": "lf", "trailing": True, "meta": False, "salt": 0},
        "format": ".bz2",
        "decl": {"compressed": "right", "uncompressed": "right", "count": "right", "delta": 1, "count_delta": 1},
        "base_url": "present",
        "offline": False,
        "test_mode": False,
        "path": "prepare",
        "disk": {"doc": ["missing"], "archive": ["missing"], "offset": ["missing"], "offset_age": "older", "tmp": None},
        "script": [["ok"]],
        "earlier": None,
        "probe_lines": [],
        "tools": "default",
    }
    for k, v in kw.items():
        if isinstance(v, dict) and isinstance(case.get(k), dict):
            case[k] = dict(case[k], **v)
        else:
            case[k] = v
    return case


def _count_events(case):
    """number of file-system events of a complete earlier run of this scenario (dry run in a child, nothing is kept)"""
    tmp = tempfile.mkdtemp(prefix="verif-c14-dry-")
    key = f"dry{next(_KEYS)}-{os.getpid()}"
    try:
        env = _Env(case, tmp, key)
        env.write_initial_state()
        _SERVER.register(key, {env.target_name: _archive_bytes(case) if env.archive_name else _published(case)}, case["script"])
        rep = crash.run_in_child(env.prepare, [tmp], None, None, before=net.init)
        return len(rep["events"])
    finally:
        _SERVER.unregister(key)
        shutil.rmtree(tmp, ignore_errors=True)


def enumerate_cases(tier):
    known = core.KnownFindings().known_signatures(ID)

    def emit(case):
        if known and is_excluded(case, known):
            _ENUM_EXCLUDED["count"] += 1
            return None
        return case

    # (1) every byte truncation of a complete offset table that is not older than its (correct) document file
    lines = 100001 if tier == "quick" else 150001
    big = {"n": lines, "style": "short", "eol": "lf", "trailing": True, "meta": False, "salt": 0}
    ref = disk.reference_offset_table(disk.corpus(lines, "short", "\n", True, False, 0))
    for k in range(len(ref) + 1):
        c = emit(_base_case(docs=big, format="plain", decl={"compressed": "none", "uncompressed": "none"},
                            disk={"doc": ["correct"], "offset": ["truncated", k], "offset_age": "same"}, script=[]))
        if c is not None:
            yield c
    # (2) every crash point of an earlier run, per format, sizes declared / undeclared; the run under test gets a clean server
    formats = disk.FORMATS + ["plain"]
    torn_variants = [None] if tier == "quick" else [None, 1, 600]
    for fmt in formats:
        for sizes in ("right", "none"):
            scenario = _base_case(format=fmt, decl={"compressed": sizes, "uncompressed": sizes}, script=[["short", 512], ["ok"], ["ok"], ["ok"]],
                                  earlier={"crash_after": None, "torn": None})
            n_events = _count_events(_normalise(core.jsonable(scenario)))
            for n in range(n_events + 1):
                for torn in torn_variants:
                    c = emit(_normalise(_base_case(format=fmt, decl={"compressed": sizes, "uncompressed": sizes},
                                                   script=[["short", 512], ["ok"], ["ok"], ["ok"]], earlier={"crash_after": n, "torn": torn})))
                    if c is not None:
                        yield c


# ------------------------------------------------------------------------------------------------ probes for findings
PROBES = {
    SIG_EMPTY: _base_case(format=".bz2", decl={"compressed": "none", "uncompressed": "none"}, disk={"doc": ["empty"], "archive": ["correct"]}, script=[]),
    # the document file is cut inside a multi-byte character: the first preparation fails with UnicodeDecodeError while it builds the
    # table, the second one finds the (empty) table "up to date", skips build and line count, and returns
    SIG_TORN: _base_case(
        docs={"n": 5, "style": "mixed", "eol": "lf", "trailing": True, "meta": False, "salt": 1}, format="plain",
        decl={"compressed": "none", "uncompressed": "none"}, disk={"doc": ["truncated", 300]}, script=[], earlier={"crash_after": None, "torn": None},
    ),
    SIG_STALE: _base_case(
        docs={"n": 50001, "style": "short", "eol": "lf", "trailing": True, "meta": False, "salt": 0}, format=".tar.bz2",
        decl={"compressed": "right", "uncompressed": "right"}, disk={"doc": ["missing"], "archive": ["correct"], "offset": ["stale"], "offset_age": "older"},
        script=[],
    ),
    SIG_ZST: _base_case(docs={"n": 1}, format=".zst", decl={"compressed": "none", "uncompressed": "none"}, disk={"archive": ["truncated", 700]}, script=[]),
    # 102 418 bytes whose last line starts at byte 102 370: the library path writes 100 KiB, then the rest; killed in between
    SIG_PARTIAL: _base_case(
        docs={"n": 1921, "style": "ascii", "eol": "lf", "trailing": True, "meta": False, "salt": 0}, format=".bz2",
        decl={"compressed": "none", "uncompressed": "none"}, disk={"archive": ["correct"]}, script=[], earlier={"crash_after": 2, "torn": None},
    ),
}
