"""
C19 - Fast-path response parsing agrees with full JSON parsing.

Real code: esrally.driver.runner.parse, BulkIndex (fast path and detailed path, through __call__), Query (search with detailed
results, scroll-search, paginated-search, composite-agg, through __call__ with a scripted client), SearchAfterExtractor and
CompositeAggExtractor (also called directly).
Generated: response *texts* of the shapes Elasticsearch returns (gen/es_responses.py); the case carries the text itself, so the
oracle sees exactly the bytes the code under test sees.
Oracle: differential against json.loads of the same text (never against the implementation): values at the extracted paths,
list-emptiness flags, flat objects, bulk success flag / counts, hit and page accounting, the search_after cursor == `sort` of the
last hit (observed both as the extractor's return value and as the `search_after` member of the next request the runner sends),
the composite `after` == parsed `after_key`.
"""
from __future__ import annotations

import asyncio
import copy
import decimal
import glob
import io
import json
import logging
import os
import shutil
import subprocess
import sys
import time
import traceback

from hypothesis import strategies as st  # noqa: F401  (kept for interactive use)

from esrally import exceptions
from esrally.driver import runner
from gen import es_responses as G
from vlib.core import VERIF_ROOT, HarnessError, signature_matches

ID = "C19"
LEVEL = "exploration"
TECHNIQUE = (
    "property-based differential testing (Hypothesis): generated Elasticsearch response texts, fast-path extraction vs json.loads of the "
    "same bytes; thorough tier adds a coverage-guided atheris campaign through hypothesis.fuzz_one_input"
)
RULE = (
    "Generated: a response script (1-4 texts) of one kind - bulk (0-300 items of index/create/update/delete, ok / failed with error "
    "object, string or null reason / failed replica shards / delete-not-found, `errors` as Elasticsearch computes it, ES 8, ES 7 or "
    "shuffled member order), search with detailed results, scroll pages, search_after pages (with/without point in time, optional "
    "aggregations incl. top_hits, inner_hits, matched_queries after `sort`), composite-aggregation pages (after_key of string / integer / "
    "float / boolean / null under 1-3 nested aggregation names), or a direct parse() call with drawn property / list / flat-object "
    "selections. Strings from an adversarial alphabet (quote, backslash, brackets, braces, comma, colon, the tokens sort\" \"sort\": errors, "
    "control characters, 2-/3-/4-byte UTF-8) in 80 % of cases; compact ES rendering, `_source` verbatim in compact / spaced / \\u-escaped "
    "form; everything \\u-escaped in 30 %; member order as ES writes it, or shuffled (30 %) except inside a hit (see gen/es_responses.py). "
    "Non-trivial = some response has >= 2 hits / bulk items / composite buckets-or-after_key entries AND an adversarial string lies in the "
    "part of the text the fast path has to lex before it may stop (computed from member offsets: up to the end of the last needed "
    "member, or the whole text when a needed member is absent, the text is searched as a whole (search_after), or the bulk response is "
    "re-parsed because of errors) or inside an extracted value (sort values, after_key, error reason). Distinct = distinct canonical JSON."
)
ASSUMPTIONS = [
    "responses are well-formed JSON without duplicate member names; numbers are finite; strings are valid Unicode (no lone surrogates)",
    "members of a search hit appear in the order SearchHit#toInnerXContent writes them (_source, fields, highlight before sort; matched_queries, "
    "_explanation, inner_hits after it); every other object may have any member order",
    "Elasticsearch's own output is compact (no ?pretty); only `_source` may contain insignificant whitespace",
    "bulk `errors` is what BulkResponse#hasFailures computes: true iff some item carries an `error` member; an item is *failed* for the oracle "
    "iff status > 299 or _shards.failed > 0 (the rule both of Rally's code paths apply per item and docs/track.rst calls 'failed bulk items')",
    "bulk-size equals the number of items when unit is docs; success-count may be None when unit is not docs and nothing failed (documented)",
    "numbers: integers compared exactly, non-integers after Decimal -> float (elasticsearch-py serialises Decimal as float); bool is not int",
    "no two members of one response share the same dotted ijson prefix as an extracted path (cases where a dotted aggregation name collides "
    "are reported inconclusive)",
    "paginated-search: every hit carries `sort` and every page has at least one hit; hits.total is present",
    "status 299 / 300 are generated as boundary values of the status rule although no Elasticsearch version emits them",
]
BUDGET = {"quick": 2600, "thorough": 20000}
WALL_BUDGET_S = {"quick": 85, "thorough": 900}
REQUIRED_CLASSES = {
    "kind:bulk": 150,
    "kind:paginated": 150,
    "kind:composite": 150,
    "kind:scroll": 150,
    "kind:parse": 150,
    "kind:search": 80,
    "order:shuffled": 150,
    "escapes:ascii": 150,
    "sort:adversarial-string": 100,
    "after_key:adversarial": 80,
    "bulk:errors-true": 100,
    "bulk:parser-walks-items": 80,
    "bulk:soft-failure-counted-with-errors-true": 40,
    "total:int": 150,
    "total:object": 150,
    "multi-page": 150,
    "text>16KiB": 30,
    "reserved-name-after-hits": 20,
}

SIG_BRACKET = "cursor/bracket-in-sort-value"
SIG_SORT_TOKEN = "cursor/sort-token-after-last-hit"
SIG_NULL = "parse/null-in-flat-object"
SIG_ERRFLAG = "bulk/fast-path-trusts-errors-flag"
SIG_DESC = "bulk/error-description-none-vs-str"

_LOOP = None


def setup():
    global _LOOP
    _LOOP = asyncio.new_event_loop()
    lg = logging.getLogger("esrally")
    lg.addHandler(logging.NullHandler())
    lg.propagate = False
    _maybe_run_atheris()


def teardown():
    global _LOOP
    if _LOOP is not None:
        _LOOP.close()
        _LOOP = None


def _run(coro):
    global _LOOP
    if _LOOP is None:
        _LOOP = asyncio.new_event_loop()
    return _LOOP.run_until_complete(coro)


def strategy(tier, known, kind="all"):
    # regions of known findings are generated all the same (at the alphabet's natural rate) and skipped + counted by is_excluded();
    # with an empty `known` set nothing is skipped, so a fixed finding is searched again
    if kind == "all":
        return G.cases(tier)
    return {"bulk": G.bulk_case, "search": G.search_case, "scroll": G.scroll_case, "paginated": G.paginated_case, "composite": G.composite_case, "parse": G.parse_case}[kind](tier)


# ------------------------------------------------------------------------------------------------ reference helpers (json.loads side)
def _load(text):
    try:
        return json.loads(text)
    except ValueError as e:  # the generator (or a hand-written replay) produced ill-formed JSON: never a verdict
        raise HarnessError(f"case contains ill-formed JSON: {e}: {text[:200]!r}") from e


def _norm(o):
    if isinstance(o, decimal.Decimal):
        return float(o)
    if isinstance(o, dict):
        return {k: _norm(v) for k, v in o.items()}
    if isinstance(o, (list, tuple)):
        return [_norm(v) for v in o]
    return o


def _same(a, b):
    """equality that does not identify True with 1 or 1 with 1.0 (a search_after of 1.0 instead of 1 is a different cursor type)"""
    a, b = _norm(a), _norm(b)
    if isinstance(a, dict) and isinstance(b, dict):
        return a.keys() == b.keys() and all(_same(a[k], b[k]) for k in a)
    if isinstance(a, list) and isinstance(b, list):
        return len(a) == len(b) and all(_same(x, y) for x, y in zip(a, b))
    return type(a) is type(b) and a == b


def _total(doc):
    t = doc.get("hits", {}).get("total")
    if isinstance(t, dict):
        return "object", t.get("value"), t.get("relation")
    if t is None:
        return "absent", None, None
    return "int", t, None


def _get(doc, path):
    cur = doc
    for k in path:
        if not isinstance(cur, dict) or k not in cur:
            return False, None
        cur = cur[k]
    return True, cur


def _ambiguous(doc, path):
    want = ".".join(path)
    return sum(1 for p, _ in G.leaves(doc) if p == want) > 1


def _failed(item_data):
    return item_data["status"] > 299 or item_data.get("_shards", {}).get("failed", 0) > 0


def _error_detail(d):
    """(status, reason) as documented by the runner's tests: reason of an error object, the error itself if it is a string, else None"""
    e = d.get("error")
    if not e:
        return d["status"], None
    return d["status"], (e.get("reason") if isinstance(e, dict) else str(e))


def _cursor_region(text, doc):
    """
    where the last hit's `sort` member lives in the text, and which known root-cause region (if any) the text is in:
    returns (expected_cursor | None, region signature | None)
    """
    hits = doc.get("hits", {}).get("hits") or []
    if not hits or "sort" not in hits[-1]:
        return None, None
    want = ("hits", "hits", len(hits) - 1, "sort")
    kpos = vstart = vend = None
    for path, k, vs, ve in G.scan_members(text):
        if path == want:
            kpos, vstart, vend = k, vs, ve
            break
    if kpos is None:
        raise HarnessError("scanner did not find the last hit's sort member")
    if text.rfind('"sort"') != kpos:
        return hits[-1]["sort"], SIG_SORT_TOKEN
    if "]" in text[vstart : vend - 1]:
        return hits[-1]["sort"], SIG_BRACKET
    return hits[-1]["sort"], None


def _after_key_path(case):
    return ["aggregations"] + list(case["path"]) + ["after_key"]


def regions(case):
    """signatures of the known-finding regions this case lies in (pure function of the case; shared by is_excluded and the oracle)"""
    out = set()
    kind = case["kind"]
    docs = [_load(t) for t in case["resp"]]
    if kind == "bulk":
        d = docs[0]
        datas = [next(iter(i.values())) for i in d["items"]]
        failed = [x for x in datas if _failed(x)]
        if failed and not d.get("errors", False):
            out.add(SIG_ERRFLAG)
        by_status = {}
        for x in failed:
            s, r = _error_detail(x)
            by_status.setdefault(s, set()).add(r is None)
        if any(len(v) == 2 for v in by_status.values()):
            out.add(SIG_DESC)
    elif kind == "paginated":
        for t, d in zip(case["resp"], docs):
            _, reg = _cursor_region(t, d)
            if reg:
                out.add(reg)
    elif kind == "composite":
        for d in docs:
            ok, ak = _get(d, _after_key_path(case))
            if ok and isinstance(ak, dict) and any(v is None for v in ak.values()):
                out.add(SIG_NULL)
    elif kind == "parse":
        by_prefix = dict(G.leaves(docs[0]))
        for o in case.get("objects") or []:
            v = by_prefix.get(o)
            if isinstance(v, dict) and any(x is None for x in v.values()):
                out.add(SIG_NULL)
    return out


def is_excluded(case, known):
    if not known:
        return False
    return any(signature_matches(r, known) for r in regions(case))


# ------------------------------------------------------------------------------------------------ scripted client
class _Exhausted(Exception):
    pass


class _Es:
    def __init__(self, script):
        self.script = script
        self.requests = []
        self.raw = False
        self.cleared = []

    def options(self, **kw):
        return self

    def return_raw_response(self):
        self.raw = True

    async def perform_request(self, *, method, path, params=None, body=None, headers=None):
        self.requests.append({"path": path, "body": copy.deepcopy(body)})
        if len(self.requests) > len(self.script):
            raise _Exhausted()
        return io.BytesIO(self.script[len(self.requests) - 1])

    async def clear_scroll(self, body=None):
        self.cleared.append(body)

    async def bulk(self, **kw):
        self.requests.append({"path": "/_bulk", "body": None})
        data = self.script[0]
        # the real client hands back the raw bytes after return_raw_response() and the deserialised body otherwise
        return io.BytesIO(data) if self.raw else json.loads(data)


def _inner_frame(exc):
    inner = None
    for fr in traceback.extract_tb(exc.__traceback__):
        if "/esrally/" in fr.filename.replace("\\", "/") and "/verif/" not in fr.filename:
            inner = fr
    return inner.name if inner else None


# ------------------------------------------------------------------------------------------------ non-trivial rule
def _adversarial_before(text, members, stop):
    """is there an adversarial string (member name, string value, or string inside a scalar list value) the lexer meets before `stop`"""
    for path, kpos, vs, ve in members:
        if kpos >= stop:
            continue
        key = path[-1]
        if isinstance(key, str) and G.is_adversarial(key):
            return True
        c = text[vs]
        if c == '"' or (c == "[" and ve - vs < 400):
            try:
                v = json.loads(text[vs:ve])
            except ValueError:
                continue
            if any(G.is_adversarial(s) for s in G.strings_of(v)):
                return True
    return False


def _stop_offset(text, members, needed):
    """offset up to which a streaming parser has to lex to see all `needed` member paths; whole text if one of them is absent"""
    ends = {}
    for path, kpos, vs, ve in members:
        if path in needed:
            ends[path] = ve
    if len(ends) < len(needed):
        return len(text)
    return max(ends.values()) if ends else 0


def _elements(doc):
    n = len(doc.get("hits", {}).get("hits") or []) if isinstance(doc.get("hits"), dict) else 0
    n = max(n, len(doc.get("items") or []))
    return n


# ------------------------------------------------------------------------------------------------ bulk
def _run_bulk(case, obs):
    text = case["resp"][0]
    raw = text.encode("utf-8")
    full = _load(text)
    datas = [next(iter(i.values())) for i in full["items"]]
    failed = [d for d in datas if _failed(d)]
    n_fail, n_ok = len(failed), len(datas) - len(failed)
    unit, bulk_size = case["unit"], case["bulk_size"]
    reg = regions(case)
    details = {_error_detail(d) for d in failed}
    results = {}
    for path_name, detailed in (("fast", False), ("detailed", True)):
        es = _Es([raw])
        params = {
            "body": '{"index":{}}\n{"f":1}\n',
            "bulk-size": bulk_size,
            "unit": unit,
            "action-metadata-present": True,
            "index": "logs",
            "detailed-results": detailed,
        }
        try:
            meta = _run(runner.BulkIndex()(es, params))
        except TypeError as e:
            if _inner_frame(e) == "error_description" and SIG_DESC in reg:
                obs.violation(SIG_DESC, f"{path_name} path: {type(e).__name__}: {e}; error details {sorted(details, key=repr)}")
                continue
            raise
        results[path_name] = meta
        obs.check(es.raw == (not detailed), f"bulk/{path_name}/raw-response-mode", "fast path must ask for the raw response, detailed must not")
        ok = True
        ok &= meta.get("success") == (n_fail == 0)
        ok &= meta.get("error-count") == n_fail
        sc = meta.get("success-count")
        if sc is None:
            ok &= unit != "docs" and n_fail == 0 and not detailed
        else:
            ok &= sc == n_ok
        ok &= ("error-type" in meta) == (n_fail > 0)
        if not ok:
            sig = SIG_ERRFLAG if (path_name == "fast" and SIG_ERRFLAG in reg) else f"bulk/{path_name}/accounting"
            obs.violation(
                sig,
                f"{path_name} path reports success={meta.get('success')} success-count={meta.get('success-count')} error-count={meta.get('error-count')} "
                f"error-type={meta.get('error-type')}; the {len(datas)} parsed items have {n_ok} succeeded / {n_fail} failed (errors={full.get('errors')}, unit={unit})",
            )
        obs.check(_same(meta.get("took"), full.get("took")), f"bulk/{path_name}/took", f"took {meta.get('took')!r} vs {full.get('took')!r}")
        if detailed and "ingest_took" in full:
            obs.check(_same(meta.get("ingest_took"), full["ingest_took"]), "bulk/detailed/ingest_took", f"{meta.get('ingest_took')!r}")
        if n_fail and "error-description" in meta:
            desc = meta["error-description"]
            if len(details) <= 5:
                for status, reason in details:
                    obs.check(
                        f"HTTP status: {status}" in desc and (not reason or reason in desc),
                        f"bulk/{path_name}/error-description",
                        f"({status}, {reason!r}) of a failed item is not in {desc!r}",
                    )
    if "fast" in results and "detailed" in results and not (SIG_ERRFLAG in reg):
        a, b = results["fast"], results["detailed"]
        for k in ("success", "error-count", "error-description"):
            obs.check(a.get(k) == b.get(k), "bulk/paths-disagree", f"{k}: fast {a.get(k)!r} vs detailed {b.get(k)!r}")

    # classes / non-trivial
    members = G.scan_members(text)
    pos = {p[0]: k for p, k, _, _ in members if len(p) == 1}
    walks_items = "items" in pos and (pos["items"] < pos.get("errors", -1) or pos["items"] < pos.get("took", -1))
    obs.cls("bulk:errors-true" if full.get("errors") else "bulk:errors-false")
    if walks_items:
        obs.cls("bulk:parser-walks-items")
    if len(datas) >= 100:
        obs.cls("bulk:>=100-items")
    if not datas:
        obs.cls("bulk:no-items")
    if any(isinstance(d.get("error"), str) for d in datas):
        obs.cls("bulk:error-as-string")
    if any(d["status"] in (299, 300) for d in datas):
        obs.cls("bulk:status-boundary")
    if n_fail and full.get("errors") and any(not d.get("error") for d in failed):
        obs.cls("bulk:soft-failure-counted-with-errors-true")
    adv_items = any(G.is_adversarial(s) for i in full["items"] for s in G.strings_of(i))
    adv_reason = any(isinstance(r, str) and G.is_adversarial(r) for _, r in details)
    if adv_items:
        obs.cls("adversarial-string")
    obs.mark_nontrivial(len(datas) >= 2 and ((walks_items and adv_items) or (bool(full.get("errors")) and adv_reason)))


# ------------------------------------------------------------------------------------------------ search / scroll
def _label_search_doc(obs, text, doc):
    style, _, _ = _total(doc)
    obs.cls(f"total:{style}")
    if len(text.encode("utf-8")) > 16 * 1024:
        obs.cls("text>16KiB")
    hits = doc.get("hits", {}).get("hits") or []
    for member in ("inner_hits", "fields", "highlight", "matched_queries"):
        if any(member in h for h in hits):
            obs.cls(f"hit:{member}")
    if len(hits) >= 40:
        obs.cls("hits>=40")
    aggs = doc.get("aggregations")
    if isinstance(aggs, dict):
        obs.cls("aggs:present")
        if any(k in ("sort", "hits", "took", "after_key", "total", "timed_out", "errors") for k in _keys_of(aggs)):
            obs.cls("aggs:reserved-member-name")


def _keys_of(o):
    if isinstance(o, dict):
        for k, v in o.items():
            yield k
            yield from _keys_of(v)
    elif isinstance(o, list):
        for v in o:
            yield from _keys_of(v)


def _nt_streaming(text, doc, needed_paths):
    members = G.scan_members(text)
    stop = _stop_offset(text, members, set(needed_paths))
    return _elements(doc) >= 2 and _adversarial_before(text, members, stop)


def _run_search(case, obs):
    text = case["resp"][0]
    full = _load(text)
    es = _Es([text.encode("utf-8")])
    params = {"index": "logs", "body": {"query": {"match_all": {}}}, "operation-type": "search", "detailed-results": True}
    r = _run(runner.Query()(es, params))
    style, value, relation = _total(full)
    if style != "absent":
        obs.check(_same(r.get("hits"), value), "search/hits", f"hits {r.get('hits')!r}, response says {value!r}")
        obs.check(r.get("hits_relation") == (relation or "eq"), "search/hits_relation", f"{r.get('hits_relation')!r} vs {relation!r}")
    obs.check(_same(r.get("timed_out"), full["timed_out"]), "search/timed_out", f"{r.get('timed_out')!r} vs {full['timed_out']!r}")
    obs.check(_same(r.get("took"), full["took"]), "search/took", f"{r.get('took')!r} vs {full['took']!r}")
    for k, v in full["_shards"].items():
        if k in ("total", "successful", "skipped", "failed"):
            obs.check(_same(r["shards"].get(k), v), "search/shards", f"_shards.{k}: {r['shards'].get(k)!r} vs {v!r}")
    _label_search_doc(obs, text, full)
    needed = [("hits", "total"), ("hits", "total", "value"), ("hits", "total", "relation"), ("timed_out",), ("took",)]
    needed += [("_shards", k) for k in ("total", "successful", "skipped", "failed")]
    obs.mark_nontrivial(_nt_streaming(text, full, needed))


def _run_scroll(case, obs):
    texts = case["resp"]
    fulls = [_load(t) for t in texts]
    size, pages = case["size"], case["pages"]
    limit = float("inf") if pages == "all" else int(pages)
    es = _Es([t.encode("utf-8") for t in texts])
    params = {"index": "logs", "body": {"query": {"match_all": {}}}, "operation-type": "scroll-search", "pages": pages}
    if size is not None:
        params["results-per-page"] = size
    # reference: number of requests
    style, v0, rel0 = _total(fulls[0])
    v0 = 0 if v0 is None else v0
    n = 1
    done = (size is not None and v0 < size) or v0 == 0
    while not done and n < limit:
        if n >= len(fulls):
            raise HarnessError("scroll script too short for its own page arithmetic")
        done = len(fulls[n]["hits"]["hits"]) == 0
        n += 1
    try:
        r = _run(runner.Query()(es, params))
    except _Exhausted:
        obs.violation("scroll/pages", f"runner asked for page {len(es.requests)} although the parsed responses end the scroll after {n} page(s)")
        return
    used = fulls[: len(es.requests)]
    obs.check(len(es.requests) == n, "scroll/pages", f"{len(es.requests)} requests, parsed responses imply {n} (emptiness of hits.hits / total {v0} vs size {size})")
    obs.check(r.get("pages") == len(es.requests) and r.get("weight") == len(es.requests), "scroll/pages-reported", f"{r.get('pages')} vs {len(es.requests)} requests")
    if style != "absent":
        obs.check(_same(r.get("hits"), v0), "scroll/hits", f"hits {r.get('hits')!r}, first response says {v0!r}")
        obs.check(r.get("hits_relation") == (rel0 or "eq"), "scroll/hits_relation", f"{r.get('hits_relation')!r} vs {rel0!r}")
    obs.check(_same(r.get("took"), sum(f["took"] for f in used)), "scroll/took", f"took {r.get('took')!r} vs sum {[f['took'] for f in used]}")
    obs.check(_same(r.get("timed_out"), any(f["timed_out"] for f in used)), "scroll/timed_out", f"{r.get('timed_out')!r} vs {[f['timed_out'] for f in used]}")
    obs.check(es.cleared == [{"scroll_id": [fulls[0]["_scroll_id"]]}], "scroll/scroll_id", f"cleared {es.cleared!r}, first response has {fulls[0]['_scroll_id']!r}")
    for k in range(1, len(es.requests)):
        sent = (es.requests[k]["body"] or {}).get("scroll_id")
        obs.check(sent == fulls[0]["_scroll_id"], "scroll/scroll_id", f"request {k} continues scroll {sent!r}, first response has {fulls[0]['_scroll_id']!r}")
    nt = False
    for k, (t, f) in enumerate(zip(texts, used)):
        _label_search_doc(obs, t, f)
        if k == 0:
            needed = [("_scroll_id",), ("hits", "total"), ("hits", "total", "value"), ("hits", "total", "relation"), ("timed_out",), ("took",), ("hits", "hits")]
        else:
            needed = [("timed_out",), ("took",), ("hits", "hits")]
        nt = nt or _nt_streaming(t, f, needed)
    if len(used) >= 2:
        obs.cls("multi-page")
    obs.mark_nontrivial(nt)


# ------------------------------------------------------------------------------------------------ search_after
def _check_extracted_common(obs, tag, parsed, full, pit, hits_total):
    obs.check(_same(parsed.get("took"), full["took"]), f"{tag}/took", f"{parsed.get('took')!r} vs {full['took']!r}")
    obs.check(_same(parsed.get("timed_out"), full["timed_out"]), f"{tag}/timed_out", f"{parsed.get('timed_out')!r} vs {full['timed_out']!r}")
    if pit:
        obs.check(parsed.get("pit_id") == full["pit_id"], f"{tag}/pit_id", f"{parsed.get('pit_id')!r} vs {full['pit_id']!r}")
    if hits_total is None:
        style, value, relation = _total(full)
        obs.check(_same(parsed.get("hits.total.value"), value), f"{tag}/hits", f"{parsed.get('hits.total.value')!r} vs {value!r}")
        obs.check(parsed.get("hits.total.relation") == (relation or "eq"), f"{tag}/hits_relation", f"{parsed.get('hits.total.relation')!r} vs {relation!r}")


def _cursor_violation(obs, region, got, want, where):
    sig = region or "cursor/mismatch"
    obs.violation(sig, f"{where}: cursor {got!r}, the last hit's sort is {want!r}")


def _run_paginated(case, obs):
    texts = case["resp"]
    fulls = [_load(t) for t in texts]
    size, pages, pit = case["size"], case["pages"], case["pit"]
    limit = float("inf") if pages == "all" else int(pages)
    cursors = [_cursor_region(t, f) for t, f in zip(texts, fulls)]

    # (1) the extractor alone, on every response
    for k, (t, f) in enumerate(zip(texts, fulls)):
        want, region = cursors[k]
        ex = runner.SearchAfterExtractor()
        for ht in [None] + ([case["hits_total"]] if case.get("hits_total") is not None else []):
            try:
                parsed, last_sort = ex(io.BytesIO(t.encode("utf-8")), pit, ht)
            except ValueError as e:  # json.JSONDecodeError from the textual cursor extraction
                if _inner_frame(e) != "_get_last_sort":
                    raise
                _cursor_violation(obs, region, f"{type(e).__name__}: {e}", want, f"extractor, response {k}")
                continue
            _check_extracted_common(obs, "search_after", parsed, f, pit, ht)
            if want is not None and not _same(last_sort, want):
                _cursor_violation(obs, region, last_sort, want, f"extractor, response {k}")

    # (2) through the runner: the cursor is what the next request carries
    style, v0, rel0 = _total(fulls[0])
    n = 1
    while v0 / size > n and n < limit:
        n += 1
    if n > len(texts):
        raise HarnessError("paginated script too short for its own page arithmetic")
    es = _Es([t.encode("utf-8") for t in texts])
    params = {
        "index": "logs",
        "operation-type": "paginated-search",
        "pages": pages,
        "results-per-page": size,
        "body": {"query": {"match_all": {}}, "sort": [{"ts": "asc"}, {"id": "asc"}]},
    }
    if pit:
        params["with-point-in-time-from"] = "open-pit"

    async def go():
        async with runner.CompositeContext():
            if pit:
                runner.CompositeContext.put("open-pit", "initial-pit-id")
            res = await runner.Query()(es, params)
            return res, (runner.CompositeContext.get("open-pit") if pit else None)

    aborted = False
    try:
        r, final_pit = _run(go())
    except _Exhausted:
        obs.violation("search_after/pages", f"runner asked for page {len(es.requests)}; total {v0!r} and size {size} imply {n} page(s)")
        return
    except ValueError as e:
        if _inner_frame(e) != "_get_last_sort":
            raise
        k = len(es.requests) - 1
        _cursor_violation(obs, cursors[k][1], f"{type(e).__name__}: {e}", cursors[k][0], f"runner, response {k}")
        aborted = True
    n_req = len(es.requests)
    for k in range(1, n_req):
        want, region = cursors[k - 1]
        got = es.requests[k]["body"].get("search_after")
        if not _same(got, want):
            _cursor_violation(obs, region, got, want, f"runner, search_after of request {k}")
        if pit:
            got_pit = es.requests[k]["body"].get("pit", {}).get("id")
            obs.check(got_pit == fulls[k - 1]["pit_id"], "search_after/pit_id", f"request {k} uses pit {got_pit!r}, previous response returned {fulls[k - 1]['pit_id']!r}")
    if not aborted:
        used = fulls[:n_req]
        obs.check(n_req == n, "search_after/pages", f"{n_req} requests; total {v0!r} and size {size} imply {n}")
        obs.check(r.get("pages") == n_req and r.get("weight") == n_req, "search_after/pages-reported", f"{r.get('pages')} vs {n_req}")
        obs.check(_same(r.get("hits"), v0), "search_after/hits", f"hits {r.get('hits')!r} vs {v0!r}")
        obs.check(r.get("hits_relation") == (rel0 or "eq"), "search_after/hits_relation", f"{r.get('hits_relation')!r} vs {rel0!r}")
        obs.check(_same(r.get("took"), sum(f["took"] for f in used)), "search_after/took", f"{r.get('took')!r} vs {[f['took'] for f in used]}")
        obs.check(_same(r.get("timed_out"), any(f["timed_out"] for f in used)), "search_after/timed_out", f"{r.get('timed_out')!r}")
        if pit:
            obs.check(final_pit == used[-1]["pit_id"], "search_after/pit_id", f"context holds {final_pit!r}, last response returned {used[-1]['pit_id']!r}")
        if n_req >= 2:
            obs.cls("multi-page")

    nt = False
    for t, f in zip(texts, fulls):
        _label_search_doc(obs, t, f)
        hits = f["hits"]["hits"]
        sort_strings = [s for s in hits[-1].get("sort", []) if isinstance(s, str)] if hits else []
        if any(G.is_adversarial(s) for s in sort_strings):
            obs.cls("sort:adversarial-string")
        if any(s is None for s in (hits[-1].get("sort", []) if hits else [])):
            obs.cls("sort:null")
        members = G.scan_members(t)
        after_hits = [p for p, *_ in members if p[0] in ("aggregations", "suggest") or (len(p) > 3 and p[:2] == ("hits", "hits") and p[3] in ("inner_hits", "matched_queries", "_explanation"))]
        if any(isinstance(p[-1], str) and p[-1] in G.RESERVED_KEYS for p in after_hits):
            obs.cls("reserved-name-after-hits")
        if any(p[0] == "aggregations" for p in after_hits):
            obs.cls("with-aggregations")
        # the cursor extraction searches the whole text: every adversarial string counts
        if len(hits) >= 2 and _adversarial_before(t, members, len(t)):
            nt = True
    obs.mark_nontrivial(nt)


# ------------------------------------------------------------------------------------------------ composite
def _composite_body(case):
    node = {"composite": {"sources": [{s: {"terms": {"field": s}}} for s in case["sources"]]}}
    path = case["path"]
    for i in range(len(path) - 1, -1, -1):
        wrapper = {case["aggs_key"]: {path[i]: node}}
        if i > 0:
            wrapper["filter"] = {"match_all": {}}
        node = wrapper
    node["size"] = 0
    return node


def _resolve_after(body, case):
    cur = body
    for name in case["path"]:
        cur = cur[case["aggs_key"]][name]
    return cur["composite"].get("after")


def _after_key_violation(obs, got, want, where):
    sig = "after_key/mismatch"
    if isinstance(want, dict) and isinstance(got, dict) and any(v is None for v in want.values()):
        if _same(got, {k: v for k, v in want.items() if v is not None}):
            sig = SIG_NULL
    obs.violation(sig, f"{where}: after {_norm(got)!r}, the response's after_key is {want!r}")


_PRIME_RESPONSE = json.dumps({"took": 1, "timed_out": False, "hits": {"total": {"value": 3, "relation": "eq"}, "hits": []},
                              "aggregations": {"earlier-agg": {"doc_count": 3, "inner": {"after_key": {"f": "b"}, "buckets": [{"key": {"f": "b"}, "doc_count": 3}]}}}}).encode("utf-8")
_PRIME_LAST = json.dumps({"took": 1, "timed_out": False, "hits": {"total": {"value": 3, "relation": "eq"}, "hits": []},
                          "aggregations": {"earlier-agg": {"doc_count": 3, "inner": {"buckets": []}}}}).encode("utf-8")


def _run_composite(case, obs):
    texts = case["resp"]
    fulls = [_load(t) for t in texts]
    pit, pages, size = case["pit"], case["pages"], case["size"]
    limit = float("inf") if pages == "all" else int(pages)
    akp = _after_key_path(case)
    if any(_ambiguous(f, akp) for f in fulls):
        obs.inconclusive = "dotted aggregation names collide with the after_key path"
        return
    keys = [_get(f, akp) for f in fulls]

    # One runner object per operation type serves every task and client of a worker: in a class of cases the extractor (and below the
    # Query runner) has served a composite aggregation with another name and nesting before - and all pages go through the same object.
    extractor = runner.CompositeAggExtractor()
    if case.get("primed"):
        extractor(io.BytesIO(_PRIME_RESPONSE), False, ["earlier-agg", "inner"], None)
        obs.cls("composite:runner-served-another-aggregation-before")
    for k, (t, f) in enumerate(zip(texts, fulls)):
        present, want = keys[k]
        for ht in [None] + ([case["hits_total"]] if case.get("hits_total") is not None else []):
            parsed = extractor(io.BytesIO(t.encode("utf-8")), pit, list(case["path"]), ht)
            _check_extracted_common(obs, "composite", parsed, f, pit, ht)
            got = parsed.get("after_key")
            if not _same(got, want if present else None):
                _after_key_violation(obs, got, want if present else None, f"extractor, response {k}")

    n = 1
    while isinstance(keys[n - 1][1], dict) and n < limit:
        n += 1
    if n > len(texts):
        raise HarnessError("composite script too short for its own page arithmetic")
    es = _Es([t.encode("utf-8") for t in texts])
    params = {"index": "logs", "operation-type": "composite-agg", "pages": pages, "body": _composite_body(case)}
    if size is not None:
        params["results-per-page"] = size
    if pit:
        params["with-point-in-time-from"] = "open-pit"

    query = runner.Query()
    if case.get("primed"):
        prime_body = {"size": 0, "aggs": {"earlier-agg": {"filter": {"match_all": {}}, "aggs": {"inner": {"composite": {"sources": [{"f": {"terms": {"field": "f"}}}]}}}}}}
        _run(query(_Es([_PRIME_RESPONSE, _PRIME_LAST]), {"index": "logs", "operation-type": "composite-agg", "pages": "all", "body": prime_body}))

    async def go():
        async with runner.CompositeContext():
            if pit:
                runner.CompositeContext.put("open-pit", "initial-pit-id")
            return await query(es, params)

    try:
        r = _run(go())
    except _Exhausted:
        obs.violation("composite/pages", f"runner asked for page {len(es.requests)}; the parsed after_keys end the traversal after {n} page(s)")
        return
    n_req = len(es.requests)
    used = fulls[:n_req]
    for k in range(1, n_req):
        got = _resolve_after(es.requests[k]["body"], case)
        want = keys[k - 1][1]
        if not _same(got, want):
            _after_key_violation(obs, got, want, f"runner, composite.after of request {k}")
    obs.check(n_req == n, "composite/pages", f"{n_req} requests; parsed after_keys imply {n}")
    obs.check(r.get("pages") == n_req and r.get("weight") == n_req, "composite/pages-reported", f"{r.get('pages')} vs {n_req}")
    style, v0, rel0 = _total(fulls[0])
    obs.check(_same(r.get("hits"), v0), "composite/hits", f"hits {r.get('hits')!r} vs {v0!r}")
    obs.check(r.get("hits_relation") == (rel0 or "eq"), "composite/hits_relation", f"{r.get('hits_relation')!r} vs {rel0!r}")
    obs.check(_same(r.get("took"), sum(f["took"] for f in used)), "composite/took", f"{r.get('took')!r} vs {[f['took'] for f in used]}")
    obs.check(_same(r.get("timed_out"), any(f["timed_out"] for f in used)), "composite/timed_out", f"{r.get('timed_out')!r}")
    if n_req >= 2:
        obs.cls("multi-page")
    if len(case["path"]) >= 2:
        obs.cls("composite:nested-path")

    nt = False
    for (present, ak), t, f in zip(keys, texts, fulls):
        _label_search_doc(obs, t, f)
        if not (present and isinstance(ak, dict)):
            continue
        for v in ak.values():
            obs.cls("after_key:" + ("null" if v is None else type(v).__name__))
        adv = any(G.is_adversarial(s) for s in G.strings_of(ak)) or any(G.is_adversarial(s) for s in case["path"])
        if adv:
            obs.cls("after_key:adversarial")
        ok, comp = _get(f, akp[:-1])
        n_el = max(len(ak), len(comp.get("buckets") or []) if ok and isinstance(comp, dict) else 0, _elements(f))
        if n_el >= 2 and adv:
            nt = True
    obs.mark_nontrivial(nt)


# ------------------------------------------------------------------------------------------------ parse() directly
def _run_parse(case, obs):
    text = case["resp"][0]
    full = _load(text)
    props, lists, objects = list(case["props"]), case.get("lists"), case.get("objects")
    out = runner.parse(io.BytesIO(text.encode("utf-8")), props, lists, objects)
    by_prefix = {}
    for p, v in G.leaves(full):
        by_prefix.setdefault(p, []).append(v)
    wanted = set(props) | set(lists or []) | set(objects or [])
    if any(len(by_prefix.get(p, [])) > 1 for p in wanted):
        obs.inconclusive = "requested prefix is not unique in the document"
        return
    for p in props:
        if p not in by_prefix:
            obs.check(p not in out, "parse/phantom-property", f"{p!r} is not in the document but parse returned {out.get(p)!r}")
        elif not isinstance(by_prefix[p][0], (dict, list)):
            obs.check(p in out and _same(out[p], by_prefix[p][0]), "parse/property", lambda: f"{p!r}: parse {out.get(p, '<missing>')!r}, document has {by_prefix[p][0]!r}")
    for l in lists or []:
        if l not in by_prefix:
            obs.check(l not in out, "parse/phantom-list", f"{l!r} is not in the document but parse returned {out.get(l)!r}")
        else:
            obs.check(out.get(l) is (len(by_prefix[l][0]) == 0), "parse/list-emptiness", lambda: f"{l!r}: parse {out.get(l, '<missing>')!r}, document has {len(by_prefix[l][0])} elements")
    for o in objects or []:
        if o not in by_prefix:
            obs.check(o not in out, "parse/phantom-object", f"{o!r} is not in the document but parse returned {out.get(o)!r}")
            continue
        want = by_prefix[o][0]
        got = out.get(o)
        if not _same(got, want):
            sig = "parse/flat-object"
            if isinstance(got, dict) and _same(got, {k: v for k, v in want.items() if v is not None}):
                sig = SIG_NULL
            obs.violation(sig, f"{o!r}: parse {_norm(got)!r}, document has {want!r}")
    extra = set(out) - wanted
    obs.check(not extra, "parse/unrequested-key", f"parse returned keys nobody asked for: {sorted(extra)}")
    obs.cls("parse:with-lists" if lists else "parse:no-lists", "parse:with-objects" if objects else "parse:no-objects")
    if any(p not in by_prefix for p in wanted):
        obs.cls("parse:absent-path-forces-full-scan")
    if "hits" in full:
        _label_search_doc(obs, text, full)
    members = G.scan_members(text)
    stop = len(text)
    if all(p in by_prefix for p in wanted) and wanted:
        # prefixes -> member offsets: compare on the dotted form (list elements are 'item')
        ends = [ve for path, _, _, ve in members if ".".join("item" if isinstance(x, int) else x for x in path) in wanted]
        stop = max(ends) if len(ends) >= len(wanted) else len(text)
    obs.mark_nontrivial(bool(wanted) and _elements(full) >= 2 and _adversarial_before(text, members, stop))


# ------------------------------------------------------------------------------------------------ entry
_KINDS = {"bulk": _run_bulk, "search": _run_search, "scroll": _run_scroll, "paginated": _run_paginated, "composite": _run_composite, "parse": _run_parse}


def run_case(case, obs):
    kind = case["kind"]
    obs.cls(f"kind:{kind}")
    texts = case["resp"]
    if any("\\u" in t for t in texts):
        obs.cls("escapes:\\u-present")
    docs = [_load(t) for t in texts]
    if any(_is_ascii_rendering(t, d) for t, d in zip(texts, docs)):
        obs.cls("escapes:ascii")
    elif any(not t.isascii() for t in texts):
        obs.cls("escapes:raw-utf8")
    if any(_order_class(kind, t) == "shuffled" for t in texts):
        obs.cls("order:shuffled")
    else:
        obs.cls("order:es")
    if any(G.is_adversarial(s) for d in docs for s in G.strings_of(d)):
        obs.cls("adversarial-string")
    _KINDS[kind](case, obs)


def _is_ascii_rendering(text, doc):
    """non-ASCII content present in the document but the text is pure ASCII: everything is \\u-escaped"""
    return text.isascii() and any(not s.isascii() for s in G.strings_of(doc))


_ES_TOP_ORDER = ["_scroll_id", "pit_id", "took", "timed_out", "terminated_early", "num_reduce_phases", "_shards", "_clusters", "hits", "aggregations", "suggest", "profile"]


def _order_class(kind, text):
    """'es' when the top-level members come in an order Elasticsearch writes, else 'shuffled' (measured on the text, not taken from the generator)"""
    top = [p[0] for p, *_ in G.scan_members(text) if len(p) == 1]
    if "items" in top:
        core = [k for k in top if k != "ingest_took"]
        return "es" if core in (["errors", "took", "items"], ["took", "errors", "items"]) and top[-1] == "items" else "shuffled"
    idx = [_ES_TOP_ORDER.index(k) for k in top if k in _ES_TOP_ORDER]
    return "es" if idx == sorted(idx) else "shuffled"


# ------------------------------------------------------------------------------------------------ probes for findings
def _search_text(hits, extra=""):
    return '{"took":1,"timed_out":false,"_shards":{"total":1,"successful":1,"skipped":0,"failed":0},"hits":{"total":{"value":5,"relation":"eq"},"max_score":null,"hits":[' + hits + "]}" + extra + "}"


PROBES = {
    SIG_BRACKET: {
        "kind": "paginated",
        "resp": [_search_text('{"_index":"logs","_id":"1","_score":null,"_source":{},"sort":["a]b",1]}')],
        "size": 5,
        "pages": 1,
        "pit": False,
        "hits_total": None,
    },
    SIG_SORT_TOKEN: {
        "kind": "paginated",
        "resp": [_search_text('{"_index":"logs","_id":"1","_score":null,"_source":{},"sort":[1,"x"]}', ',"aggregations":{"sort":{"value":1.0}}')],
        "size": 5,
        "pages": 1,
        "pit": False,
        "hits_total": None,
    },
    SIG_NULL: {
        "kind": "composite",
        "resp": [
            '{"took":1,"timed_out":false,"hits":{"total":{"value":5,"relation":"eq"},"max_score":null,"hits":[]},"aggregations":{"c":{"after_key":{"a":null,"b":"x"},"buckets":[{"key":{"a":null,"b":"x"},"doc_count":1}]}}}',
            '{"took":1,"timed_out":false,"hits":{"total":{"value":5,"relation":"eq"},"max_score":null,"hits":[]},"aggregations":{"c":{"buckets":[]}}}',
        ],
        "path": ["c"],
        "sources": ["a", "b"],
        "size": None,
        "pages": "all",
        "pit": False,
        "aggs_key": "aggs",
        "hits_total": None,
    },
    SIG_ERRFLAG: {
        "kind": "bulk",
        "resp": [
            '{"errors":false,"took":3,"items":[{"index":{"_index":"logs","_id":"1","_version":1,"result":"created","_shards":{"total":2,"successful":1,"failed":1,'
            '"failures":[{"_index":"logs","_shard":0,"_node":"n2","reason":{"type":"node_disconnected_exception","reason":"x"},"status":"INTERNAL_SERVER_ERROR","primary":false}]},'
            '"_seq_no":0,"_primary_term":1,"status":201}}]}'
        ],
        "unit": "docs",
        "bulk_size": 1,
    },
    SIG_DESC: {
        "kind": "bulk",
        "resp": [
            '{"errors":true,"took":3,"items":[{"index":{"_index":"logs","_id":"1","status":500,"error":{"type":"null_pointer_exception","reason":null}}},'
            '{"index":{"_index":"logs","_id":"2","status":500,"error":{"type":"illegal_state_exception","reason":"boom"}}}]}'
        ],
        "unit": "docs",
        "bulk_size": 2,
    },
}


# ------------------------------------------------------------------------------------------------ atheris (thorough tier only)
ATHERIS_DIR = os.path.join(VERIF_ROOT, "found", ID, "atheris")
_ATHERIS_INFO = {}


def _argv_value(flag, default=None):
    if flag in sys.argv:
        i = sys.argv.index(flag)
        if i + 1 < len(sys.argv):
            return sys.argv[i + 1]
    return default


def _maybe_run_atheris():
    """
    Parent process of a thorough run only: run a bounded coverage-guided campaign in subprocesses before the sharded search; inputs that
    break an oracle are written by the fuzz driver as case files into found/C19/atheris/ and come back through enumerate_cases().
    """
    tier = _argv_value("--tier", os.environ.get("VERIF_TIER", "quick"))
    if tier != "thorough" or "--shard" in sys.argv or "--replay" in sys.argv:
        return
    seconds = int(os.environ.get("VERIF_ATHERIS_S", "300"))
    jobs = int(os.environ.get("VERIF_ATHERIS_JOBS", "8"))
    if seconds <= 0 or jobs <= 0:
        _ATHERIS_INFO.update({"atheris": "disabled by VERIF_ATHERIS_S/VERIF_ATHERIS_JOBS"})
        return
    try:
        import atheris  # noqa: F401
    except Exception as e:  # pylint: disable=broad-except
        _ATHERIS_INFO.update({"atheris": f"not available ({type(e).__name__}: {e}); campaign skipped"})
        return
    os.makedirs(ATHERIS_DIR, exist_ok=True)
    for old in glob.glob(os.path.join(ATHERIS_DIR, "case-*.json")):
        os.remove(old)
    driver = os.path.join(VERIF_ROOT, "lab", "c19_atheris_driver.py")
    repo = _argv_value("--repo", os.environ.get("VERIF_REPO", "/repo"))
    seed = int(os.environ.get("VERIF_SEED", "1") or "1")
    t0 = time.monotonic()
    procs = []
    # one job per case kind (libFuzzer started from nothing stays with the kind its first bytes select), the rest on the mixture;
    # odd jobs start from the unit tests' response literals, even ones from an empty corpus
    kinds = ["paginated", "composite", "parse", "bulk", "scroll", "search", "all", "all"]
    for j in range(jobs):
        corpus_mode = "literals" if j % 2 else "empty"
        cmd = [sys.executable, driver, "--repo", repo, "--out", ATHERIS_DIR, "--job", str(j), "--kind", kinds[j % len(kinds)], "--corpus", corpus_mode,
               "--seconds", str(seconds), "--seed", str(seed * 100 + j)]
        env = dict(os.environ, PYTHONHASHSEED="0")
        procs.append(subprocess.Popen(cmd, stdout=subprocess.PIPE, stderr=subprocess.STDOUT, text=True, env=env, cwd=VERIF_ROOT))
    stats = []
    for j, p in enumerate(procs):
        try:
            out, _ = p.communicate(timeout=seconds + 300)
        except subprocess.TimeoutExpired:
            p.kill()
            out, _ = p.communicate()
            out = (out or "") + "\n[killed: timeout]"
        try:
            with open(os.path.join(ATHERIS_DIR, f"job-{j}.stats.json"), encoding="utf-8") as f:
                s = json.load(f)
        except (OSError, ValueError):
            s = {"job": j, "error": "no statistics file"}
        s["exit"] = p.returncode
        if p.returncode != 0 or "error" in s:
            s["tail"] = (out or "")[-600:]
        stats.append(s)
        if os.path.exists(os.path.join(ATHERIS_DIR, f"job-{j}.stats.json")):
            os.remove(os.path.join(ATHERIS_DIR, f"job-{j}.stats.json"))
        shutil.rmtree(os.path.join(ATHERIS_DIR, f"corpus-{j}"), ignore_errors=True)
    found = sorted(glob.glob(os.path.join(ATHERIS_DIR, "case-*.json")))
    _ATHERIS_INFO.update(
        {
            "atheris": "ran",
            "atheris_jobs": jobs,
            "atheris_seconds_per_job": seconds,
            "atheris_wall_s": round(time.monotonic() - t0, 1),
            "atheris_executions": sum(s.get("executions", 0) for s in stats),
            "atheris_cases_run": sum(s.get("cases_run", 0) for s in stats),
            "atheris_nontrivial_cases": sum(s.get("nontrivial", 0) for s in stats),
            "atheris_excluded_known": sum(s.get("excluded_known", 0) for s in stats),
            "atheris_oracle_failures_written": len(found),
            "atheris_job_stats": stats,
        }
    )


def enumerate_cases(tier):
    """thorough: the inputs on which the atheris campaign saw an oracle fail are re-run here, through the normal reporting path"""
    if tier != "thorough":
        return
    for path in sorted(glob.glob(os.path.join(ATHERIS_DIR, "case-*.json"))):
        try:
            with open(path, encoding="utf-8") as f:
                yield json.load(f)["case"]
        except (OSError, ValueError, KeyError):
            continue


def evidence_extra():
    return dict(_ATHERIS_INFO)
