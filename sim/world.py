"""
E1 world: the simulated Elasticsearch endpoint, the scripted runner ("sim-op"), the scripted parameter source
("sim-source") and the request log. All behaviour is a pure function of the case (looked up in `World.tasks`).

A *request spec* (one per executed request, looked up by task name, client index in task and request ordinal):
    pre      virtual seconds of client-side overhead before the first wire request
    wire     list of [gap_before, service_time] for each wire request issued by this logical request (>= 1)
    post     client-side overhead after the last response
    outcome  "ok" | "fail-dict" | "api-4xx" | "api-5xx" | "timeout" | "conn-error" | "raise-key" | "raise-runtime" | "raise-assert"
    shape    "tuple" | "dict" | "dict-plain" | "none"          (what the runner returns on success)
    weight, unit
    runner_throughput  optional number the runner reports as its own throughput
"""
import asyncio

import elastic_transport
import elasticsearch

from esrally import exceptions
from esrally.client.context import RequestContextHolder
from esrally.driver import runner as rally_runner
from esrally.track import params as rally_params

from sim import kernel

WORLD = None  # the world of the case currently running (one at a time per process)


class World:
    def __init__(self, clock):
        self.clock = clock
        self.tasks = {}  # task name -> task script (dict), see request_spec()
        self.request_log = []  # one dict per logical request
        self.wire_log = []  # one dict per wire request
        self.wire_cancelled = []  # wire requests that were cancelled before the response arrived
        self.param_calls = []  # (task, client_index, ordinal)
        self.created_clients = []
        self.faults = {}
        self.api_keys = []  # names of the API keys created through the synchronous client (create_api_key_per_client)
        self.api_keys_deleted = []
        self.cluster_down = False  # the cluster is gone: every call of a synchronous client fails with a connection error
        self.max_requests = 200_000  # a scenario that issues more requests than this never ends as far as the harness is concerned

    # ------------------------------------------------------------------ scripts
    def request_spec(self, task_name, client_index, ordinal):
        script = self.tasks[task_name]
        reqs = script["requests"]
        k = (client_index * script.get("stride", 7) + ordinal) % len(reqs)
        return reqs[k]


def install(world):
    global WORLD
    WORLD = world


# ---------------------------------------------------------------------------------------------- simulated ES
_TRACE = {}


def _trace_config():
    """
    The aiohttp trace configuration that the real ``EsClientFactory.create_async`` wires up (which aiohttp signal stamps the start and
    which ones the end of a request is Rally's code, not the endpoint's): the simulated endpoint raises aiohttp's signals and leaves it to
    these callbacks to reach ``RequestContextHolder.on_request_start/on_request_end``. Taken once per process from a real client object
    that never connects.
    """
    if "tc" not in _TRACE:
        from esrally.client import factory as real_factory  # (esrally.client.EsClientFactory itself is replaced by SimEsFactory in E1)

        es = real_factory.EsClientFactory([{"host": "127.0.0.1", "port": 19200}], {}).create_async(client_id=0)
        nodes = list(es.transport.node_pool.all())
        if len(nodes) != 1 or len(nodes[0].trace_configs) != 1:
            raise RuntimeError("sim: cannot find the trace configuration of the client that EsClientFactory.create_async built")
        _TRACE["es"] = es
        _TRACE["tc"] = nodes[0].trace_configs[0]
    return _TRACE["tc"]


async def _signal(name):
    # as aiohttp's Signal.send does: every registered callback, in order
    for callback in getattr(_trace_config(), name):
        await callback(None, None, None)


class SimEs(RequestContextHolder):
    def __init__(self, hosts=None, client_options=None, client_id=None, api_key=None):
        self.client_id = client_id
        self.closed = False

    async def wire(self, service_time, info, fault=None):
        """
        one HTTP request: aiohttp signals its start, then (for a response) the end when the headers are in and once more per body chunk.
        With ``fault`` (an exception object) no response arrives: after ``service_time`` aiohttp signals the exception and the client
        library raises ``fault``; the log entry travels on the exception as ``sim_entry``.
        """
        w = WORLD
        await _signal("on_request_start")
        entry = dict(info)
        entry.update(
            t_start=w.clock.now,
            pc_start=w.clock.perf_counter(),
            es_client_id=self.client_id,
            proc=kernel.current_proc.get(),
        )
        try:
            if fault is not None:
                await asyncio.sleep(service_time)
            elif service_time >= 1 / 64:
                # the real client's trace hooks signal the end of a request when the response headers are in and again for every chunk
                # of the body: the request ends with the last of these signals
                await asyncio.sleep(service_time * 0.75)
                await _signal("on_request_end")
                entry["pc_header_end"] = w.clock.perf_counter()
                await asyncio.sleep(service_time * 0.25)
            else:
                await asyncio.sleep(service_time)
                await _signal("on_request_end")
        except asyncio.CancelledError:
            # torn down while on the wire (a cancelled stream of a composite): sent, never answered
            entry.update(t_end=w.clock.now, pc_end=w.clock.perf_counter(), cancelled=True)
            w.wire_cancelled.append(entry)
            raise
        if fault is not None:
            # aiohttp usually signals the exception; in a corner case of client timeouts it signals the end of the request instead
            # (elastic/rally#1860, which is why Rally listens to both) - every other request without a response takes that route
            w.unanswered = getattr(w, "unanswered", 0) + 1
            await _signal("on_request_exception" if w.unanswered % 2 else "on_request_end")
            entry.update(t_end=w.clock.now, pc_end=w.clock.perf_counter(), wire_fault=type(fault).__name__)
            w.wire_log.append(entry)
            fault.sim_entry = entry
            raise fault
        await _signal("on_response_chunk_received")
        entry.update(t_end=w.clock.now, pc_end=w.clock.perf_counter())
        w.wire_log.append(entry)
        return entry

    async def close(self):
        self.closed = True

    # used by the synchronous side (Driver.create_es_clients / telemetry / API keys) – never called with static checks skipped
    is_serverless = False

    def _sync_call(self):
        if WORLD.cluster_down:
            raise elasticsearch.ConnectionError("sim: the cluster is gone")

    def info(self, *a, **kw):
        self._sync_call()
        return {"version": {"number": "8.0.0", "build_flavor": "default", "build_hash": "abc"}}

    @property
    def security(self):
        return _Security(self)


class _Security:
    def __init__(self, es):
        self.es = es

    def create_api_key(self, name=None, **kw):
        self.es._sync_call()  # pylint: disable=protected-access
        WORLD.api_keys.append(name)
        return {"id": f"key-{len(WORLD.api_keys)}", "name": name, "api_key": "sim-secret"}

    def invalidate_api_key(self, ids=None, **kw):
        self.es._sync_call()  # pylint: disable=protected-access
        WORLD.api_keys_deleted.extend(ids or [])
        return {"invalidated_api_keys": list(ids or []), "error_count": 0, "error_details": []}


class SimEsFactory:
    """stands in for esrally.client.EsClientFactory"""

    def __init__(self, hosts, client_options, distribution_version=None, distribution_flavor=None):
        self.hosts = hosts
        self.client_options = client_options

    def create(self):
        return SimEs(self.hosts, self.client_options, client_id=None)

    def create_async(self, api_key=None, client_id=None):
        es = SimEs(self.hosts, self.client_options, client_id=client_id, api_key=api_key)
        WORLD.created_clients.append(es)
        return es


def fault_exception(fault, message):
    """what user code raises: mostly something with a message, but a bare `assert` or `raise ValueError()` has none (str(e) == "")"""
    kind = fault.get("exc", "runtime")
    if kind == "assert-empty":
        return AssertionError()
    if kind == "value-empty":
        return ValueError()
    if kind == "timeout-empty":
        return TimeoutError()
    return RuntimeError(message)


# ---------------------------------------------------------------------------------------------- parameter source
class SimParamSource(rally_params.ParamSource):
    """
    registered under the name "sim-source". Operation params: {"task": <task name>}; the task script may bound the number of
    params() calls per client ("source-size"), in which case the source is finite and knows its progress.
    """

    def __init__(self, track, params, **kwargs):
        super().__init__(track, params, **kwargs)
        self.task_name = params["task"]
        self.client_index = None
        self.ordinal = 0
        script = WORLD.tasks[self.task_name]
        self._size = script.get("source-size")
        if self._size is not None:
            # only finite sources know their progress (like the bulk source)
            self.percent_completed_enabled = True

    def partition(self, partition_index, total_partitions):
        fault = WORLD.faults.get("param-source")
        if fault and fault.get("where") == "partition" and fault["task"] == self.task_name and fault["client"] == partition_index and "fired_at" not in fault:
            # raised while AsyncIoAdapter.run() sets the clients up, i.e. outside any AsyncExecutor
            fault["fired_at"] = WORLD.clock.now
            raise fault_exception(fault, "sim: parameter source could not be partitioned")
        p = SimParamSource(self.track, self._params, **self.kwargs)
        p.client_index = partition_index
        p.total = total_partitions
        if isinstance(p._size, (list, tuple)):  # uneven partitions (as the bulk source's: the last clients get the shorter slices)
            p._size = p._size[partition_index % len(p._size)]
        return p

    @property
    def infinite(self):
        return self._size is None

    def __getattr__(self, name):
        # `percent_completed` must only exist for finite sources (ScheduleHandle uses hasattr)
        if name == "percent_completed" and self.__dict__.get("_size") is not None:
            return min(1.0, self.ordinal / self._size)
        raise AttributeError(name)

    def params(self):
        w = WORLD
        fault = w.faults.get("param-source")
        if fault and fault.get("where", "params") == "params" and fault["task"] == self.task_name and fault["client"] == self.client_index and fault["ordinal"] == self.ordinal:
            fault["fired_at"] = w.clock.now
            raise fault_exception(fault, "sim: parameter source failed")
        if self._size is not None and self.ordinal >= self._size:
            raise StopIteration()
        w.param_calls.append((self.task_name, self.client_index, self.ordinal))
        p = {"task": self.task_name, "client": self.client_index, "ordinal": self.ordinal}
        self.ordinal += 1
        return p


# ---------------------------------------------------------------------------------------------- runner
def _api_error(status):
    meta = elastic_transport.ApiResponseMeta(
        status=status, http_version="1.1", headers=elastic_transport.HttpHeaders(), duration=0.0,
        node=elastic_transport.NodeConfig("http", "sim", 9200),
    )
    cls = {400: elasticsearch.BadRequestError, 404: elasticsearch.NotFoundError, 409: elasticsearch.ConflictError}.get(status, elasticsearch.ApiError)
    return cls(message="sim-error", meta=meta, body={"error": "sim"})


class SimRunner:
    """registered for operation type "sim-op" (and, with completion support, "sim-op-completing")"""

    def __init__(self, with_completion=False):
        self._with_completion = with_completion
        if with_completion:
            self.completed = False
            self.percent_completed = 0.0

    async def __aenter__(self):
        return self

    async def __aexit__(self, exc_type, exc_val, exc_tb):
        return False

    def __repr__(self):
        return "sim-op"

    def _update_completion(self, task, ordinal):
        if self._with_completion:
            total = WORLD.tasks[task].get("runner-completes-after")
            if total is not None:
                self.percent_completed = min(1.0, (ordinal + 1) / total)
                self.completed = (ordinal + 1) >= total

    async def __call__(self, es, params):
        w = WORLD
        task, client, ordinal = params["task"], params["client"], params["ordinal"]
        spec = w.request_spec(task, client, ordinal)
        entry = {
            "task": task,
            "client": client,
            "ordinal": ordinal,
            "es_client_id": es.client_id,
            "t_enter": w.clock.now,
            "pc_enter": w.clock.perf_counter(),
            "proc": kernel.current_proc.get(),
            "outcome": spec.get("outcome", "ok"),
        }
        w.request_log.append(entry)
        if len(w.request_log) > w.max_requests:
            raise kernel.HorizonExceeded(f"more than {w.max_requests} requests")
        fault = w.faults.get("runner")
        if fault and fault["task"] == task and fault["client"] == client and fault["ordinal"] == ordinal:
            fault["fired_at"] = w.clock.now
            if fault.get("cluster_down"):
                w.cluster_down = True  # the request fails because the cluster has died: nobody reaches it any more
            spec = dict(spec, outcome=fault["outcome"])
            entry["outcome"] = fault["outcome"]
        if spec.get("pre"):
            await asyncio.sleep(spec["pre"])
        wires = []
        nested = spec.get("nested")
        def failed_on_the_wire():
            entry["wire"] = [(x["pc_start"], x["pc_end"]) for x in wires]
            entry["t_wire_start"] = min(x["t_start"] for x in wires)
            entry["t_wire_end"] = max(x["t_end"] for x in wires)
            entry["t_exit"] = w.clock.now
            entry["pc_exit"] = w.clock.perf_counter()
            if not nested:
                self._update_completion(task, ordinal)  # (as for the other failing outcomes: the runner keeps track of its progress)

        for k, (gap, service) in enumerate(spec["wire"]):
            if gap:
                await asyncio.sleep(gap)
            last = k == len(spec["wire"]) - 1
            # a timeout / connection error is no response: the last wire request of the logical request ends with an exception inside
            # the client (aiohttp signals on_request_exception instead of the end of a response)
            wire_fault = _exception_for(spec.get("outcome", "ok")) if last and spec.get("outcome") in WIRE_LEVEL_OUTCOMES else None
            info = {"task": task, "client": client, "ordinal": ordinal}
            if not nested:
                try:
                    wires.append(await es.wire(service, info, fault=wire_fault))
                except elastic_transport.TransportError as e:
                    if e is not wire_fault:
                        raise
                    wires.append(e.sim_entry)
                    failed_on_the_wire()
                    raise
                continue
            # as runner.Composite does for its sub-requests: every wire request runs in a nested request context of its own; a failing
            # outcome is raised by the last sub-request, i.e. its nested context is left by an exception
            with es.new_request_context():
                try:
                    wires.append(await es.wire(service, info, fault=wire_fault))
                except elastic_transport.TransportError as e:
                    if e is not wire_fault:
                        raise
                    wires.append(e.sim_entry)
                    failed_on_the_wire()
                    raise
                failure = _exception_for(spec.get("outcome", "ok")) if last else None
                if failure is not None:
                    failed_on_the_wire()
                    raise failure
        entry["wire"] = [(x["pc_start"], x["pc_end"]) for x in wires]
        entry["t_wire_start"] = min(x["t_start"] for x in wires)
        entry["t_wire_end"] = max(x["t_end"] for x in wires)
        if spec.get("post"):
            await asyncio.sleep(spec["post"])
        entry["t_exit"] = w.clock.now
        entry["pc_exit"] = w.clock.perf_counter()
        self._update_completion(task, ordinal)
        outcome = spec.get("outcome", "ok")
        weight, unit = spec.get("weight", 1), spec.get("unit", "ops")
        if outcome == "ok":
            shape = spec.get("shape", "dict")
            if shape == "tuple":
                return weight, unit
            if shape == "none":
                return None
            if shape == "dict-plain":
                return {"some": "meta"}
            d = {"weight": weight, "unit": unit, "success": True}
            if spec.get("runner_throughput") is not None:
                d["throughput"] = spec["runner_throughput"]
            if spec.get("deps"):
                # what runner.Composite returns: one timing per sub-request
                d["dependent_timing"] = [
                    {
                        "success": True,
                        "dependent_timing": {
                            "operation": f"{task}-sub{i}",
                            "operation-type": "sim-sub",
                            "absolute_time": kernel.EPOCH + x["t_start"],
                            "request_start": x["pc_start"],
                            "request_end": x["pc_end"],
                            "service_time": x["pc_end"] - x["pc_start"],
                        },
                    }
                    for i, x in enumerate(wires)
                ]
            return d
        if outcome == "fail-dict":
            return {"weight": weight, "unit": unit, "success": False, "error-type": "sim"}
        failure = _exception_for(outcome)
        if failure is not None:
            raise failure
        raise AssertionError(f"unknown outcome {outcome}")


WIRE_LEVEL_OUTCOMES = ("timeout", "conn-error")


def _exception_for(outcome):
    if outcome == "api-4xx":
        return _api_error(400)
    if outcome == "api-5xx":
        return _api_error(503)
    if outcome == "timeout":
        return elasticsearch.ConnectionTimeout("sim timeout")
    if outcome == "conn-error":
        return elasticsearch.ConnectionError("sim connection refused")
    if outcome == "raise-key":
        return KeyError("sim-missing-param")
    if outcome == "raise-runtime":
        return RuntimeError("sim runner failure")
    if outcome == "raise-assert":
        return exceptions.RallyAssertionError("sim assertion failed")
    return None


_registered = False


def register():
    """idempotent registration of the scripted runner and parameter source in Rally's registries"""
    global _registered
    rally_runner.register_runner("sim-op", SimRunner(), async_runner=True)
    if not _registered:
        rally_params.register_param_source_for_name("sim-source", SimParamSource)
        _registered = True


def register_completing_runner():
    """a fresh instance per case: completion state lives in the runner object"""
    rally_runner.register_runner("sim-op-completing", SimRunner(with_completion=True), async_runner=True)
