"""
E1 (loop only): runs ONE task with C clients through the real AsyncIoAdapter.run() / AsyncExecutor / schedule_for /
ScheduleHandle / schedulers / Sampler / request contexts on a virtual-time loop and returns everything observable.

Task case (JSON):
  clients            C (1..4)
  global_offset      index of the task's first client among all clients of the element (for ramp-up), total_clients
  via_allocator      None | +k / -k: the allocations are produced by the real Allocator for a schedule in which an unrelated element that is
                     k clients wider than the task's element comes before (+) / after (-) it
  warmup_iterations / iterations / warmup_time_period / time_period / ramp_up   (None = absent)
  throughput         None | {"kind": "number"|"string"|"interval", "value": x, "unit": "ops/s"|"docs/s"...}
  schedule           None | "deterministic" | "poisson"
  op_type            "sim-op" | "sim-op-completing"
  source_size        None | n | [n0, n1, ...]   (finite parameter source: n params() calls per client / n_i for client i)
  completes_parent   the task is the completed-by task of its parallel element: its clients do not stop when "complete" is set (the
                     first of them to finish sets it itself), they all run to their own end
  runner_completes_after  None | n
  requests           list of request specs (see sim.world), looked up by (client*stride + ordinal) % len
  stride
  seed               pins random (poisson)
  perf_offset        perf_counter offset of the simulated process
  on_error           "continue" | "abort"
"""
import asyncio
import random
import threading

from esrally import config, metrics, track
from esrally.driver import driver
from esrally.utils import opts

from sim import kernel, world


def base_config(on_error="continue", test_mode=False):
    cfg = config.Config()
    cfg.add(config.Scope.application, "driver", "profiling", False)
    cfg.add(config.Scope.application, "driver", "assertions", False)
    cfg.add(config.Scope.application, "driver", "on.error", on_error)
    hosts = opts.TargetHosts("127.0.0.1:9200")
    cfg.add(config.Scope.application, "client", "hosts", hosts)
    cfg.add(config.Scope.application, "client", "options", opts.ClientOptions("timeout:60", target_hosts=hosts))
    cfg.add(config.Scope.application, "mechanic", "distribution.version", "8.0.0")
    cfg.add(config.Scope.application, "mechanic", "distribution.flavor", "default")
    cfg.add(config.Scope.application, "track", "test.mode.enabled", test_mode)
    return cfg


class FixedIntervalScheduler:
    """a custom ("regular": before_request / after_request / next) scheduler as a track plugin registers it: one request every
    <sim-interval> seconds per client; the task that uses it needs no target throughput (scheduler.run_unthrottled)"""

    name = "sim-fixed-interval"

    def __init__(self, task):
        self.interval = task.params["sim-interval"]
        self.first = True

    def before_request(self, now):
        pass

    def after_request(self, now, weight, unit, request_meta_data):
        pass

    def next(self, current):
        if self.first:
            self.first = False
            return 0
        return current + self.interval


def register_custom_scheduler():
    from esrally.driver import scheduler  # pylint: disable=import-outside-toplevel

    try:
        scheduler.remove_scheduler(FixedIntervalScheduler.name)
    except KeyError:
        pass
    scheduler.register_scheduler(FixedIntervalScheduler.name, FixedIntervalScheduler)


def build_task(spec, name="t"):
    params = {}
    if spec.get("custom_interval") is not None:
        params["sim-interval"] = spec["custom_interval"]
    tp = spec.get("throughput")
    if tp is not None:
        if tp["kind"] == "number":
            params["target-throughput"] = tp["value"]
        elif tp["kind"] == "string":
            params["target-throughput"] = throughput_text(tp)
        else:
            params["target-interval"] = tp["value"]
    op = track.Operation(name + "-op", spec.get("op_type", "sim-op"), params={"task": name}, param_source="sim-source")
    return track.Task(
        name,
        op,
        warmup_iterations=spec.get("warmup_iterations"),
        iterations=spec.get("iterations"),
        warmup_time_period=spec.get("warmup_time_period"),
        time_period=spec.get("time_period"),
        ramp_up_time_period=spec.get("ramp_up"),
        clients=spec["clients"],
        completes_parent=bool(spec.get("completes_parent")),
        schedule=spec.get("schedule"),
        params=params,
    )


def task_script(spec):
    return {
        "requests": spec["requests"],
        "stride": spec.get("stride", 7),
        "source-size": spec.get("source_size"),
        "runner-completes-after": spec.get("runner_completes_after"),
    }


class RecordingHandle:
    """transparent proxy around the real ScheduleHandle that records what the schedule hands out, and when"""

    def __init__(self, real, sink, clock, key):
        self._real = real
        self._sink = sink
        self._clock = clock
        self._key = key

    def __getattr__(self, name):
        return getattr(self._real, name)

    def start(self):
        self._sink.setdefault("start", {})[self._key] = (self._clock.now, self._clock.perf_counter())
        return self._real.start()

    async def __call__(self):
        out = self._sink.setdefault("handed", {}).setdefault(self._key, [])
        async for item in self._real():
            expected, sample_type, pct, _runner, params = item
            out.append(
                {
                    "s": expected,
                    "sample_type": int(sample_type),
                    "pct": pct,
                    "t": self._clock.now,
                    "pc": self._clock.perf_counter(),
                    "ordinal": params.get("ordinal"),
                }
            )
            yield item


def throughput_text(tp):
    """the target throughput as a track author may write it (all of these match Rally's documented "<number> <unit>/s")"""
    value, style = tp["value"], tp.get("text", "plain")
    number = str(value)
    if style == "leading-dot" and 0 < value < 1:
        number = str(float(value))[1:]  # .5
    elif style == "two-decimals":
        number = f"{value:.2f}"  # 0.50, 4.00
    elif style == "leading-zero":
        number = "0" + number  # 00.5, 04
    sep = "\t" if style == "tab" else " "
    return f"{number}{sep}{tp['unit']}"


def run_task(spec, complete_at=None, cancel_at=None):
    """
    returns dict(samples=[...], requests=[...], wires=[...], handed={client: [...]}, error=None|exception, t_end=virtual end)
    """
    # virtual time is free; what bounds a run is the number of requests (see World.max_requests)
    clock = kernel.VirtualClock(horizon=spec.get("horizon", 1e12))
    clock.offsets["worker"] = spec.get("perf_offset", 0.0)
    w = world.World(clock)
    world.install(w)
    world.register()
    if spec.get("op_type") == "sim-op-completing":
        world.register_completing_runner()
    if spec.get("schedule") == FixedIntervalScheduler.name:
        register_custom_scheduler()
    task = build_task(spec)
    w.tasks[task.name] = task_script(spec)
    random.seed(spec.get("seed", 0))
    cfg = base_config(spec.get("on_error", "continue"))
    t = track.Track("sim-track", challenges=[track.Challenge("c", default=True, schedule=[task])])
    total_clients = spec.get("total_clients", spec["clients"] + spec.get("global_offset", 0))
    allocs = []
    contexts = {}
    if spec.get("via_allocator") is not None:
        # the task allocations come out of the real Allocator: the task sits in a parallel element (siblings before / after it make up
        # global_offset and total_clients) of a schedule that also has an unrelated, wider element before or after it
        goff = spec.get("global_offset", 0)
        rest = total_clients - goff - spec["clients"]
        sibling_spec = dict(spec, throughput=None, op_type="sim-op")
        members = ([build_task(dict(sibling_spec, clients=goff), name="sib-before")] if goff else []) + [task]
        members += [build_task(dict(sibling_spec, clients=rest), name="sib-after")] if rest else []
        if spec.get("allocator_cap") and goff:
            # over-committed: the element gets fewer clients than its tasks ask for, ours runs in a later round (each of its clients on a
            # client id of its own, which is not its global client index)
            element = track.Parallel(members, clients=max(goff, spec["clients"]))
        else:
            element = track.Parallel(members) if len(members) > 1 else task
        wide = track.Task("wide", track.Operation("wide-op", "sim-op", params={"task": "wide"}, param_source="sim-source"),
                          iterations=1, clients=total_clients + abs(spec["via_allocator"]))
        schedule = [wide, element] if spec["via_allocator"] > 0 else [element, wide]
        if spec.get("allocator_cap") and goff:
            # (the Allocator wraps client indexes at the widest element of the schedule: no wider element here, a narrower one instead)
            narrow = track.Task("narrow", wide.operation, iterations=1, clients=1)
            schedule = [narrow, element] if spec["via_allocator"] > 0 else [element, narrow]
        for row, entries in enumerate(driver.Allocator(schedule).allocations):
            for entry in entries:
                for ta in (entry if isinstance(entry, list) else [entry]):
                    if getattr(ta, "task", None) is task:
                        allocs.append(driver.ClientAllocation(row, ta))
                        contexts[row] = driver.ClientContext(client_id=row, parent_worker_id=0)
        allocs.sort(key=lambda a: a.task.client_index_in_task)
    else:
        for i in range(spec["clients"]):
            gid = spec.get("global_offset", 0) + i
            allocs.append(driver.ClientAllocation(gid, driver.TaskAllocation(task, i, gid, total_clients)))
            contexts[gid] = driver.ClientContext(client_id=gid, parent_worker_id=0)
    cancel, complete = threading.Event(), threading.Event()
    sink = {}
    real_schedule_for = driver.schedule_for

    def recording_schedule_for(task_allocation, parameter_source):
        h = real_schedule_for(task_allocation, parameter_source)
        return RecordingHandle(h, sink, clock, task_allocation.client_index_in_task)

    result = {"error": None}
    patches = kernel.time_patches(clock) + [
        (driver.client, "EsClientFactory", world.SimEsFactory),
        (driver, "schedule_for", recording_schedule_for),
    ]
    with kernel.patched(*patches):
        token = kernel.current_proc.set("worker")
        try:
            sampler = driver.Sampler(start_timestamp=clock.perf_counter())
            adapter = driver.AsyncIoAdapter(cfg, t, allocs, sampler, cancel, complete, spec.get("on_error", "continue"), contexts, 0)

            async def main():
                loop = asyncio.get_running_loop()
                # the moment the worker starts the task; a client whose executor never starts its schedule handle explicitly (but, say,
                # lets the schedule generator do it at the first iteration, i.e. after the ramp-up wait) still started the task here
                result["launched"] = (clock.now, clock.perf_counter())
                if complete_at is not None:
                    loop.call_at(complete_at, complete.set)
                if cancel_at is not None:
                    loop.call_at(cancel_at, cancel.set)
                await adapter.run()

            try:
                kernel.run_virtual(clock, main())
            except (kernel.Quiescent, kernel.HorizonExceeded) as e:
                result["error"] = e
                result["hung"] = True
            except Exception as e:  # pylint: disable=broad-except
                result["error"] = e
            result["t_end"] = clock.now
            result["samples"] = sampler.samples
        finally:
            kernel.current_proc.reset(token)
    result["requests"] = w.request_log
    result["wires"] = w.wire_log
    result["handed"] = sink.get("handed", {})
    result["starts"] = dict(sink.get("start", {}))
    for a in allocs:
        result["starts"].setdefault(a.task.client_index_in_task, result.get("launched"))
    result["param_calls"] = w.param_calls
    result["client_ids"] = {a.task.client_index_in_task: a.client_id for a in allocs}
    result["task"] = task
    result["clients_closed"] = all(c.closed for c in w.created_clients)
    return result
