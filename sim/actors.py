"""
E1 actor runtime: runs real Thespian actor classes (Rally's RallyActor subclasses) single-process on the virtual loop.

Semantics rendered from thespian/system/actorManager.py (multiproc bases, what Rally uses in production):
  * one FIFO channel per (sender, receiver); every message is pickled at send and unpickled at delivery (process boundary);
  * delivery time = max(now + drawn delay, delivery time of the previous message on the same channel);
  * an Exception escaping receiveMessage => immediate retry with a deep copy; a second exception => PoisonMessage(msg, traceback)
    to the sender (not for PoisonMessage itself); exceptions on ActorExitRequest are ignored;
  * ActorExitRequest: handler runs, then the actor is "exiting": children get ActorExitRequest(recursive), the actor says goodbye
    (ChildActorExited to its parent) once all children have exited; while exiting only ActorExitRequest/ChildActorExited are handled;
  * ChildActorExited is delivered to the parent's handler, then the child is forgotten;
  * messages to actors that have exited are dropped (dead letters); a message whose target could not be created (no actor system
    satisfies the requirements) comes back as PoisonMessage and the parent gets ChildActorExited;
  * a message an actor sends to itself is not delayed (it never leaves the process);
  * wakeupAfter => WakeupMessage(delay, payload) from the actor to itself after delay (+ drawn lateness);
  * createActor places the child on the first host whose capabilities satisfy actorSystemCapabilityCheck (checked on the coordinator
    first, like the convention leader does).
Every actor lives in its own simulated process (name = address); `kernel.current_proc` is set while its handler (or an executor
task it started) runs, which selects the process' perf_counter offset.
"""
import contextvars
import copy
import datetime
import pickle
import traceback
from collections import deque

import thespian.actors as ta

from sim import kernel


class ActorEvent:
    """callable wrapper that marks loop callbacks belonging to the actor runtime (deliveries, wake-ups)"""

    __slots__ = ("fn", "args")

    def __init__(self, fn, *args):
        self.fn = fn
        self.args = args

    def __call__(self):
        return self.fn(*self.args)


def is_actor_event(handle):
    return isinstance(handle._callback, ActorEvent)  # pylint: disable=protected-access


class SimFuture:
    """what Worker / TaskExecutionActor expect from concurrent.futures.Future, backed by an asyncio task or a timer"""

    def __init__(self, runtime):
        self._rt = runtime
        self._done = False
        self._exc = None
        self._result = None
        self.task = None

    def _finish(self, result=None, exc=None):
        self._done = True
        self._exc = exc
        self._result = result

    def done(self):
        self._rt.preemption_point("future.done")
        return self._done

    def running(self):
        return not self._done

    def exception(self, timeout=None):
        if not self._done:
            raise TimeoutError()
        return self._exc

    def result(self, timeout=None):
        if not self._done:
            raise kernel.BlockingCall("Future.result() on an unfinished executor would block the actor")
        if self._exc is not None:
            raise self._exc
        return self._result


class SimPool:
    """stands in for ThreadPoolExecutor(max_workers=1) of Worker and TaskExecutionActor"""

    def __init__(self, runtime, proc, sync_duration=None):
        self.rt = runtime
        self.proc = proc
        self.sync_duration = sync_duration
        self.shut_down = False
        self.submitted = 0

    def submit(self, fn, *args, **kwargs):
        rt = self.rt
        fut = SimFuture(rt)
        self.submitted += 1
        run = getattr(fn, "run", None)
        ctx = contextvars.copy_context()
        if run is not None and hasattr(fn, "task_allocations"):
            # AsyncIoAdapter: its coroutine runs as a task of the shared virtual loop, in the worker's process context
            def start():
                kernel.current_proc.set(self.proc)
                t = rt.loop.create_task(fn.run())

                def finished(task):
                    if task.cancelled():
                        fut._finish(exc=RuntimeError("executor task cancelled"))
                    elif task.exception() is not None:
                        fut._finish(exc=task.exception())
                    else:
                        fut._finish(result=task.result())

                t.add_done_callback(finished)
                fut.task = t

            ctx.run(start)
        else:
            # synchronous function (track preparation task): takes a drawn amount of virtual time
            duration = self.sync_duration() if self.sync_duration else 0.0

            def call():
                kernel.current_proc.set(self.proc)
                try:
                    fut._finish(result=fn(*args, **kwargs))
                except Exception as e:  # pylint: disable=broad-except
                    fut._finish(exc=e)

            rt.loop.call_later(duration, lambda: ctx.run(call))
        return fut

    def shutdown(self, wait=True):
        self.shut_down = True


class _Ref:
    """the `_myRef` of an actor instance"""

    def __init__(self, runtime, rec):
        self.rt = runtime
        self.rec = rec
        self.address = rec.address
        self.globalName = None

    def actor_send(self, target, msg):
        self.rt.send(self.rec.address, target, msg)

    def wakeupAfter(self, period, payload=None):
        self.rt.wakeup_after(self.rec, period, payload)

    def createActor(self, actor_class, requirements=None, global_name=None, source_hash=None):
        return self.rt.create_actor(actor_class, parent=self.rec, requirements=requirements)

    def notifyOnSystemRegistrationChanges(self, address, enable=True):
        self.rt.register_convention_listener(self.rec, enable)

    def handleDeadLetters(self, *a, **kw):
        pass


class ActorRecord:
    def __init__(self, address, instance, parent, host, cls):
        self.address = address
        self.instance = instance
        self.parent = parent  # ActorRecord or None (created by the system / external)
        self.children = []
        self.host = host
        self.cls = cls
        self.alive = True
        self.exiting = False
        self.handled = 0

    @property
    def proc(self):
        return str(self.address)


class Host:
    def __init__(self, name, capabilities):
        self.name = name
        self.capabilities = capabilities
        self.present = True


class SimRuntime:
    EXTERNAL = "external"

    def __init__(self, loop, clock, delays=None, wake_lateness=None, on_actor_created=None):
        self.loop = loop
        self.clock = clock
        self.hosts = []
        self.actors = {}  # str(address) -> ActorRecord
        self.channels = {}  # (sender str, target str) -> deque of (msg bytes, sender address)
        self.channel_last = {}  # (sender, target) -> last delivery instant
        self.delays = delays or (lambda kind, sender, target, msg: 0.0)
        self.wake_lateness = wake_lateness or (lambda rec: 0.0)
        self.on_actor_created = on_actor_created
        self.external_address = ta.ActorAddress("external")
        self.external_inbox = []  # (virtual time, msg, sender address)
        self.message_log = []  # (t_sent, t_delivered or None, sender, target, type name)
        self.dead_letters = []
        self.send_log = []  # in sending order: (t_sent, sender, target, type name)
        self.convention_listeners = []
        self.counter = 0
        self.failures = []  # harness-level notes (second exceptions etc.)
        self.kill_log = []
        self.before_delivery = None  # hook(rec, msg, sender) -> None (fault injection)
        self.stats = {"messages": 0, "wakeups": 0, "retries": 0, "poison": 0}

    preempt = None  # callable(what) -> seconds of executor work to let happen at a pre-emption point (0 = none)

    def preemption_point(self, what):
        """a linearisation point of state shared between an actor handler and its executor thread"""
        if self.preempt is None:
            return
        window = self.preempt(what)
        if window and window > 0:
            self.stats["preemptions"] = self.stats.get("preemptions", 0) + 1
            ran = self.loop.run_executor_work(self.clock.now + window, is_actor_event)
            if ran:
                self.stats["preemptions_with_work"] = self.stats.get("preemptions_with_work", 0) + 1

    # ------------------------------------------------------------------ hosts
    def add_host(self, name, capabilities):
        h = Host(name, dict(capabilities))
        self.hosts.append(h)
        return h

    def _find_host(self, actor_class, requirements, preferred=None):
        requirements = requirements or {}
        check = getattr(actor_class, "actorSystemCapabilityCheck", None)
        order = list(self.hosts)
        if preferred is not None and preferred in order:
            order.remove(preferred)
            order.insert(0, preferred)
        for h in order:
            if not h.present:
                continue
            if check is None or check(h.capabilities, requirements):
                return h
        return None

    # ------------------------------------------------------------------ actors
    def create_actor(self, actor_class, parent=None, requirements=None):
        self.counter += 1
        address = ta.ActorAddress(f"{actor_class.__name__}-{self.counter}")
        host = self._find_host(actor_class, requirements, preferred=parent.host if parent is not None else None)
        if host is None:
            # creation fails: messages sent to the address bounce, the parent learns that the child is gone
            rec = ActorRecord(address, None, parent, None, actor_class)
            rec.alive = False
            rec.creation_failed = True
            self.actors[str(address)] = rec
            if parent is not None:
                self._enqueue("system", parent.address, ta.ChildActorExited(address), self.external_address, delay=0.0)
            return address
        token = kernel.current_proc.set(str(address))
        try:
            instance = actor_class()
        finally:
            kernel.current_proc.reset(token)
        rec = ActorRecord(address, instance, parent, host, actor_class)
        instance._myRef = _Ref(self, rec)  # pylint: disable=protected-access
        self.actors[str(address)] = rec
        if parent is not None:
            parent.children.append(rec)
        if self.on_actor_created:
            self.on_actor_created(rec)
        return address

    def record(self, address):
        return self.actors.get(str(address))

    def instances(self, cls):
        return [r for r in self.actors.values() if r.instance is not None and isinstance(r.instance, cls)]

    # ------------------------------------------------------------------ sending
    def send(self, sender_addr, target_addr, msg, kind="msg"):
        if str(sender_addr) == str(target_addr):
            # a message to oneself never leaves the process: Thespian queues it locally, it is handled on the next turn of the actor
            delay = 0.0
        else:
            delay = self.delays(kind, sender_addr, target_addr, msg)
        self._enqueue(str(sender_addr), target_addr, msg, sender_addr, delay)

    def tell(self, target_addr, msg):
        """message from the outside world (race control's ActorSystem.tell)"""
        self.send(self.external_address, target_addr, msg, kind="external")

    def _enqueue(self, sender_key, target_addr, msg, sender_addr, delay):
        try:
            blob = pickle.dumps(msg)
        except Exception as e:  # pylint: disable=broad-except
            raise kernel.BlockingCall(f"message {type(msg).__name__} cannot be pickled: {e}") from e
        key = (sender_key, str(target_addr))
        at = max(self.clock.now + delay, self.channel_last.get(key, 0.0))
        self.channel_last[key] = at
        self.channels.setdefault(key, deque()).append((blob, sender_addr, self.clock.now, type(msg).__name__))
        self.stats["messages"] += 1
        self.send_log.append((self.clock.now, sender_key, str(target_addr), type(msg).__name__))
        if self.on_send is not None:
            self.on_send(type(msg).__name__)
        self.loop.call_at(at, ActorEvent(self._pump, key))

    def _pump(self, key):
        blob, sender_addr, t_sent, tname = self.channels[key].popleft()
        target_key = key[1]
        msg = pickle.loads(blob)
        self.message_log.append((t_sent, self.clock.now, key[0], target_key, tname))
        if target_key == str(self.external_address):
            self.external_inbox.append((self.clock.now, msg, sender_addr))
            if self.on_external:
                self.on_external(msg, sender_addr)
            return
        rec = self.actors.get(target_key)
        if rec is None or not rec.alive:
            if rec is not None and getattr(rec, "creation_failed", False) and not isinstance(msg, ta.PoisonMessage):
                # undeliverable because the actor never came to life: returned to the sender as poison
                self._enqueue("system", sender_addr, ta.PoisonMessage(msg, "actor could not be created"), rec.address, 0.0)
            else:
                self.dead_letters.append((self.clock.now, target_key, tname))
            return
        self._deliver(rec, msg, sender_addr)

    on_external = None
    on_send = None

    # ------------------------------------------------------------------ delivery (actorManager._handleOneMessage)
    def _deliver(self, rec, msg, sender_addr):
        if self.before_delivery is not None:
            if self.before_delivery(rec, msg, sender_addr) == "drop":
                return
            if not rec.alive:
                return
        is_exit = isinstance(msg, ta.ActorExitRequest)
        is_child_exit = isinstance(msg, ta.ChildActorExited)
        if not rec.exiting or is_exit or is_child_exit:
            rec.handled += 1
            ctx = contextvars.copy_context()

            def run(m):
                kernel.current_proc.set(rec.proc)
                return rec.instance.receiveMessage(m, sender_addr)

            try:
                ctx.run(run, msg)
            except (kernel.BlockingCall, kernel.Quiescent, kernel.HorizonExceeded):
                raise
            except Exception:  # pylint: disable=broad-except
                if not is_exit:
                    self.stats["retries"] += 1
                    try:
                        ctx.run(run, copy.deepcopy(msg))
                    except (kernel.BlockingCall, kernel.Quiescent, kernel.HorizonExceeded):
                        raise
                    except Exception:  # pylint: disable=broad-except
                        tb = traceback.format_exc()
                        self.failures.append((self.clock.now, rec.proc, type(msg).__name__, tb))
                        if not isinstance(msg, ta.PoisonMessage):
                            self.stats["poison"] += 1
                            self.send(rec.address, sender_addr, ta.PoisonMessage(msg, tb), kind="poison")
        if is_exit:
            self._shutdown_actor(rec)
        if is_child_exit:
            self._child_exited(rec, msg.childAddress)

    def _shutdown_actor(self, rec):
        if rec.exiting:
            return
        rec.exiting = True
        live_children = [c for c in rec.children if c.alive]
        if live_children:
            for c in live_children:
                self.send(rec.address, c.address, ta.ActorExitRequest(recursive=True), kind="exit")
        else:
            self._say_goodbye(rec)

    def _say_goodbye(self, rec):
        rec.alive = False
        if rec.parent is not None:
            self.send(rec.address, rec.parent.address, ta.ChildActorExited(rec.address), kind="exit")

    def _child_exited(self, rec, child_addr):
        rec.children = [c for c in rec.children if str(c.address) != str(child_addr)]
        if rec.exiting and rec.alive and not [c for c in rec.children if c.alive]:
            self._say_goodbye(rec)

    # ------------------------------------------------------------------ faults
    def kill(self, rec):
        """the OS process of an actor dies: no handler runs, the parent is told, children are asked to exit"""
        if not rec.alive:
            return
        self.kill_log.append((self.clock.now, rec.proc))
        rec.alive = False
        rec.exiting = True
        for c in rec.children:
            if c.alive:
                self._enqueue("system", c.address, ta.ActorExitRequest(recursive=True), self.external_address, 0.0)
        if rec.parent is not None:
            self._enqueue("system", rec.parent.address, ta.ChildActorExited(rec.address), self.external_address, self.delays("exit", rec.address, rec.parent.address, None))
        # executor tasks of a dead process die with it
        pool = getattr(rec.instance, "pool", None)
        fut = getattr(rec.instance, "executor_future", None)
        if fut is not None and getattr(fut, "task", None) is not None and not fut.task.done():
            fut.task.cancel()
        _ = pool

    # ------------------------------------------------------------------ wake-ups
    def wakeup_after(self, rec, period, payload):
        if isinstance(period, datetime.timedelta):
            seconds = period.total_seconds()
        else:
            seconds = float(period)
        seconds = max(seconds, 0.0)
        late = self.wake_lateness(rec)
        self.stats["wakeups"] += 1
        delay_td = period if isinstance(period, datetime.timedelta) else datetime.timedelta(seconds=seconds)

        def fire():
            if rec.alive:
                self.message_log.append((self.clock.now, self.clock.now, rec.proc, rec.proc, "WakeupMessage"))
                self._deliver(rec, ta.WakeupMessage(delay_td, payload), rec.address)

        self.loop.call_at(self.clock.now + seconds + late, ActorEvent(fire))

    # ------------------------------------------------------------------ convention (remote daemons)
    def register_convention_listener(self, rec, enable):
        if enable:
            self.convention_listeners.append(rec)
            # Thespian informs a new listener about the remote systems that are already registered
            for h in self.hosts[1:]:
                if h.present:
                    self._enqueue("system", rec.address, ta.ActorSystemConventionUpdate(ta.ActorAddress(f"admin-{h.name}"), dict(h.capabilities), True), self.external_address, 0.0)
        else:
            self.convention_listeners = [r for r in self.convention_listeners if r is not rec]

    def host_joins(self, host):
        host.present = True
        for rec in self.convention_listeners:
            if rec.alive:
                self._enqueue("system", rec.address, ta.ActorSystemConventionUpdate(ta.ActorAddress(f"admin-{host.name}"), dict(host.capabilities), True), self.external_address, 0.0)

    def host_leaves(self, host):
        host.present = False
        for rec in self.convention_listeners:
            if rec.alive:
                self._enqueue("system", rec.address, ta.ActorSystemConventionUpdate(ta.ActorAddress(f"admin-{host.name}"), dict(host.capabilities), False), self.external_address, 0.0)
        for rec in list(self.actors.values()):
            if rec.alive and rec.host is host:
                self.kill(rec)
