"""
E1: a whole race on the simulator.

run_race(case) builds a track from the case's schedule, a simulated cluster of load-driver hosts, the real DriverActor (which
creates the real TrackPreparationActor / TaskExecutionActor / Worker actors), plays race control from the outside
(PrepareBenchmark -> StartBenchmark, then ActorExitRequest after BenchmarkComplete) and returns everything observable.

Race case (JSON):
  schedule     list of elements. leaf = {"name", "clients", "mode": "iterations"|"time", "warmup_iterations"|None, "iterations",
               "warmup_time_period"|None, "time_period", "throughput": None|{"kind","value","unit"}, "requests": [request specs],
               "stride", "completes_parent": bool, "any_completes_parent": bool}
               parallel = {"parallel": [leaf, ...], "clients": cap | None, "completed_by": name | "any" | None}
  hosts        list of core counts; one entry = only "localhost"; several = ip addresses, the first being the coordinator's
  test_mode    bool (wake-up 0.5 s, no waiting period between tasks)
  offsets      list of perf_counter offsets handed to worker processes in creation order (cycled)
  delays       list of indexes into DELAYS, consumed one per message (cycled)
  wake_late    list of indexes into WAKE_LATE, consumed one per wake-up (cycled)
  prep_tasks   list of durations of track preparation tasks (scripted processor)
  queue_size   None | int      downsample  None | int
  preempt      None | list of indexes into PREEMPT, consumed one per pre-emption point (Future.done() in a handler), cycled
  quiet        bool
  fault        None | {...}  (see checks/c09)
"""
import asyncio
import random

import thespian.actors as ta

import esrally.log
import esrally.track
import esrally.utils.console
import esrally.utils.net
from esrally import actor as rally_actor
from esrally import config, metrics, track
from esrally.driver import driver
from esrally.utils import opts

from sim import actors, kernel, world

DELAYS = [0.0, 0.0, 1 / 1024, 1 / 1024, 0.25, 0.3125, 2.0, 7.0]
WAKE_LATE = [0.0, 0.0, 0.0, 1 / 1024, 0.125]
# pre-emption windows: how much executor-thread work may happen while an actor handler sits at a shared-state read
PREEMPT = [0.0, 0.0, 1 / 1024, 1 / 8, 1.0]


class Progress:
    def __init__(self):
        self.lines = []

    def print(self, message, progress):
        self.lines.append((message, progress))

    def finish(self):
        self.lines.append(("<finish>", ""))


def build_leaf(spec):
    params = {}
    tp = spec.get("throughput")
    if tp is not None:
        if tp["kind"] == "number":
            params["target-throughput"] = tp["value"]
        elif tp["kind"] == "string":
            params["target-throughput"] = f"{tp['value']} {tp['unit']}"
        else:
            params["target-interval"] = tp["value"]
    op = track.Operation(spec["name"] + "-op", spec.get("op_type", "sim-op"), params={"task": spec["name"]}, param_source="sim-source")
    return track.Task(
        spec["name"],
        op,
        tags=spec.get("tags"),
        warmup_iterations=spec.get("warmup_iterations"),
        iterations=spec.get("iterations"),
        warmup_time_period=spec.get("warmup_time_period"),
        time_period=spec.get("time_period"),
        clients=spec["clients"],
        completes_parent=spec.get("completes_parent", False),
        any_completes_parent=spec.get("any_completes_parent", False),
        schedule=spec.get("schedule"),
        params=params,
    )


def build_schedule(schedule_spec):
    schedule = []
    for el in schedule_spec:
        if "parallel" in el:
            tasks = []
            for leaf in el["parallel"]:
                leaf = dict(leaf)
                cb = el.get("completed_by")
                if cb == "any":
                    leaf["any_completes_parent"] = True
                elif cb is not None and cb == leaf["name"]:
                    leaf["completes_parent"] = True
                tasks.append(build_leaf(leaf))
            schedule.append(track.Parallel(tasks, el.get("clients")))
        else:
            schedule.append(build_leaf(el))
    return schedule


def leaves(schedule_spec):
    for i, el in enumerate(schedule_spec):
        if "parallel" in el:
            for leaf in el["parallel"]:
                yield i, leaf
        else:
            yield i, el


def race_config(case, tmp_root="/tmp/verif-sim-race"):
    cfg = config.Config()
    A = config.Scope.application
    hosts = opts.TargetHosts("127.0.0.1:9200")
    cfg.add(A, "client", "hosts", hosts)
    cfg.add(A, "client", "options", opts.ClientOptions("timeout:60,static_responses:sim", target_hosts=hosts))
    cfg.add(A, "mechanic", "distribution.version", "8.0.0")
    cfg.add(A, "mechanic", "distribution.flavor", "default")
    cfg.add(A, "mechanic", "skip.rest.api.check", True)
    cfg.add(A, "mechanic", "car.names", ["external"])
    cfg.add(A, "driver", "profiling", False)
    cfg.add(A, "driver", "assertions", False)
    cfg.add(A, "driver", "on.error", case.get("on_error", "continue"))
    n_hosts = len(case["hosts"])
    if n_hosts == 1:
        load_hosts = ["localhost"]
    else:
        load_hosts = [f"10.0.0.{i + 1}" for i in range(n_hosts)]
    cfg.add(A, "driver", "load_driver_hosts", load_hosts)
    cfg.add(A, "track", "challenge.name", "sim-challenge")
    cfg.add(A, "track", "test.mode.enabled", bool(case.get("test_mode")))
    cfg.add(A, "track", "include.tasks", None)
    cfg.add(A, "track", "exclude.tasks", None)
    cfg.add(A, "system", "quiet.mode", bool(case.get("quiet", False)))
    cfg.add(A, "system", "race.id", "sim-race-id")
    import datetime

    cfg.add(A, "system", "time.start", datetime.datetime(2023, 11, 14, 22, 13, 20))
    cfg.add(A, "system", "available.cores", max(case["hosts"]))
    cfg.add(A, "system", "env.name", "sim")
    cfg.add(A, "reporting", "datastore.type", "in-memory")
    if case.get("downsample"):
        cfg.add(A, "reporting", "metrics.request.downsample.factor", case["downsample"])
    if case.get("queue_size"):
        cfg.add(A, "reporting", "sample.queue.size", case["queue_size"])
    cfg.add(A, "telemetry", "devices", [])
    cfg.add(A, "telemetry", "params", {})
    cfg.add(A, "node", "root.dir", tmp_root)
    cfg.add(A, "node", "rally.root", tmp_root)
    cfg.add(A, "benchmarks", "local.dataset.cache", tmp_root + "/data")
    cfg.add(A, "race", "user.tags", {})
    return cfg, load_hosts


# --------------------------------------------------------------------------------------------- scripted track preparation
def prep_task(task_id, fail=False):
    w = world.WORLD
    w.prep_log.append((w.clock.now, task_id, kernel.current_proc.get()))
    fault = w.faults.get("prep-task")
    if fault and fault["task_id"] == task_id and "fired_at" not in fault:
        fault["fired_at"] = w.clock.now
        raise RuntimeError("sim: track preparation task failed")


class SimTrackProcessor:
    def __init__(self, durations):
        self.durations = durations

    def on_after_load_track(self, t):
        return t

    def on_prepare_track(self, t, data_root_dir):
        for i, _ in enumerate(self.durations):
            yield prep_task, {"task_id": i}


class SimProcessorRegistry:
    """stands in for esrally.track.TrackProcessorRegistry inside the track preparation actor"""

    durations = []

    def __init__(self, cfg):
        self.processors = [SimTrackProcessor(SimProcessorRegistry.durations)] if SimProcessorRegistry.durations else [SimTrackProcessor([])]

    def register_track_processor(self, processor):
        pass


class Cycler:
    def __init__(self, values, table):
        self.values = values or [0]
        self.table = table
        self.i = 0

    def next(self):
        v = self.table[self.values[self.i % len(self.values)] % len(self.table)]
        self.i += 1
        return v


class RaceResult:
    pass


def horizon_for(case):
    total = 120.0
    for _, leaf in leaves(case["schedule"]):
        n = (leaf.get("warmup_iterations") or 0) + (leaf.get("iterations") or 0)
        longest = max(sum(g + s for g, s in q["wire"]) + q.get("pre", 0) + q.get("post", 0) for q in leaf["requests"])
        total += n * (longest + 1.0) * 4
        total += ((leaf.get("warmup_time_period") or 0) + (leaf.get("time_period") or 0)) * 4 + longest * 8
        tp = leaf.get("throughput")
        if tp and n:
            rate = tp["value"] if tp["kind"] != "interval" else 1 / tp["value"]
            total += 4 * n * leaf["clients"] * max(q.get("weight", 1) for q in leaf["requests"]) / rate
    total += (len(case["schedule"]) + 3) * (7.0 * 6 + 10.0)
    total += sum(case.get("prep_tasks", [])) + 60
    return total


def run_race(case, inject=None, after_complete_grace=True, collect_metrics=False):
    """
    inject(rt, world, loop) may schedule faults. Returns a RaceResult.
    """
    clock = kernel.VirtualClock(horizon=horizon_for(case))
    w = world.World(clock)
    w.prep_log = []
    world.install(w)
    world.register()
    random.seed(case.get("seed", 0))
    for _, leaf in leaves(case["schedule"]):
        w.tasks[leaf["name"]] = {"requests": leaf["requests"], "stride": leaf.get("stride", 7)}
    schedule = build_schedule(case["schedule"])
    challenge = track.Challenge("sim-challenge", default=True, schedule=schedule, meta_data={"challenge-tag": 1})
    t = track.Track("sim-track", challenges=[challenge], meta_data={"track-tag": 1})
    cfg, load_hosts = race_config(case)

    loop = kernel.VirtualLoop(clock)
    asyncio.set_event_loop(loop)
    delay_cycle = Cycler(case.get("delays"), DELAYS)
    wake_cycle = Cycler(case.get("wake_late"), WAKE_LATE)
    prep_cycle = Cycler(list(range(len(case.get("prep_tasks", [])))) or [0], case.get("prep_tasks") or [0.0])
    offsets = case.get("offsets") or [0.0]
    res = RaceResult()
    res.progress = Progress()
    res.case = case
    res.quiescent = False
    res.horizon_exceeded = False
    res.blocking = None

    def delays(kind, sender, target, msg):
        return delay_cycle.next()

    rt = actors.SimRuntime(loop, clock, delays=delays, wake_lateness=lambda rec: wake_cycle.next())
    coordinator_ip = "127.0.0.1" if len(load_hosts) == 1 else load_hosts[0]
    rt.add_host("coordinator", {"coordinator": True, "ip": coordinator_ip})
    for ip in load_hosts[1:]:
        rt.add_host(ip, {"coordinator": False, "ip": ip})
    worker_count = [0]

    def on_actor_created(rec):
        inst = rec.instance
        if isinstance(inst, driver.Worker):
            clock.offsets[rec.proc] = offsets[worker_count[0] % len(offsets)]
            worker_count[0] += 1
            inst.pool = actors.SimPool(rt, rec.proc)
        elif isinstance(inst, driver.TaskExecutionActor):
            inst.pool = actors.SimPool(rt, rec.proc, sync_duration=prep_cycle.next)

    rt.on_actor_created = on_actor_created
    if case.get("preempt"):
        pre_cycle = Cycler(case["preempt"], PREEMPT)
        rt.preempt = lambda what: pre_cycle.next()
    res.rt = rt
    res.world = w
    SimProcessorRegistry.durations = list(case.get("prep_tasks", []))
    state = {"complete": False, "failed": False, "cancelled": False, "driver": None, "t_complete": None}

    res.store = None
    res.handovers = []

    def on_external(msg, sender):
        if isinstance(msg, driver.PreparationComplete):
            rt.tell(state["driver"], driver.StartBenchmark())
        elif isinstance(msg, driver.TaskFinished):
            if collect_metrics:
                # race control (BenchmarkCoordinator.on_task_finished)
                before = len(res.store.docs)
                res.store.bulk_add(msg.metrics)
                res.handovers.append((clock.now, "TaskFinished", len(res.store.docs) - before))
        elif isinstance(msg, driver.BenchmarkComplete):
            if collect_metrics:
                before = len(res.store.docs)
                res.store.bulk_add(msg.metrics)
                res.handovers.append((clock.now, "BenchmarkComplete", len(res.store.docs) - before))
            state["complete"] = True
            state["t_complete"] = clock.now
            # race control: bulk-add metrics, then ask the driver to exit
            rt.tell(state["driver"], ta.ActorExitRequest())
        elif isinstance(msg, rally_actor.BenchmarkFailure):
            state["failed"] = True
            if state.get("t_failed") is None:
                state["t_failed"] = clock.now
            rt.tell(state["driver"], ta.ActorExitRequest())
        elif isinstance(msg, rally_actor.BenchmarkCancelled):
            state["cancelled"] = True
            rt.tell(state["driver"], ta.ActorExitRequest())

    rt.on_external = on_external

    def identity_config(c):
        return c

    def noop(*a, **kw):
        return None

    patches = kernel.time_patches(clock) + [
        (driver.client, "EsClientFactory", world.SimEsFactory),
        (driver.Driver.__init__, "__defaults__", (world.SimEsFactory,)),
        (driver, "load_local_config", identity_config),
        (driver, "load_track", noop),
        (driver, "load_track_plugins", noop),
        (driver, "TrackProcessorRegistry", SimProcessorRegistry),
        (esrally.track, "load_track_plugins", noop),
        (esrally.track, "set_absolute_data_path", noop),
        (esrally.utils.net, "resolve", lambda h: h),
        (esrally.log, "post_configure_actor_logging", noop),
        (esrally.utils.console, "progress", lambda *a, **kw: res.progress),
    ]
    with kernel.patched(*patches):
        try:
            if collect_metrics:
                res.store = metrics.metrics_store(cfg, track=t.name, challenge=challenge.name, read_only=False)
            state["driver"] = rt.create_actor(driver.DriverActor, parent=None, requirements={"coordinator": True})
            rt.tell(state["driver"], driver.PrepareBenchmark(cfg, t))
            if inject is not None:
                inject(rt, w, loop, state)
            try:
                loop.run_forever()
            except kernel.Quiescent:
                res.quiescent = True
            except kernel.HorizonExceeded:
                res.horizon_exceeded = True
            except kernel.BlockingCall as e:
                res.blocking = str(e)
        finally:
            try:
                for task in asyncio.all_tasks(loop):
                    task.cancel()
                try:
                    loop.run_until_complete(asyncio.sleep(0))
                except BaseException:  # pylint: disable=broad-except
                    pass
            finally:
                asyncio.set_event_loop(None)
                loop.close()
    res.state = state
    res.t_end = clock.now
    res.inbox = rt.external_inbox
    res.requests = w.request_log
    res.wires = w.wire_log
    res.schedule = schedule
    res.track = t
    res.cfg = cfg
    return res
