"""
E1: a whole race on the simulator.

run_race(case) builds a track from the case's schedule, a simulated cluster of load-driver hosts, the real DriverActor (which
creates the real TrackPreparationActor / TaskExecutionActor / Worker actors), plays race control from the outside
(PrepareBenchmark -> StartBenchmark, then ActorExitRequest after BenchmarkComplete) and returns everything observable.

Race case (JSON):
  schedule     list of elements. leaf = {"name", "clients", "mode": "iterations"|"time", "warmup_iterations"|None, "iterations",
               "warmup_time_period"|None, "time_period", "throughput": None|{"kind","value","unit"}, "requests": [request specs],
               "op_name": name of the task's operation (default <name>-op),
               "stride", "completes_parent": bool, "any_completes_parent": bool}
               parallel = {"parallel": [leaf, ...], "clients": cap | None, "completed_by": name | "any" | None}
  hosts        list of core counts; one entry = only "localhost"; several = ip addresses, the first being the coordinator's
  test_mode    bool (wake-up 0.5 s, no waiting period between tasks)
  offsets      list of perf_counter offsets handed to worker processes in creation order (cycled)
  delays       list of indexes into DELAYS, consumed one per message (cycled)
  wake_late    list of indexes into WAKE_LATE, consumed one per wake-up (cycled)
  prep_tasks   list of durations of track preparation tasks (scripted processor)
  queue_size   None | int      downsample  None | int
  delay_overrides  None | {message type name: index into DELAYS}  fixed delay for every message of that type
  preempt_add  None | [k, ...]  the worker's actor thread ships samples while its executor thread builds every k-th Sample inside Sampler.add()
  api_keys     bool: client option create_api_key_per_client (the driver creates one key per client through its synchronous client)
  host_alias   None | [machine index per entry of hosts] (a load driver host listed twice)
  preempt      None | list of indexes into PREEMPT, consumed one per pre-emption point (Future.done() in a handler), cycled
  quiet        bool
  fault        None | {...}  (see checks/c09)
"""
import asyncio
import random

import thespian.actors as ta

import esrally.log
import esrally.track
import esrally.utils.console
import esrally.utils.net
from esrally import actor as rally_actor
from esrally import config, metrics, track
from esrally.driver import driver
from esrally.utils import opts

from sim import actors, kernel, world

DELAYS = [0.0, 0.0, 1 / 1024, 1 / 1024, 0.25, 0.3125, 2.0, 7.0]
WAKE_LATE = [0.0, 0.0, 0.0, 1 / 1024, 0.125]
# pre-emption windows: how much executor-thread work may happen while an actor handler sits at a shared-state read
PREEMPT = [0.0, 0.0, 1 / 1024, 1 / 64, 1 / 8]  # a handler is short: windows stay well below the wake-up intervals


class Progress:
    def __init__(self):
        self.lines = []

    def print(self, message, progress):
        self.lines.append((message, progress))

    def finish(self):
        self.lines.append(("<finish>", ""))


def build_leaf(spec):
    params = {}
    tp = spec.get("throughput")
    if tp is not None:
        if tp["kind"] == "number":
            params["target-throughput"] = tp["value"]
        elif tp["kind"] == "string":
            params["target-throughput"] = f"{tp['value']} {tp['unit']}"
        else:
            params["target-interval"] = tp["value"]
    if spec.get("tolerant"):
        params["ignore-response-error-level"] = "non-fatal"
    # (two tasks may run operations of the same name: one operation referenced twice, or inline operations without a name)
    op = track.Operation(spec.get("op_name", spec["name"] + "-op"), spec.get("op_type", "sim-op"), params={"task": spec["name"]}, param_source="sim-source")
    return track.Task(
        spec["name"],
        op,
        tags=spec.get("tags"),
        warmup_iterations=spec.get("warmup_iterations"),
        iterations=spec.get("iterations"),
        warmup_time_period=spec.get("warmup_time_period"),
        time_period=spec.get("time_period"),
        ramp_up_time_period=spec.get("ramp_up"),
        clients=spec["clients"],
        completes_parent=spec.get("completes_parent", False),
        any_completes_parent=spec.get("any_completes_parent", False),
        schedule=spec.get("schedule"),
        params=params,
    )


def build_schedule(schedule_spec):
    schedule = []
    for el in schedule_spec:
        if "parallel" in el:
            tasks = []
            for leaf in el["parallel"]:
                leaf = dict(leaf)
                cb = el.get("completed_by")
                if cb == "any":
                    leaf["any_completes_parent"] = True
                elif cb is not None and cb == leaf["name"]:
                    leaf["completes_parent"] = True
                tasks.append(build_leaf(leaf))
            schedule.append(track.Parallel(tasks, el.get("clients")))
        else:
            schedule.append(build_leaf(el))
    return schedule


def leaves(schedule_spec):
    for i, el in enumerate(schedule_spec):
        if "parallel" in el:
            for leaf in el["parallel"]:
                yield i, leaf
        else:
            yield i, el


def race_config(case, tmp_root="/tmp/verif-sim-race"):
    cfg = config.Config()
    A = config.Scope.application
    hosts = opts.TargetHosts("127.0.0.1:9200")
    cfg.add(A, "client", "hosts", hosts)
    options = "timeout:60,static_responses:sim" + (",create_api_key_per_client:true" if case.get("api_keys") else "")
    cfg.add(A, "client", "options", opts.ClientOptions(options, target_hosts=hosts))
    cfg.add(A, "mechanic", "distribution.version", "8.0.0")
    cfg.add(A, "mechanic", "distribution.flavor", "default")
    cfg.add(A, "mechanic", "skip.rest.api.check", True)
    cfg.add(A, "mechanic", "car.names", ["external"])
    cfg.add(A, "driver", "profiling", False)
    cfg.add(A, "driver", "assertions", False)
    cfg.add(A, "driver", "on.error", case.get("on_error", "continue"))
    n_hosts = len(case["hosts"])
    if n_hosts == 1:
        load_hosts = ["localhost"]
    else:
        # host_alias: entry i of the list names the machine alias[i] (the same load driver host may be listed more than once)
        alias = case.get("host_alias") or list(range(n_hosts))
        load_hosts = [f"10.0.0.{alias[i] + 1}" for i in range(n_hosts)]
    cfg.add(A, "driver", "load_driver_hosts", load_hosts)
    cfg.add(A, "track", "challenge.name", "sim-challenge")
    cfg.add(A, "track", "test.mode.enabled", bool(case.get("test_mode")))
    cfg.add(A, "track", "include.tasks", None)
    cfg.add(A, "track", "exclude.tasks", None)
    cfg.add(A, "system", "quiet.mode", bool(case.get("quiet", False)))
    cfg.add(A, "system", "race.id", "sim-race-id")
    import datetime

    cfg.add(A, "system", "time.start", datetime.datetime(2023, 11, 14, 22, 13, 20))
    cfg.add(A, "system", "available.cores", max(case["hosts"]))
    cfg.add(A, "system", "env.name", "sim")
    cfg.add(A, "reporting", "datastore.type", "in-memory")
    if case.get("downsample"):
        cfg.add(A, "reporting", "metrics.request.downsample.factor", case["downsample"])
    if case.get("queue_size"):
        cfg.add(A, "reporting", "sample.queue.size", case["queue_size"])
    cfg.add(A, "telemetry", "devices", [])
    cfg.add(A, "telemetry", "params", {})
    cfg.add(A, "node", "root.dir", tmp_root)
    cfg.add(A, "node", "rally.root", tmp_root)
    cfg.add(A, "benchmarks", "local.dataset.cache", tmp_root + "/data")
    cfg.add(A, "race", "user.tags", {})
    return cfg, load_hosts


# --------------------------------------------------------------------------------------------- scripted track preparation
def prep_task(task_id, fail=False):
    w = world.WORLD
    w.prep_log.append((w.clock.now, task_id, kernel.current_proc.get()))
    fault = w.faults.get("prep-task")
    if fault and fault["task_id"] == task_id and "fired_at" not in fault:
        fault["fired_at"] = w.clock.now
        raise world.fault_exception(fault, "sim: track preparation task failed")


class SimTrackProcessor:
    def __init__(self, durations):
        self.durations = durations

    def on_after_load_track(self, t):
        return t

    def on_prepare_track(self, t, data_root_dir):
        for i, _ in enumerate(self.durations):
            yield prep_task, {"task_id": i}


class SimProcessorRegistry:
    """stands in for esrally.track.TrackProcessorRegistry inside the track preparation actor"""

    durations = []

    def __init__(self, cfg):
        self.processors = [SimTrackProcessor(SimProcessorRegistry.durations)] if SimProcessorRegistry.durations else [SimTrackProcessor([])]

    def register_track_processor(self, processor):
        pass


class Cycler:
    def __init__(self, values, table):
        self.values = values or [0]
        self.table = table
        self.i = 0

    def next(self):
        v = self.table[self.values[self.i % len(self.values)] % len(self.table)]
        self.i += 1
        return v


class RaceResult:
    pass


def horizon_for(case):
    total = 120.0
    for _, leaf in leaves(case["schedule"]):
        n = (leaf.get("warmup_iterations") or 0) + (leaf.get("iterations") or 0)
        longest = max(sum(g + s for g, s in q["wire"]) + q.get("pre", 0) + q.get("post", 0) for q in leaf["requests"])
        total += n * (longest + 1.0) * 4
        total += ((leaf.get("warmup_time_period") or 0) + (leaf.get("time_period") or 0)) * 4 + longest * 8
        tp = leaf.get("throughput")
        if tp and n:
            rate = tp["value"] if tp["kind"] != "interval" else 1 / tp["value"]
            total += 4 * n * leaf["clients"] * max(q.get("weight", 1) for q in leaf["requests"]) / rate
    total += (len(case["schedule"]) + 3) * (7.0 * 6 + 10.0)
    total += sum(case.get("prep_tasks", [])) + 60
    return total


def run_race(case, inject=None, after_complete_grace=True, collect_metrics=False):
    """
    inject(rt, world, loop) may schedule faults. Returns a RaceResult.
    """
    clock = kernel.VirtualClock(horizon=horizon_for(case))
    w = world.World(clock)
    w.prep_log = []
    world.install(w)
    world.register()
    random.seed(case.get("seed", 0))
    if any(leaf.get("op_type") == "sim-op-completing" for _, leaf in leaves(case["schedule"])):
        world.register_completing_runner()
    for _, leaf in leaves(case["schedule"]):
        w.tasks[leaf["name"]] = {"requests": leaf["requests"], "stride": leaf.get("stride", 7), "source-size": leaf.get("source_size")}
    schedule = build_schedule(case["schedule"])
    challenge = track.Challenge("sim-challenge", default=True, schedule=schedule, meta_data={"challenge-tag": 1})
    t = track.Track("sim-track", challenges=[challenge], meta_data={"track-tag": 1})
    cfg, load_hosts = race_config(case)

    loop = kernel.VirtualLoop(clock)
    asyncio.set_event_loop(loop)
    delay_cycle = Cycler(case.get("delays"), DELAYS)
    wake_cycle = Cycler(case.get("wake_late"), WAKE_LATE)
    prep_cycle = Cycler(list(range(len(case.get("prep_tasks", [])))) or [0], case.get("prep_tasks") or [0.0])
    offsets = case.get("offsets") or [0.0]
    res = RaceResult()
    res.progress = Progress()
    res.case = case
    res.quiescent = False
    res.horizon_exceeded = False
    res.blocking = None

    overrides = case.get("delay_overrides") or {}

    def delays(kind, sender, target, msg):
        d = delay_cycle.next()
        name = type(msg).__name__
        if name in overrides:
            return DELAYS[overrides[name] % len(DELAYS)]
        return d

    rt = actors.SimRuntime(loop, clock, delays=delays, wake_lateness=lambda rec: wake_cycle.next())
    coordinator_ip = "127.0.0.1" if len(load_hosts) == 1 else load_hosts[0]
    rt.add_host("coordinator", {"coordinator": True, "ip": coordinator_ip})
    for ip in dict.fromkeys(load_hosts[1:]):
        if ip != coordinator_ip:
            rt.add_host(ip, {"coordinator": False, "ip": ip})
    worker_count = [0]

    def on_actor_created(rec):
        inst = rec.instance
        if isinstance(inst, driver.Worker):
            clock.offsets[rec.proc] = offsets[worker_count[0] % len(offsets)]
            worker_count[0] += 1
            inst.pool = actors.SimPool(rt, rec.proc)
        elif isinstance(inst, driver.TaskExecutionActor):
            inst.pool = actors.SimPool(rt, rec.proc, sync_duration=prep_cycle.next)

    rt.on_actor_created = on_actor_created
    if case.get("preempt"):
        pre_cycle = Cycler(case["preempt"], PREEMPT)
        rt.preempt = lambda what: pre_cycle.next()
    res.rt = rt
    res.world = w
    SimProcessorRegistry.durations = list(case.get("prep_tasks", []))
    state = {"complete": False, "failed": False, "cancelled": False, "driver": None, "t_complete": None}

    res.store = None
    res.handovers = []

    def on_external(msg, sender):
        if isinstance(msg, driver.PreparationComplete):
            rt.tell(state["driver"], driver.StartBenchmark())
        elif isinstance(msg, driver.TaskFinished):
            if collect_metrics:
                # race control (BenchmarkCoordinator.on_task_finished)
                before = len(res.store.docs)
                res.store.bulk_add(msg.metrics)
                res.handovers.append((clock.now, "TaskFinished", len(res.store.docs) - before))
        elif isinstance(msg, driver.BenchmarkComplete):
            if collect_metrics:
                before = len(res.store.docs)
                res.store.bulk_add(msg.metrics)
                res.handovers.append((clock.now, "BenchmarkComplete", len(res.store.docs) - before))
            state["complete"] = True
            state["t_complete"] = clock.now
            # race control: bulk-add metrics, then ask the driver to exit
            rt.tell(state["driver"], ta.ActorExitRequest())
        elif isinstance(msg, rally_actor.BenchmarkFailure):
            state["failed"] = True
            if state.get("t_failed") is None:
                state["t_failed"] = clock.now
            rt.tell(state["driver"], ta.ActorExitRequest())
        elif isinstance(msg, rally_actor.BenchmarkCancelled):
            state["cancelled"] = True
            rt.tell(state["driver"], ta.ActorExitRequest())

    rt.on_external = on_external

    def identity_config(c):
        return c

    def noop(*a, **kw):
        return None

    patches = kernel.time_patches(clock) + [
        (driver.client, "EsClientFactory", world.SimEsFactory),
        (driver.Driver.__init__, "__defaults__", (world.SimEsFactory,)),
        (driver, "load_local_config", identity_config),
        (driver, "load_track", noop),
        (driver, "load_track_plugins", noop),
        (driver, "TrackProcessorRegistry", SimProcessorRegistry),
        (esrally.track, "load_track_plugins", noop),
        (esrally.track, "set_absolute_data_path", noop),
        (esrally.utils.net, "resolve", lambda h: h),
        (esrally.log, "post_configure_actor_logging", noop),
        (esrally.utils.console, "progress", lambda *a, **kw: res.progress),
    ]
    if case.get("preempt_add"):
        # second pre-emption point: the executor thread is inside Sampler.add() - it has looked up the queue's put method and is about to
        # build the Sample - when the actor thread ships samples (what Worker does on every wake-up, whose phase is arbitrary)
        real_init = driver.Sample.__init__
        every = sorted(set(int(k) for k in case["preempt_add"]))
        built = {}

        def init_under_preemption(self, *a, **kw):
            proc = kernel.current_proc.get()
            built[proc] = built.get(proc, 0) + 1
            rec = rt.actors.get(proc)
            if rec is not None and rec.alive and isinstance(rec.instance, driver.Worker) and any(built[proc] % k == 0 for k in every):
                rt.stats["preemptions_in_sampler_add"] = rt.stats.get("preemptions_in_sampler_add", 0) + 1
                rec.instance.send_samples()
            real_init(self, *a, **kw)

        patches.append((driver.Sample, "__init__", init_under_preemption))
    res.tp_calls = []
    if collect_metrics:
        real_calculate = driver.ThroughputCalculator.calculate

        def recording_calculate(self, samples, *a, **kw):
            # observation only: what the driver's throughput calculator was fed in this post-processing run and what it emitted
            fed = [(s.task.name, s.absolute_time, s.total_ops, s.time_period, int(s.sample_type), s.throughput is not None) for s in samples]
            out = real_calculate(self, samples, *a, **kw)
            res.tp_calls.append((fed, {task.name: list(values) for task, values in out.items()}))
            return out

        patches = patches + [(driver.ThroughputCalculator, "calculate", recording_calculate)]
        import inspect

        real_add = driver.Sampler.add
        add_signature = inspect.signature(real_add)
        res.sampler_adds = []

        def recording_add(self, *a, **kw):
            # observation only: was the worker's sample queue full when this sample was handed in?
            args = add_signature.bind(self, *a, **kw).arguments
            res.sampler_adds.append((args["task"].name, args["client_id"], args["absolute_time"], self.q.full()))
            return real_add(self, *a, **kw)

        patches = patches + [(driver.Sampler, "add", recording_add)]
    with kernel.patched(*patches):
        try:
            if collect_metrics:
                res.store = metrics.metrics_store(cfg, track=t.name, challenge=challenge.name, read_only=False)
            state["driver"] = rt.create_actor(driver.DriverActor, parent=None, requirements={"coordinator": True})
            rt.tell(state["driver"], driver.PrepareBenchmark(cfg, t))
            if inject is not None:
                inject(rt, w, loop, state)
            try:
                loop.run_forever()
            except kernel.Quiescent:
                res.quiescent = True
            except kernel.HorizonExceeded:
                res.horizon_exceeded = True
            except kernel.BlockingCall as e:
                res.blocking = str(e)
        finally:
            try:
                for task in asyncio.all_tasks(loop):
                    task.cancel()
                try:
                    loop.run_until_complete(asyncio.sleep(0))
                except BaseException:  # pylint: disable=broad-except
                    pass
            finally:
                asyncio.set_event_loop(None)
                loop.close()
    res.state = state
    res.t_end = clock.now
    res.inbox = rt.external_inbox
    res.requests = w.request_log
    res.wires = w.wire_log
    res.schedule = schedule
    res.track = t
    res.cfg = cfg
    return res


# =================================================================================================== full race through race control
class Hang(Exception):
    """race control's ask() would never return: the simulation went quiescent (or past its horizon) without a reply"""


class SimActorSystem:
    """what racecontrol.race() needs from thespian.actors.ActorSystem, on top of SimRuntime"""

    def __init__(self, rt, loop, clock):
        self.rt = rt
        self.loop = loop
        self.clock = clock
        self.asks = []  # (t_asked, type of message, t_replied, type of reply)
        self.tells = []

    def createActor(self, actor_class, targetActorRequirements=None, globalName=None, sourceHash=None):
        return self.rt.create_actor(actor_class, parent=None, requirements=targetActorRequirements)

    def tell(self, address, msg):
        self.tells.append((self.clock.now, type(msg).__name__))
        self.rt.tell(address, msg)

    def ask(self, address, msg, timeout=None):
        n = len(self.rt.external_inbox)
        t0 = self.clock.now
        self.rt.tell(address, msg)
        self.rt.on_external = lambda m, s: self.loop.stop()
        try:
            while len(self.rt.external_inbox) <= n:
                try:
                    self.loop.run_forever()
                except kernel.Quiescent:
                    raise Hang(f"no reply to {type(msg).__name__}: simulation quiescent at {self.clock.now:.3f}") from None
                except kernel.HorizonExceeded:
                    raise Hang(f"no reply to {type(msg).__name__} within the horizon ({self.clock.now:.1f} s)") from None
        finally:
            self.rt.on_external = None
        reply = self.rt.external_inbox[n][1]
        self.asks.append((t0, type(msg).__name__, self.clock.now, type(reply).__name__))
        return reply


class StoreFault:
    """makes the driver's metrics store fail: on its n-th record only, or from then on (including flush/close/externalize)"""

    def __init__(self, n, persistent, clock, where="driver"):
        self.n = n
        self.persistent = persistent
        self.clock = clock
        self.where = where
        self.count = 0
        self.fired_at = None
        self.tripped = False

    def applies(self):
        # "driver": the store the driver writes samples to; "race-control": the store race control adds the handed-over metrics to
        prefix = "ActorAddr-DriverActor" if self.where == "driver" else "ActorAddr-BenchmarkActor"
        return kernel.current_proc.get().startswith(prefix)

    def on_add(self):
        if not self.applies():
            return
        self.count += 1
        if self.count == self.n or (self.persistent and self.tripped):
            self.tripped = True
            if self.fired_at is None:
                self.fired_at = self.clock.now
            raise IOError("sim: metrics store is unavailable")

    def on_other(self):
        if self.applies() and self.persistent and self.tripped:
            raise IOError("sim: metrics store is unavailable")


def run_full_race(case, fault=None):
    """
    the real racecontrol.race(cfg, external=True) -> BenchmarkActor -> MechanicActor (external) + DriverActor -> ...
    fault: None | {"kind": "runner", "task","client","ordinal","outcome"} | {"kind": "param-source", "task","client","ordinal"}
           | {"kind": "store", "n", "persistent", "where": "driver" | "race-control"} | {"kind": "prep-task", "task_id"} | {"kind": "kill-worker", "index", "at"}
           | {"kind": "cancel", "at"}
    """
    import esrally.mechanic.mechanic as mechanic_module
    import esrally.racecontrol as racecontrol
    import esrally.reporter
    import esrally.version
    from esrally import exceptions

    clock = kernel.VirtualClock(horizon=horizon_for(case))
    w = world.World(clock)
    w.prep_log = []
    world.install(w)
    world.register()
    random.seed(case.get("seed", 0))
    if any(leaf.get("op_type") == "sim-op-completing" for _, leaf in leaves(case["schedule"])):
        world.register_completing_runner()
    for _, leaf in leaves(case["schedule"]):
        w.tasks[leaf["name"]] = {"requests": leaf["requests"], "stride": leaf.get("stride", 7), "source-size": leaf.get("source_size")}
    schedule = build_schedule(case["schedule"])
    challenge = track.Challenge("sim-challenge", default=True, schedule=schedule, meta_data={"challenge-tag": 1})
    t = track.Track("sim-track", challenges=[challenge], meta_data={"track-tag": 1})
    cfg, load_hosts = race_config(case)
    A = config.Scope.application
    cfg.add(A, "race", "pipeline", "benchmark-only")
    cfg.add(A, "track", "params", {})
    cfg.add(A, "mechanic", "car.params", {})
    cfg.add(A, "mechanic", "plugin.params", {})
    cfg.add(A, "mechanic", "repository.revision", "abc")
    cfg.add(A, "reporting", "values", "available")
    cfg.add(A, "reporting", "output.path", None)
    cfg.add(A, "reporting", "format", "markdown")
    cfg.add(A, "reporting", "numbers.align", "right")

    loop = kernel.VirtualLoop(clock)
    asyncio.set_event_loop(loop)
    delay_cycle = Cycler(case.get("delays"), DELAYS)
    wake_cycle = Cycler(case.get("wake_late"), WAKE_LATE)
    prep_cycle = Cycler(list(range(len(case.get("prep_tasks", [])))) or [0], case.get("prep_tasks") or [0.0])
    offsets = case.get("offsets") or [0.0]
    res = RaceResult()
    res.progress = Progress()
    res.case = case
    res.fault = fault
    overrides = case.get("delay_overrides") or {}

    def delays(kind, sender, target, msg):
        d = delay_cycle.next()
        name = type(msg).__name__
        if name in overrides:
            return DELAYS[overrides[name] % len(DELAYS)]
        return d

    rt = actors.SimRuntime(loop, clock, delays=delays, wake_lateness=lambda rec: wake_cycle.next())
    coordinator_ip = "127.0.0.1" if len(load_hosts) == 1 else load_hosts[0]
    rt.add_host("coordinator", {"coordinator": True, "ip": coordinator_ip})
    for ip in dict.fromkeys(load_hosts[1:]):
        if ip != coordinator_ip:
            rt.add_host(ip, {"coordinator": False, "ip": ip})
    workers = []

    def on_actor_created(rec):
        inst = rec.instance
        if isinstance(inst, driver.Worker):
            clock.offsets[rec.proc] = offsets[len(workers) % len(offsets)]
            workers.append(rec)
            inst.pool = actors.SimPool(rt, rec.proc)
        elif isinstance(inst, driver.TaskExecutionActor):
            inst.pool = actors.SimPool(rt, rec.proc, sync_duration=prep_cycle.next)

    rt.on_actor_created = on_actor_created
    if case.get("preempt"):
        pre_cycle = Cycler(case["preempt"], PREEMPT)
        rt.preempt = lambda what: pre_cycle.next()
    SimProcessorRegistry.durations = list(case.get("prep_tasks", []))
    asys = SimActorSystem(rt, loop, clock)
    res.rt, res.world, res.asys = rt, w, asys
    res.stored_races = []  # (t, has_results)
    res.summarize_calls = []
    res.results_store_calls = []
    res.fired_at = None
    res.outcome = None
    res.error = None

    def store_race(self, race):
        doc = race.as_dict()
        res.stored_races.append((clock.now, "results" in doc and bool(doc["results"])))

    class ResultsStore:
        def store_results(self, race):
            res.results_store_calls.append(clock.now)

    def summarize(results, c):
        res.summarize_calls.append(clock.now)

    store_fault = None
    real_add = metrics.InMemoryMetricsStore._add
    real_flush = metrics.InMemoryMetricsStore.flush
    real_ext = metrics.InMemoryMetricsStore.to_externalizable
    real_close = metrics.MetricsStore.close
    extra = []
    if fault and fault["kind"] == "store":
        store_fault = StoreFault(fault["n"], fault.get("persistent", False), clock, fault.get("where", "driver"))

        def _add(self, doc):
            store_fault.on_add()
            return real_add(self, doc)

        def flush(self, refresh=True):
            store_fault.on_other()
            return real_flush(self, refresh)

        def to_externalizable(self, clear=False):
            store_fault.on_other()
            return real_ext(self, clear)

        extra = [
            (metrics.InMemoryMetricsStore, "_add", _add),
            (metrics.InMemoryMetricsStore, "flush", flush),
            (metrics.InMemoryMetricsStore, "to_externalizable", to_externalizable),
        ]
    if fault and fault["kind"] in ("runner", "param-source", "prep-task"):
        w.faults[fault["kind"]] = dict(fault)

    def noop(*a, **kw):
        return None

    patches = (
        kernel.time_patches(clock)
        + [
            (driver.client, "EsClientFactory", world.SimEsFactory),
            (driver.Driver.__init__, "__defaults__", (world.SimEsFactory,)),
            (driver, "load_local_config", lambda c: c),
            (driver, "load_track", noop),
            (driver, "load_track_plugins", noop),
            (driver, "TrackProcessorRegistry", SimProcessorRegistry),
            (esrally.track, "load_track_plugins", noop),
            (esrally.track, "set_absolute_data_path", noop),
            (esrally.track, "load_track", lambda c, install_dependencies=False: t),
            (esrally.utils.net, "resolve", lambda h: h),
            (esrally.log, "post_configure_actor_logging", noop),
            (esrally.utils.console, "progress", lambda *a, **kw: res.progress),
            (esrally.utils.console, "info", noop),
            (esrally.utils.console, "warn", noop),
            (esrally.utils.console, "println", noop),
            (esrally.version, "revision", lambda: "sim"),
            (rally_actor, "bootstrap_actor_system", lambda *a, **kw: asys),
            (metrics.FileRaceStore, "store_race", store_race),
            (metrics, "results_store", lambda c: ResultsStore()),
            (esrally.reporter, "summarize", summarize),
        ]
        + extra
    )
    _ = mechanic_module
    with kernel.patched(*patches):
        try:
            if fault and fault["kind"] == "kill-worker":

                def kill_victim(victim):
                    reported = sum(1 for m in rt.send_log if m[3] == "JoinPointReached" and m[1] == victim.proc)
                    if res.outcome is None and res.fired_at is None and victim.alive and reported < len(case["schedule"]) + 1:
                        # it still has work to report: its death must fail the race
                        res.fired_at = clock.now
                        rt.kill(victim)
                        return True
                    return False

                if "after_wakeups" in fault:
                    # event-based: worker number `index` dies instead of handling its m-th wake-up
                    wakeups = {}

                    def before_delivery(rec, msg, sender):
                        if isinstance(rec.instance, driver.Worker) and isinstance(msg, ta.WakeupMessage):
                            if workers.index(rec) == fault["index"] % len(workers):
                                wakeups[rec.proc] = wakeups.get(rec.proc, 0) + 1
                                if wakeups[rec.proc] == fault["after_wakeups"] and kill_victim(rec):
                                    return "drop"
                        return None

                    rt.before_delivery = before_delivery
                else:

                    def kill():
                        live = [r for r in workers if r.alive]
                        if live:
                            kill_victim(live[fault["index"] % len(live)])

                    loop.call_at(fault["at"], actors.ActorEvent(kill))
            if fault and fault["kind"] == "cancel":

                def interrupt():
                    if res.outcome is None and res.fired_at is None:
                        res.fired_at = clock.now
                        raise KeyboardInterrupt()

                if "on_send" in fault:
                    # event-based: the user hits Ctrl+C right after the n-th message of the given type has been sent
                    seen = {"n": 0}
                    tname, nth = fault["on_send"]

                    def on_send(name):
                        if name == tname:
                            seen["n"] += 1
                            if seen["n"] == nth:
                                loop.call_soon(actors.ActorEvent(interrupt))

                    rt.on_send = on_send
                else:
                    loop.call_at(fault["at"], actors.ActorEvent(interrupt))
            try:
                racecontrol.race(cfg, external=True)
                res.outcome = "returned"
            except exceptions.UserInterrupted as e:
                res.outcome = "user-interrupted"
                res.error = e
            except exceptions.RallyError as e:
                res.outcome = "rally-error"
                res.error = e
            except Hang as e:
                res.outcome = "hang"
                res.error = e
            except kernel.BlockingCall as e:
                res.outcome = "blocking"
                res.error = e
            res.t_outcome = clock.now
            # let everything that is still in flight play out (actors exiting, late messages)
            rt.on_external = None
            try:
                loop.run_forever()
            except (kernel.Quiescent, kernel.HorizonExceeded):
                pass
            except kernel.BlockingCall as e:
                res.late_blocking = str(e)
        finally:
            try:
                for task in asyncio.all_tasks(loop):
                    task.cancel()
                try:
                    loop.run_until_complete(asyncio.sleep(0))
                except BaseException:  # pylint: disable=broad-except
                    pass
            finally:
                asyncio.set_event_loop(None)
                loop.close()
    if store_fault is not None:
        res.fired_at = store_fault.fired_at
    for kind in ("runner", "param-source", "prep-task"):
        if kind in w.faults and "fired_at" in w.faults[kind]:
            res.fired_at = w.faults[kind]["fired_at"]
    res.t_end = clock.now
    res.inbox = rt.external_inbox
    res.requests = w.request_log
    res.schedule = schedule
    res.cfg = cfg
    return res
