"""
Fidelity self-test of the actor runtime: a small ping / pong / poison / exit scenario is run on Thespian's own simpleSystemBase
and on sim.actors.SimRuntime; what the parent actor observes must be the same sequence (modulo the number of delivery attempts
before a message is declared poisonous: the production base retries once, the simple base re-queues - SimRuntime follows production).
"""
import asyncio

import thespian.actors as ta

from sim import actors, kernel

TRACE = []


class Start:
    pass


class Ping:
    pass


class Pong:
    pass


class Boom:
    pass


class Done:
    def __init__(self, seen):
        self.seen = seen


class Echo(ta.ActorTypeDispatcher):
    def receiveMsg_Ping(self, msg, sender):
        TRACE.append(("Echo", "Ping"))
        self.send(sender, Pong())

    def receiveMsg_ActorExitRequest(self, msg, sender):
        TRACE.append(("Echo", "ActorExitRequest"))


class Crasher(ta.ActorTypeDispatcher):
    def receiveMsg_Boom(self, msg, sender):
        TRACE.append(("Crasher", "Boom"))
        raise ValueError("boom")


class Parent(ta.ActorTypeDispatcher):
    def __init__(self, *a, **kw):
        super().__init__(*a, **kw)
        self.seen = []
        self.requester = None
        self.echo = None
        self.crasher = None

    def receiveMsg_Start(self, msg, sender):
        self.requester = sender
        self.echo = self.createActor(Echo)
        self.crasher = self.createActor(Crasher)
        self.send(self.echo, Ping())

    def receiveMsg_Pong(self, msg, sender):
        self.seen.append("Pong")
        self.send(self.crasher, Boom())

    def receiveMsg_PoisonMessage(self, msg, sender):
        self.seen.append("Poison:" + type(msg.poisonMessage).__name__)
        self.send(self.echo, ta.ActorExitRequest())

    def receiveMsg_ChildActorExited(self, msg, sender):
        self.seen.append("ChildActorExited:" + ("echo" if msg.childAddress == self.echo else "other"))
        self.send(self.requester, Done(list(self.seen)))


def run_on_thespian():
    del TRACE[:]
    asys = ta.ActorSystem("simpleSystemBase")
    try:
        parent = asys.createActor(Parent)
        reply = asys.ask(parent, Start(), 10)
        return reply.seen if isinstance(reply, Done) else repr(reply), list(TRACE)
    finally:
        asys.shutdown()


def run_on_sim():
    del TRACE[:]
    clock = kernel.VirtualClock(horizon=100.0)
    loop = kernel.VirtualLoop(clock)
    asyncio.set_event_loop(loop)
    try:
        rt = actors.SimRuntime(loop, clock)
        rt.add_host("h", {})
        result = []
        rt.on_external = lambda msg, sender: result.append(msg)
        parent = rt.create_actor(Parent)
        rt.tell(parent, Start())
        try:
            loop.run_forever()
        except kernel.Quiescent:
            pass
        reply = result[0] if result else None
        return reply.seen if isinstance(reply, Done) else repr(reply), list(TRACE)
    finally:
        asyncio.set_event_loop(None)
        loop.close()


def collapse(trace):
    """delivery attempts of one message collapse into one entry"""
    out = []
    for t in trace:
        if not out or out[-1] != t:
            out.append(t)
    return out


def compare():
    a_seen, a_trace = run_on_thespian()
    b_seen, b_trace = run_on_sim()
    ok = a_seen == b_seen and collapse(a_trace) == collapse(b_trace)
    return ok, {"thespian": [a_seen, a_trace], "sim": [b_seen, b_trace]}
