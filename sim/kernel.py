"""
E1 kernel: virtual clock, virtual-time asyncio loop, substitution of the `time` module seen by Rally.

Nothing here sleeps or reads the wall clock. The loop's selector never blocks: when asyncio wants to wait for its next
timer, the virtual clock jumps to that timer. If there is neither a ready callback nor a timer the loop is *quiescent*
and `Quiescent` is raised out of run_forever()/run_until_complete().
"""
import asyncio
import contextvars
import heapq
import selectors
import time as _real_time
import types
import weakref

EPOCH = 1_700_000_000.0

# name of the simulated OS process whose code is currently running (used for per-process perf_counter offsets)
current_proc = contextvars.ContextVar("sim_current_proc", default="main")


class Quiescent(Exception):
    """no ready callback and no timer: nothing can ever happen again"""


class HorizonExceeded(Exception):
    """virtual time ran past the horizon of the scenario"""


class BlockingCall(Exception):
    """the code under test tried to block the (single) simulated thread"""


class VirtualClock:
    def __init__(self, horizon=None):
        self.now = 0.0
        self.offsets = {}
        self.horizon = horizon

    def perf_counter(self):
        return self.now + self.offsets.get(current_proc.get(), 0.0)

    def wall(self):
        return EPOCH + self.now


def fake_time_module(clock, on_sleep=None):
    """an object that can stand in for the `time` module inside a Rally module"""
    m = types.ModuleType("time")
    for name in dir(_real_time):
        if not name.startswith("__"):
            setattr(m, name, getattr(_real_time, name))
    m.perf_counter = clock.perf_counter
    m.monotonic = clock.perf_counter
    m.time = clock.wall

    def sleep(seconds):
        if on_sleep is None:
            raise BlockingCall(f"time.sleep({seconds}) in simulated code")
        on_sleep(seconds)

    m.sleep = sleep
    return m


class _VirtualSelector(selectors.SelectSelector):
    def __init__(self, clock):
        super().__init__()
        self._clock = clock
        self.loop = None

    def select(self, timeout=None):
        if timeout is None:
            raise Quiescent()
        if timeout > 0:
            sched = self.loop._scheduled  # pylint: disable=protected-access
            if sched and timeout < 86000:
                self._clock.now = max(self._clock.now, sched[0]._when)  # pylint: disable=protected-access
            else:
                self._clock.now += timeout
            if self._clock.horizon is not None and self._clock.now > self._clock.horizon:
                raise HorizonExceeded(f"virtual time {self._clock.now} beyond horizon {self._clock.horizon}")
        return []


class _SeqTimerHandle(asyncio.TimerHandle):
    """timers that are due at the same instant fire in the order in which they were created (asyncio leaves ties to the heap)"""

    __slots__ = ("_seq",)

    def __lt__(self, other):
        if isinstance(other, _SeqTimerHandle):
            return (self._when, self._seq) < (other._when, other._seq)
        return NotImplemented

    def __le__(self, other):
        if isinstance(other, _SeqTimerHandle):
            return (self._when, self._seq) <= (other._when, other._seq)
        return NotImplemented

    def __gt__(self, other):
        if isinstance(other, _SeqTimerHandle):
            return (self._when, self._seq) > (other._when, other._seq)
        return NotImplemented

    def __ge__(self, other):
        if isinstance(other, _SeqTimerHandle):
            return (self._when, self._seq) >= (other._when, other._seq)
        return NotImplemented

    def __eq__(self, other):
        return self is other

    __hash__ = asyncio.TimerHandle.__hash__


class VirtualLoop(asyncio.SelectorEventLoop):
    def __init__(self, clock):
        sel = _VirtualSelector(clock)
        super().__init__(selector=sel)
        sel.loop = self
        self._vclock = clock
        self._clock_resolution = 1e-9

    def time(self):
        return self._vclock.now

    def call_at(self, when, callback, *args, context=None):
        # as BaseEventLoop.call_at, with a FIFO tie-break for equal instants: the order in which one simulated process' timers fire
        # must not depend on which other timers happen to sit in the heap
        self._check_closed()
        timer = _SeqTimerHandle(when, callback, args, self, context)
        self._timer_seq = getattr(self, "_timer_seq", 0) + 1
        timer._seq = self._timer_seq
        heapq.heappush(self._scheduled, timer)
        timer._scheduled = True
        return timer

    # A re-entrancy-safe rendering of BaseEventLoop._run_once (no debug/slow-callback logging). It is needed because
    # run_executor_work() below runs ready callbacks from *inside* a callback (an actor handler) to model thread pre-emption.
    def _run_once(self):
        sched = self._scheduled
        while sched and sched[0]._cancelled:
            self._timer_cancelled_count -= 1
            h = heapq.heappop(sched)
            h._scheduled = False
        timeout = None
        if self._ready or self._stopping:
            timeout = 0
        elif sched:
            timeout = min(max(0, sched[0]._when - self.time()), 24 * 3600)
        event_list = self._selector.select(timeout)
        self._process_events(event_list)
        end_time = self.time() + self._clock_resolution
        while sched and sched[0]._when < end_time:
            h = heapq.heappop(sched)
            h._scheduled = False
            self._ready.append(h)
        for _ in range(len(self._ready)):
            if not self._ready:
                break
            h = self._ready.popleft()
            if h._cancelled:
                continue
            h._run()
        h = None

    def run_executor_work(self, until, is_actor_event):
        """
        Pre-emption point: called from inside an actor handler. Runs everything that is not an actor event (i.e. the work of
        executor threads: task steps, sleeps that end) and is due not later than `until`, advancing the virtual clock as needed.
        Actor events (message deliveries, wake-ups) stay queued: an actor never handles two messages at once, and deliveries to
        other actors are merely delayed a little, which Thespian allows.
        """
        ran = 0
        postponed = []
        while True:
            progressed = False
            # ready callbacks: drain completely before the clock may move on
            while self._ready:
                h = self._ready.popleft()
                if h._cancelled:
                    continue
                if is_actor_event(h):
                    postponed.append(h)
                    continue
                h._run()
                ran += 1
                progressed = True
            # timers due within the window
            sched = self._scheduled
            keep = []
            while sched and sched[0]._when <= until:
                h = heapq.heappop(sched)
                if h._cancelled:
                    self._timer_cancelled_count -= 1
                    h._scheduled = False
                    continue
                if is_actor_event(h):
                    keep.append(h)
                    continue
                h._scheduled = False
                self._vclock.now = max(self._vclock.now, h._when)
                self._ready.append(h)
                progressed = True
                break
            for h in keep:
                heapq.heappush(sched, h)
            if not progressed:
                break
        for h in postponed:
            self._ready.append(h)
        return ran

    # In production every worker process owns its event loop, and AsyncIoAdapter.run() closes *that* loop's asynchronous generators
    # when its clients are done. All simulated processes share this loop, so generators are tracked per simulated process.
    def _asyncgen_firstiter_hook(self, agen):
        super()._asyncgen_firstiter_hook(agen)
        self.__dict__.setdefault("_agens_by_proc", {}).setdefault(current_proc.get(), weakref.WeakSet()).add(agen)

    async def shutdown_asyncgens(self):
        gens = list(self.__dict__.setdefault("_agens_by_proc", {}).pop(current_proc.get(), ()))
        if not gens:
            return
        await asyncio.gather(*[g.aclose() for g in gens], return_exceptions=True)
        for g in gens:
            self._asyncgens.discard(g)


class patched:
    """context manager: setattr on module globals, restored on exit"""

    def __init__(self, *triples):
        self.triples = triples
        self.saved = []

    def __enter__(self):
        for obj, name, value in self.triples:
            self.saved.append((obj, name, getattr(obj, name, _MISSING)))
            setattr(obj, name, value)
        return self

    def __exit__(self, *exc):
        for obj, name, old in reversed(self.saved):
            if old is _MISSING:
                delattr(obj, name)
            else:
                setattr(obj, name, old)
        self.saved = []
        return False


_MISSING = object()


def time_patches(clock, on_sleep=None):
    """the (module, 'time', fake) triples for every Rally module that reads the clock on the load path"""
    import esrally.client.context
    import esrally.driver.driver
    import esrally.driver.runner
    import esrally.time
    import esrally.track.params

    fake = fake_time_module(clock, on_sleep)
    return [
        (esrally.driver.driver, "time", fake),
        (esrally.driver.runner, "time", fake),
        (esrally.client.context, "time", fake),
        (esrally.time, "time", fake),
        (esrally.track.params, "time", fake),
    ]


def run_virtual(clock, main, setup_loop=None):
    """runs coroutine `main` to completion on a fresh virtual loop; returns its result"""
    loop = VirtualLoop(clock)
    old = None
    try:
        try:
            old = asyncio.get_event_loop_policy().get_event_loop()
        except RuntimeError:
            old = None
        asyncio.set_event_loop(loop)
        if setup_loop:
            setup_loop(loop)
        return loop.run_until_complete(main)
    finally:
        try:
            pending = [t for t in asyncio.all_tasks(loop) if not t.done()]
            for t in pending:
                t.cancel()
            if pending:
                try:
                    loop.run_until_complete(asyncio.gather(*pending, return_exceptions=True))
                except (Quiescent, HorizonExceeded):
                    pass
        finally:
            asyncio.set_event_loop(None)
            loop.close()
