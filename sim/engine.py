"""
E1: cluster engine start/stop on the actor simulator.

The real MechanicActor, Dispatcher, NodeMechanicActor, mechanic.create and Mechanic.start_engine/stop_engine run; the node-level
collaborators (supplier, provisioners, launcher, provisioner.cleanup, race store, results store, calculate_system_results) are
recording stand-ins. Remote Rally daemons are simulated hosts that join (and possibly leave) at drawn virtual times.

Engine case (JSON):
  nodes        list of [ip index, port index, repeat]: target hosts; ip index 0 = 127.0.0.1 (coordinator), 1.. = remote daemons
  external     bool
  preserve     bool
  race_found   bool  (race store knows the race when system metrics are stored)
  joins        {ip index: [join time index]}     when each remote daemon joins the convention (index into JOIN_TIMES; -1 = already there)
  unrelated    None | join time index           an unrelated daemon joining
  delays       list of indexes into DELAYS (cycled), start_durations list of indexes into DURATIONS (cycled per launcher start)
  fault        None | {"kind": "start-fails", "host": k-th distinct (ip,port)} | {"kind": "daemon-leaves", "ip": ip index, "at": time index}
               | {"kind": "daemon-leaves-after-stop", "ip": ip index, "after": index into LEAVE_AFTER_STOP} (not a failure: the host has
               confirmed that its nodes are stopped when its daemon goes away)
"""
import asyncio

import thespian.actors as ta

import esrally.log
import esrally.utils.net
import esrally.utils.sysstats
from esrally import actor as rally_actor
from esrally import config, exceptions, metrics
from esrally.mechanic import cluster, launcher, mechanic, provisioner, supplier
from esrally.utils import opts

from sim import actors, kernel
from sim.race import Cycler

IPS = ["127.0.0.1", "10.0.0.2", "10.0.0.3", "10.0.0.4"]
PORTS = [9200, 9201]
DELAYS = [0.0, 0.0, 1 / 1024, 0.25, 2.0, 7.0]
JOIN_TIMES = [0.0, 0.5, 3.0, 9.0]
LEAVE_TIMES = [0.25, 1.0, 4.0, 9.5, 12.0]
LEAVE_AFTER_STOP = [0.0, 1 / 1024, 0.25, 2.0]
DURATIONS = [0.0, 0.5, 3.0]
PROC_STATES = ["alive", "alive", "alive", "gone", "hangs", "gone-at-terminate"]
BENCHMARK_DURATION = 40.0


class Log:
    def __init__(self, clock):
        self.clock = clock
        self.events = []

    def add(self, kind, **kw):
        self.events.append(dict(kind=kind, t=self.clock.now, proc=kernel.current_proc.get(), **kw))

    def of(self, kind):
        return [e for e in self.events if e["kind"] == kind]


class Node:
    def __init__(self, node_name, ip):
        self.node_name = node_name
        self.ip = ip

    def __repr__(self):
        return f"Node({self.node_name})"


class EngineResult:
    pass


def run_engine(case):
    clock = kernel.VirtualClock(horizon=2000.0)
    loop = kernel.VirtualLoop(clock)
    asyncio.set_event_loop(loop)
    log = Log(clock)
    delay_cycle = Cycler(case.get("delays"), DELAYS)
    dur_cycle = Cycler(case.get("start_durations"), DURATIONS)
    rt = actors.SimRuntime(loop, clock, delays=lambda *a: delay_cycle.next())
    rt.add_host("coordinator", {"coordinator": True, "ip": "127.0.0.1"})
    remote_hosts = {}
    used_ips = sorted({n[0] for n in case["nodes"] if n[0] != 0})
    for ipi in used_ips:
        h = rt.add_host(f"daemon-{ipi}", {"coordinator": False, "ip": IPS[ipi]})
        h.present = False
        remote_hosts[ipi] = h
    unrelated = None
    if case.get("unrelated") is not None:
        unrelated = rt.add_host("daemon-unrelated", {"coordinator": False, "ip": "10.0.0.99"})
        unrelated.present = False

    # ------------------------------------------------------------------ config
    cfg = config.Config()
    A = config.Scope.application
    host_strings = []
    for ipi, porti, repeat in case["nodes"]:
        host_strings += [f"{IPS[ipi]}:{PORTS[porti]}"] * repeat
    hosts = opts.TargetHosts(",".join(host_strings))
    cfg.add(A, "client", "hosts", hosts)
    cfg.add(A, "client", "options", opts.ClientOptions("timeout:60", target_hosts=hosts))
    cfg.add(A, "mechanic", "repository.revision", "abc")
    cfg.add(A, "mechanic", "preserve.install", bool(case.get("preserve")))
    cfg.add(A, "mechanic", "car.names", ["defaults"])
    cfg.add(A, "provisioning", "node.name.prefix", "rally-node")
    cfg.add(A, "system", "race.id", "sim-race")
    cfg.add(A, "system", "env.name", "sim")
    import datetime

    cfg.add(A, "system", "time.start", datetime.datetime(2023, 11, 14, 22, 13, 20))
    cfg.add(A, "reporting", "datastore.type", "in-memory")
    cfg.add(A, "node", "root.dir", "/tmp/verif-sim-engine")
    cfg.add(A, "race", "user.tags", {})

    # ------------------------------------------------------------------ stand-ins
    distinct = []
    for ipi, porti, _ in case["nodes"]:
        if (IPS[ipi], PORTS[porti]) not in distinct:
            distinct.append((IPS[ipi], PORTS[porti]))
    fault = case.get("fault")
    failing = distinct[fault["host"] % len(distinct)] if fault and fault["kind"] == "start-fails" else None

    class Provisioner:
        def __init__(self, ip, port, node_name):
            self.ip, self.port, self.node_name = ip, port, node_name

        def prepare(self, binaries):
            log.add("prepare", ip=self.ip, port=self.port, node=self.node_name)
            return provisioner.NodeConfiguration("tar", None, True, self.ip, self.node_name, f"/r/{self.node_name}", f"/r/{self.node_name}/install", [f"/r/{self.node_name}/data"])

    launcher_seq = [0]
    pid_seq = [4000]
    proc_state = {}  # pid -> "alive" | "gone" (died during the benchmark) | "gone-at-terminate" | "hangs" (needs kill -9)
    state_cycle = Cycler(case.get("proc_states"), PROC_STATES)
    real_psutil = launcher.psutil

    class NodeTelemetry:
        def __init__(self, node_name):
            self.node_name = node_name

        def detach_from_node(self, node, running):
            log.add("node-detach", node=node.node_name, running=running)

        def store_system_metrics(self, node, metrics_store):
            log.add("node-system-metrics", node=node.node_name)

    class Process:
        """what ProcessLauncher.stop sees of the operating system's processes"""

        def __init__(self, pid):
            self.pid = pid
            if proc_state.get(pid, "gone") == "gone":
                raise real_psutil.NoSuchProcess(pid)

        def terminate(self):
            if proc_state[self.pid] == "gone-at-terminate":
                raise real_psutil.NoSuchProcess(self.pid)
            log.add("node-terminate", pid=self.pid)

        def wait(self, timeout=None):
            if proc_state[self.pid] == "hangs":
                raise real_psutil.TimeoutExpired(timeout, self.pid)
            proc_state[self.pid] = "gone"

        def kill(self):
            log.add("node-kill", pid=self.pid)
            proc_state[self.pid] = "gone"

    class Psutil:
        NoSuchProcess = real_psutil.NoSuchProcess
        TimeoutExpired = real_psutil.TimeoutExpired

    Psutil.Process = Process

    class Launcher(launcher.ProcessLauncher):
        """starts nothing, but stops its nodes with the real ProcessLauncher.stop (processes and telemetry are stand-ins)"""

        def __init__(self, c):
            super().__init__(c)
            launcher_seq[0] += 1
            self.uid = launcher_seq[0]  # not id(): addresses are reused after garbage collection

        def start(self, node_configs):
            ip = node_configs[0].ip if node_configs else None
            names = [nc.node_name for nc in node_configs]
            # a start takes time: modelled as a jump of this process' clock is not possible, so the duration only orders the log
            log.add("launcher-start", ip=ip, nodes=names, launcher=self.uid)
            port = self.port
            if failing is not None and (ip, port) == failing:
                if fault is not None:
                    fault["fired_at"] = clock.now
                raise exceptions.LaunchError(f"sim: cannot start node on {ip}:{port}")
            started = []
            for n in names:
                pid_seq[0] += 1
                proc_state[pid_seq[0]] = state_cycle.next()
                started.append(cluster.Node(pid_seq[0], f"/r/{n}/install", ip, n, NodeTelemetry(n)))
            log.add("launcher-started", ip=ip, nodes=names, launcher=self.uid, port=port, pids={n.node_name: n.pid for n in started},
                    states={n.node_name: proc_state[n.pid] for n in started})
            return started

        def stop(self, nodes, metrics_store):
            log.add("launcher-stop", nodes=[n.node_name for n in nodes], launcher=self.uid)
            stopped = super().stop(nodes, metrics_store)
            log.add("launcher-stop-returned", launcher=self.uid, stopped=[n.node_name for n in stopped])
            return stopped

    def provisioner_local(c, car, plugins, node_ip, node_http_port, all_node_ips, all_node_names, race_root_path, node_name):
        log.add("provisioner-created", ip=node_ip, port=node_http_port, node=node_name, all_ips=sorted(all_node_ips), all_names=sorted(all_node_names))
        return Provisioner(node_ip, node_http_port, node_name)

    current_port = {}

    def supplier_create(c, sources, distribution, car, plugins):
        log.add("supplier-created")
        return lambda: {"elasticsearch": "/binaries/es.tar.gz"}

    real_create = mechanic.create

    def create(c, metrics_store, node_ip, node_http_port, *a, **kw):
        log.add("create", ip=node_ip, port=node_http_port)
        m = real_create(c, metrics_store, node_ip, node_http_port, *a, **kw)
        m.launcher.port = node_http_port
        real_close = metrics_store.close
        real_flush = metrics_store.flush

        def close():
            log.add("store-close", launcher=m.launcher.uid)
            return real_close()

        def flush(refresh=True):
            log.add("store-flush", refresh=refresh, launcher=m.launcher.uid)
            return real_flush(refresh=refresh)

        metrics_store.close = close
        metrics_store.flush = flush
        return m

    def cleanup(preserve, install_dir, data_paths):
        log.add("cleanup", preserve=preserve, install_dir=install_dir, data_paths=list(data_paths))

    class Race:
        def add_results(self, results):
            log.add("race-add-results", node=results["node"])

    class RaceStore:
        def find_by_race_id(self, race_id):
            if not case.get("race_found", True):
                raise exceptions.NotFound(f"No race with race id [{race_id}]")
            return Race()

    class ResultsStore:
        def store_results(self, race):
            log.add("store-results")

    def local_config(base, additional_sections=None, **kw):
        c = config.Config()
        for section in ("reporting", "system", "client", "mechanic", "provisioning", "node", "race"):
            c.add_all(base, section)
        return c

    def noop(*a, **kw):
        return None

    res = EngineResult()
    res.log = log
    res.rt = rt
    res.distinct = distinct
    res.fault = fault
    state = {"mechanic": None, "started": None, "failed": None, "stopped": None}
    res.state = state

    def on_external(msg, sender):
        name = type(msg).__name__
        if name == "EngineStarted":
            if state["started"] is None:
                state["started"] = clock.now
                # the benchmark runs for a while before race control asks to stop the engine

                def stop():
                    if state["failed"] is None:
                        rt.tell(state["mechanic"], mechanic.StopEngine())

                loop.call_later(BENCHMARK_DURATION, actors.ActorEvent(stop))
        elif name == "BenchmarkFailure":
            if state["failed"] is None:
                state["failed"] = clock.now
                # race control gives up: the benchmark actor (parent of the mechanic) exits
                rt.tell(state["mechanic"], ta.ActorExitRequest())
        elif name == "EngineStopped":
            if state["stopped"] is None:
                state["stopped"] = clock.now
                rt.tell(state["mechanic"], ta.ActorExitRequest())

    rt.on_external = on_external
    patches = kernel.time_patches(clock) + [
        (mechanic, "load_team", lambda c, external: (None, [])),
        (mechanic, "create", create),
        (mechanic.config, "auto_load_local_config", local_config),
        (supplier, "create", supplier_create),
        (provisioner, "local", provisioner_local),
        (provisioner, "cleanup", cleanup),
        (launcher, "ProcessLauncher", Launcher),
        (launcher, "psutil", Psutil),
        # (what add_metadata_for_node asks the machine; reading /proc/cpuinfo costs 0.2 s per stop)
        (esrally.utils.sysstats, "cpu_model", lambda: "sim cpu"),
        (esrally.utils.sysstats, "physical_cpu_cores", lambda: 4),
        (esrally.utils.sysstats, "logical_cpu_cores", lambda: 8),
        (metrics, "race_store", lambda c: RaceStore()),
        (metrics, "results_store", lambda c: ResultsStore()),
        (metrics, "calculate_system_results", lambda store, node_name: {"node": node_name}),
        (esrally.utils.net, "resolve", lambda h: h),
        (esrally.log, "post_configure_actor_logging", noop),
        (esrally.utils.console, "info", noop),
        (esrally.utils.console, "println", noop),
    ]
    _ = current_port, dur_cycle
    res.quiescent = False
    res.horizon = False
    res.blocking = None
    with kernel.patched(*patches):
        try:
            # daemons joining / leaving
            for ipi, h in remote_hosts.items():
                j = case.get("joins", {}).get(str(ipi), 0)
                if j == -1:
                    h.present = True
                else:
                    loop.call_at(JOIN_TIMES[j % len(JOIN_TIMES)], actors.ActorEvent(rt.host_joins, h))
            if unrelated is not None:
                loop.call_at(JOIN_TIMES[case["unrelated"] % len(JOIN_TIMES)], actors.ActorEvent(rt.host_joins, unrelated))
            if fault and fault["kind"] == "daemon-leaves" and remote_hosts:
                victim_ip = sorted(remote_hosts)[fault["ip"] % len(remote_hosts)]
                victim = remote_hosts[victim_ip]

                def leave():
                    # only a daemon that is part of the convention can leave it; later it does not come back
                    if state["started"] is None and state["failed"] is None and victim.present:
                        # Rally can only notice it if the dispatcher listens to the convention or one of its actors lives there
                        observable = bool(rt.convention_listeners) or any(a.alive and a.host is victim for a in rt.actors.values())
                        if observable:
                            fault["fired_at"] = clock.now
                            fault["dispatcher_listening"] = bool(rt.convention_listeners)
                        else:
                            fault["left_unobserved_at"] = clock.now
                        rt.host_leaves(victim)

                loop.call_at(LEAVE_TIMES[fault["at"] % len(LEAVE_TIMES)], actors.ActorEvent(leave))
            if fault and fault["kind"] == "daemon-leaves-after-stop" and remote_hosts:
                # the daemon of a remote host is shut down (or dies) right after its node mechanic has confirmed that its nodes are
                # stopped, while other hosts may still be busy stopping theirs
                victim_ip = sorted(remote_hosts)[fault["ip"] % len(remote_hosts)]
                victim_host = remote_hosts[victim_ip]

                confirmed = set()

                def on_send(tname):
                    if tname == "NodesStopped" and "left_at" not in fault:
                        proc = kernel.current_proc.get()
                        rec = next((a for a in rt.actors.values() if a.proc == proc), None)
                        if rec is not None and rec.host is victim_host:
                            confirmed.add(proc)
                        # (one daemon may run several node mechanics - one per (ip, port) of the target hosts: all of them have confirmed)
                        mechanics = [a for a in rt.actors.values() if a.alive and a.host is victim_host and isinstance(a.instance, mechanic.NodeMechanicActor)]
                        if rec is not None and rec.host is victim_host and all(a.proc in confirmed for a in mechanics):
                            fault["left_at"] = clock.now + LEAVE_AFTER_STOP[fault.get("after", 0) % len(LEAVE_AFTER_STOP)]
                            loop.call_at(fault["left_at"], actors.ActorEvent(rt.host_leaves, victim_host))

                rt.on_send = on_send
            state["mechanic"] = rt.create_actor(mechanic.MechanicActor, parent=None, requirements={"coordinator": True})
            rt.tell(
                state["mechanic"],
                mechanic.StartEngine(cfg, {"race-id": "sim-race", "race-timestamp": "20231114T221320Z", "track": "t", "challenge": "c", "car": ["defaults"]},
                                     False, not case.get("external"), bool(case.get("external")), False),
            )
            try:
                loop.run_forever()
            except kernel.Quiescent:
                res.quiescent = True
            except kernel.HorizonExceeded:
                res.horizon = True
            except kernel.BlockingCall as e:
                res.blocking = str(e)
        finally:
            asyncio.set_event_loop(None)
            loop.close()
    res.inbox = rt.external_inbox
    res.t_end = clock.now
    _ = rally_actor
    return res
