#!/venv/bin/python
"""
Sensitivity audit (development aid, not a registered check).

  tools/mutation_audit.py C06 [--tests] [--examples N] [--only NAME]

For every mutants/<ID>/*.patch: copy /repo (without .git) to a scratch directory outside /repo and /verif, apply the patch,
run the quick check with --repo <copy>, expect exit 1; optionally (--tests) run the unit test files named in the patch header
line '# tests: tests/x_test.py ...' and expect them to pass (the mutant must be invisible to the existing suite).
The copy is removed afterwards. Prints one line per mutant.
"""
import argparse
import glob
import os
import shutil
import subprocess
import sys
import tempfile

ROOT = os.path.dirname(os.path.dirname(os.path.abspath(__file__)))


def main():
    ap = argparse.ArgumentParser()
    ap.add_argument("pid")
    ap.add_argument("--tests", action="store_true")
    ap.add_argument("--examples", type=int, default=None)
    ap.add_argument("--only", default=None)
    ap.add_argument("--tier", default="quick")
    ap.add_argument("--seeded", action="store_true", help="run against seeded/<ID>*/patch.diff instead of mutants/<ID>/*.patch")
    args = ap.parse_args()
    patches = sorted(glob.glob(os.path.join(ROOT, "mutants", args.pid, "*.patch")))
    if args.seeded:  # the independently seeded changes of this property (seeded/<ID>, <ID>-r2, ...)
        patches = sorted(glob.glob(os.path.join(ROOT, "seeded", args.pid + "*", "patch.diff")))
    if args.only:
        patches = [p for p in patches if args.only in (os.path.basename(os.path.dirname(p)) if args.seeded else os.path.basename(p))]
    results = []
    for patch in patches:
        scratch = tempfile.mkdtemp(prefix="verif-mut-", dir="/tmp")
        try:
            copy = os.path.join(scratch, "repo")
            shutil.copytree("/repo", copy, ignore=shutil.ignore_patterns(".git", "__pycache__", "logs", "docs", ".venv"))
            r = subprocess.run(["patch", "-p1", "-s", "-d", copy, "-i", patch], capture_output=True, text=True)
            if r.returncode != 0:
                results.append((patch, "PATCH-FAILED", r.stdout + r.stderr))
                continue
            tests_ok = None
            if args.tests:
                tests = []
                for line in open(patch):
                    if line.startswith("# tests:"):
                        tests = line.split(":", 1)[1].split()
                if tests:
                    env = dict(os.environ, PYTHONPATH=copy)
                    t = subprocess.run(["/venv/bin/python", "-m", "pytest", "-q", "-x", "-p", "no:cacheprovider", *tests], cwd=copy, env=env,
                                       capture_output=True, text=True)
                    tests_ok = t.returncode == 0
            cmd = ["/venv/bin/python", os.path.join(ROOT, "run_check.py"), args.pid, "--tier", args.tier, "--repo", copy]
            if args.examples:
                cmd += ["--examples", str(args.examples)]
            env = dict(os.environ, VERIF_SHRINK_S="5", VERIF_OUT_DIR=os.path.join(scratch, "out"))
            c = subprocess.run(cmd, cwd=ROOT, capture_output=True, text=True, env=env)
            sigs = [l for l in c.stdout.splitlines() if l.startswith("violation signature=")]
            verdict = {0: "MISSED", 1: "CAUGHT", 2: "HARNESS-ERROR"}.get(c.returncode, f"exit{c.returncode}")
            detail = "; ".join(s.replace("violation signature=", "") for s in sigs)
            if c.returncode == 2:
                detail = c.stderr[-600:]
            results.append((patch, verdict + ("" if tests_ok is None else (" tests-pass" if tests_ok else " TESTS-FAIL")), detail))
        finally:
            shutil.rmtree(scratch, ignore_errors=True)
    for patch, verdict, detail in results:
        name = os.path.basename(os.path.dirname(patch)) if args.seeded else os.path.basename(patch)
        print(f"{args.pid} {name:45s} {verdict:22s} {detail}")
    return 0 if all(v.startswith("CAUGHT") for _, v, _ in results) else 1


if __name__ == "__main__":
    sys.exit(main())
