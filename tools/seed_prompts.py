#!/venv/bin/python
"""
Writes the prompts for a round of independently seeded changes (development-time tool, see DESIGN 11).

  tools/seed_prompts.py <round number> <output dir> [ID ...]

One prompt per property: the property text (from properties.jsonl), the task, what earlier rounds tried (summary and trigger from
seeded/<ID>*/meta.json - the only thing of /verif an adversary gets to see, so that it does something different) and the deliverables.
The adversary works in its own scratch worktree /tmp/seed<round>-<ID> (created here if missing) and never sees /verif.
"""
import glob
import json
import os
import subprocess
import sys

ROOT = os.path.dirname(os.path.dirname(os.path.abspath(__file__)))

HINTS = (
    "The verification effort is known to be decent at obvious boundary cases; what tends to slip through are: a value that is only wrong in its "
    "*second* use, an effect that needs three or more steps, interactions between two features that are each tested alone (e.g. a filter AND a "
    "default, a retry AND a cancellation, a warm-up AND a throttle), rarely used but documented options, values that are off only by a small "
    "relative amount, state that survives from one run / task / request to the next, and behaviour that depends on volume (thousands of items) "
    "or on exception sub-classes, two clients of one worker using a shared object at overlapping times, list inputs with repeated or re-ordered "
    "entries, and a documented option meeting an error path."
)


def main():
    rnd, out = int(sys.argv[1]), sys.argv[2]
    only = set(sys.argv[3:])
    os.makedirs(out, exist_ok=True)
    for line in open(os.path.join(ROOT, "properties.jsonl")):
        p = json.loads(line)
        pid = p["id"]
        if only and pid not in only:
            continue
        wt = f"/tmp/seed{rnd}-{pid}"
        if not os.path.isdir(wt):
            subprocess.run(["git", "-C", "/repo", "worktree", "add", "-q", "--detach", wt, "HEAD"], check=True)
        earlier = []
        for mp in sorted(glob.glob(os.path.join(ROOT, "seeded", pid + "*", "meta.json"))):
            m = json.load(open(mp))
            earlier.append(f'  - "{m.get("summary", "")[:420]}" (needed: "{m.get("needs_to_manifest", "")[:260]}")')
        a = p["anchors"]
        text = f"""You are a careful senior engineer helping to evaluate a verification effort by playing the adversary. You work ONLY inside the git worktree {wt} (a checkout of elastic/rally, Elastic's Python benchmarking framework; run things with /venv/bin/python, e.g. `cd {wt} && PYTHONPATH={wt} /venv/bin/python -m pytest -q -p no:cacheprovider tests/...`; IMPORTANT: always set PYTHONPATH={wt} so that the worktree's esrally package is imported and not the one installed from /repo). Do NOT read or touch anything under /verif or /repo, and do not look at other /tmp/seed* directories. No network.

The following semantic property of Rally is supposed to hold:

ID: {pid}
TITLE: {p['title']}
STATEMENT: {p['statement']}
QUANTIFIED OVER: {p['quantifier']['text']}
WHY UNIT TESTS CANNOT SETTLE IT: {p['why_tests_cant']}
CODE ANCHORS: files {a['files']}; mechanisms {json.dumps(a['mechanism'])}

YOUR TASK: produce ONE realistic change to the elastic/rally source (under esrally/, not tests) that BREAKS this property while the code still imports/compiles and the EXISTING test suite still passes unchanged. Make it the kind of regression a plausible refactoring, optimisation or 'small fix' could introduce, 1-15 changed lines. It must need something SPECIFIC to manifest - a particular interleaving / message delay, a crash or fault at a particular point, a multi-step sequence of operations, an unusual (but valid) input, or two cooperating sites that each look fine alone - NOT something that ordinary use or a trivial smoke test would expose at once. Do not just revert a recent commit of the repository; invent your own change. Avoid changes that break the property for (nearly) every input. The change must break the property AS STATED (quote the clause you break in your report); a change that is arguably an acceptable behaviour change does not count.

THIS IS ROUND {rnd}. Previous adversaries already tried these ideas, so do something DIFFERENT from all of them - another clause of the statement, another code site, another kind of trigger:
{chr(10).join(earlier)}
Go through the statement clause by clause (and the 'quantified over' list item by item) and pick a clause / input dimension none of these ideas touched. {HINTS}

DELIVERABLES, all inside {wt}/SEED/ (create the directory):
1. patch.diff - `git diff` of your change (source only, apply-able with `git apply` on a clean checkout of this worktree's HEAD).
2. demo_test.py - a self-contained pytest file (or plain script exiting non-zero on failure) that demonstrates the breakage: it FAILS with your change applied and PASSES on the unchanged code. It may use mocks/fakes freely and should run in a few seconds. Run it as `cd {wt} && PYTHONPATH={wt} /venv/bin/python -m pytest -q -p no:cacheprovider SEED/demo_test.py`.
3. meta.json - {{"property": "{pid}", "summary": "<one sentence: what the change does>", "needs_to_manifest": "<the specific input / interleaving / fault / sequence needed>", "files_changed": [...], "ran": ["<commands you ran and their outcome>"]}}.

VERIFY YOURSELF before finishing: (a) with the change applied, the existing suite passes: `cd {wt} && PYTHONPATH={wt} /venv/bin/python -m pytest -q -p no:cacheprovider --timeout=900 --continue-on-collection-errors --ignore=SEED` (expected on the unchanged code: 1268 passed, 1 failed [launcher_test test_daemon_start_stop], 3 collection errors - those 4 are pre-existing and do not count; the machine is busy, the suite may take a few minutes); (b) demo fails with the change; (c) `git checkout -- esrally` to remove the change, demo passes; then re-apply the change from patch.diff and leave the worktree WITH the change applied and SEED/ filled. Do not commit.

Final answer: a short report (what you changed, why the existing tests do not notice, what it takes to manifest, the exact commands you ran with outcomes).
"""
        with open(os.path.join(out, pid + ".txt"), "w") as f:
            f.write(text)
        print(pid, wt, len(earlier), "earlier ideas")


if __name__ == "__main__":
    main()
