#!/bin/bash
# runs every registered quick (or thorough) check, N at a time; prints one line per check. usage: tools/run_all.sh [quick|thorough] [parallelism]
TIER=${1:-quick}; PAR=${2:-6}
cd "$(dirname "$0")/.."
ids=${IDS:-$(/venv/bin/python -c "import json; print(' '.join(c['property_id'] for c in json.load(open('MANIFEST.json'))['checks']))")}
mkdir -p /tmp/verif-runall
printf '%s\n' $ids | xargs -P $PAR -I{} sh -c "/venv/bin/python run_check.py {} --tier $TIER > /tmp/verif-runall/{}.log 2>&1; echo {} exit=\$? \$(grep -c KNOWN-FINDING /tmp/verif-runall/{}.log) known; tail -1 /tmp/verif-runall/{}.log | cut -c1-200"
