#!/bin/bash
# usage: tools/mkmut.sh <ID> <name> <file-relative-to-repo> <python-regex-or-literal old> <new> [tests...]
# creates mutants/<ID>/<name>.patch by replacing exactly one occurrence of <old> with <new> in a scratch copy
set -e
trap 'rm -rf "$TMP"' EXIT
ID=$1; NAME=$2; FILE=$3; OLD=$4; NEW=$5; shift 5
mkdir -p /verif/mutants/$ID
TMP=$(mktemp -d /tmp/verif-mk-XXXX)
mkdir -p $TMP/a/$(dirname $FILE) $TMP/b/$(dirname $FILE)
cp /repo/$FILE $TMP/a/$FILE
OLD="$OLD" NEW="$NEW" /venv/bin/python - "$TMP/a/$FILE" "$TMP/b/$FILE" <<'PY'
import os, sys
s = open(sys.argv[1]).read()
old, new = os.environ["OLD"], os.environ["NEW"]
n = s.count(old)
if n != 1:
    sys.exit(f"expected exactly one occurrence, found {n}")
open(sys.argv[2], "w").write(s.replace(old, new))
PY
( echo "# $NAME"; echo "# tests: $*"; cd $TMP && diff -u a/$FILE b/$FILE ) > /verif/mutants/$ID/$NAME.patch || true
rm -rf $TMP
echo "wrote mutants/$ID/$NAME.patch"
