#!/venv/bin/python
"""
Confirms an independently seeded change and runs the checks against it.

  tools/seed_verify.py <worktree with SEED/> [--checks C01,C07] [--tier quick] [--keep-as NAME] [--no-suite]

1. copies /repo (clean HEAD working tree) to a scratch directory twice: one stays clean, one gets SEED/patch.diff applied;
2. demo must FAIL on the patched copy and PASS on the clean copy;
3. the repository's test suite on the patched copy must not fail anything outside the baseline's always-fail / flaky sets;
4. runs the named checks (default: the property in meta.json) with --repo <patched copy>: CAUGHT (exit 1) / MISSED (exit 0);
5. if 2 and 3 hold, stores patch.diff, the demo and meta.json (+ what was run here) under /verif/seeded/<NAME>/.
Scratch copies are removed.
"""
import argparse
import json
import os
import re
import shutil
import subprocess
import sys
import tempfile

ROOT = os.path.dirname(os.path.dirname(os.path.abspath(__file__)))
PY = "/venv/bin/python"


def run(cmd, cwd=None, env=None, timeout=3600):
    p = subprocess.run(cmd, cwd=cwd, env=env, capture_output=True, text=True, timeout=timeout)
    return p.returncode, p.stdout + p.stderr


def copy_repo(dst):
    shutil.copytree("/repo", dst, ignore=shutil.ignore_patterns(".git", "__pycache__", "logs", ".venv", "SEED"))


def main():
    ap = argparse.ArgumentParser()
    ap.add_argument("worktree")
    ap.add_argument("--checks", default=None)
    ap.add_argument("--tier", default="quick")
    ap.add_argument("--keep-as", default=None)
    ap.add_argument("--no-suite", action="store_true")
    ap.add_argument("--examples", type=int, default=None)
    ap.add_argument("--no-replays", action="store_true", help="switch the replay tier off: is the change also found by the generated search?")
    ap.add_argument("--no-keep", action="store_true")
    args = ap.parse_args()
    seed = os.path.join(args.worktree, "SEED")
    meta = json.load(open(os.path.join(seed, "meta.json")))
    pid = meta["property"]
    demos = [f for f in os.listdir(seed) if f.startswith("demo") and f.endswith(".py")]
    if not demos:
        print("no demo file")
        return 2
    scratch = tempfile.mkdtemp(prefix="verif-seed-", dir="/tmp")
    report = {"property": pid, "worktree": args.worktree}
    try:
        clean, patched = os.path.join(scratch, "clean"), os.path.join(scratch, "patched")
        copy_repo(clean)
        copy_repo(patched)
        rc, out = run(["patch", "-p1", "-s", "-d", patched, "-i", os.path.join(seed, "patch.diff")])
        report["patch_applies"] = rc == 0
        if rc != 0:
            print(json.dumps(report, indent=1), out[-2000:])
            return 2
        for d in (clean, patched):
            os.makedirs(os.path.join(d, "SEED"), exist_ok=True)
            for f in os.listdir(seed):
                if f.endswith(".py") or f.endswith(".json") and f != "meta.json":
                    shutil.copy(os.path.join(seed, f), os.path.join(d, "SEED", f))
        res = {}
        for name, d in (("clean", clean), ("patched", patched)):
            env = dict(os.environ, PYTHONPATH=d, PYTHONDONTWRITEBYTECODE="1")
            demo = demos[0]
            if open(os.path.join(seed, demo)).read().find("def test_") >= 0:
                cmd = [PY, "-m", "pytest", "-q", "-x", "-p", "no:cacheprovider", os.path.join("SEED", demo)]
            else:
                cmd = [PY, os.path.join("SEED", demo)]
            rc, out = run(cmd, cwd=d, env=env, timeout=900)
            res[name] = rc
            report[f"demo_{name}_exit"] = rc
            report[f"demo_{name}_tail"] = out.strip().splitlines()[-1:] if out.strip() else []
        report["demo_ok"] = res["clean"] == 0 and res["patched"] != 0
        if not args.no_suite:
            env = dict(os.environ, PYTHONPATH=patched, PYTHONDONTWRITEBYTECODE="1")
            rc, out = run([PY, "-m", "pytest", "-q", "-p", "no:cacheprovider", "--timeout=900", "--continue-on-collection-errors", "-rfE", "--ignore=SEED"], cwd=patched, env=env, timeout=1800)
            failed = sorted(set(re.findall(r"^(?:FAILED|ERROR) (\S+)", out, re.M)))
            allowed = ("tests/mechanic/launcher_test.py::TestProcessLauncher::test_daemon_start_stop", "tests/client/factory_test.py", "tests/utils/git_test.py",
                       "tests/utils/net_test.py", "tests/driver/driver_test.py::TestAsyncExecutor::test_execute_schedule_throughput_throttled")
            new_failures = [f for f in failed if not f.startswith(allowed)]
            report["suite_tail"] = out.strip().splitlines()[-1:]
            report["suite_new_failures"] = new_failures
            report["suite_ok"] = not new_failures
        checks = (args.checks.split(",") if args.checks else [pid])
        report["checks"] = {}
        for cid in checks:
            env = dict(os.environ, VERIF_SHRINK_S="5", VERIF_OUT_DIR=os.path.join(scratch, "out"))
            if args.no_replays:
                env["VERIF_NO_REPLAYS"] = "1"
            cmd = [PY, os.path.join(ROOT, "run_check.py"), cid, "--tier", args.tier, "--repo", patched]
            if args.examples:
                cmd += ["--examples", str(args.examples)]
            rc, out = run(cmd, cwd=ROOT, env=env, timeout=7200)
            sigs = [l.replace("violation signature=", "") for l in out.splitlines() if l.startswith("violation signature=")]
            report["checks"][cid] = {"verdict": {0: "MISSED", 1: "CAUGHT", 2: "HARNESS-ERROR"}.get(rc, f"exit{rc}"), "signatures": sigs,
                                     "tier": args.tier, "tail": out.strip().splitlines()[-1:] if rc == 2 else []}
        confirmed = report["demo_ok"] and report.get("suite_ok", True)
        report["confirmed"] = confirmed
        if confirmed and not args.no_keep:
            name = args.keep_as or pid
            dst = os.path.join(ROOT, "seeded", name)
            os.makedirs(dst, exist_ok=True)
            shutil.copy(os.path.join(seed, "patch.diff"), os.path.join(dst, "patch.diff"))
            for f in demos:
                shutil.copy(os.path.join(seed, f), os.path.join(dst, f))
            meta["verified_by_lead"] = {k: v for k, v in report.items() if k not in ("worktree",)}
            json.dump(meta, open(os.path.join(dst, "meta.json"), "w"), indent=1)
        print(json.dumps(report, indent=1))
        return 0
    finally:
        shutil.rmtree(scratch, ignore_errors=True)


if __name__ == "__main__":
    sys.exit(main())
