#!/venv/bin/python
"""Regenerates MANIFEST.json from the check modules' metadata (ID, LEVEL, TECHNIQUE, LEVEL_TEXT, LEVEL_NOTE, DESIGN_REF)."""
import glob
import importlib
import json
import os
import sys

ROOT = os.path.dirname(os.path.dirname(os.path.abspath(__file__)))
sys.path.insert(0, ROOT)
sys.path.insert(0, "/repo")

ALL = [f"C{i:02d}" for i in range(1, 21)]
NOT_BUILT_REASON = "check not built yet in this session (planned, see DESIGN.md section 4); not claimed until its command exists"


def main():
    # only checks reviewed by the lead are registered
    ready = set(json.load(open(os.path.join(ROOT, "tools", "ready.json"))))
    checks = []
    claimed = set()
    for path in sorted(glob.glob(os.path.join(ROOT, "checks", "c[0-9][0-9]_*.py"))):
        if os.path.basename(path)[:3].upper() not in ready:
            continue
        mod = importlib.import_module("checks." + os.path.basename(path)[:-3])
        if getattr(mod, "DISABLED", False):
            continue
        pid = mod.ID
        if pid not in ready:
            continue
        claimed.add(pid)
        entry = {
            "property_id": pid,
            "quick_cmd": f"/venv/bin/python run_check.py {pid} --tier quick",
            "thorough_cmd": f"/venv/bin/python run_check.py {pid} --tier thorough",
            "evidence_file": f"/verif/evidence/{pid}.json",
            "replay_cmd_template": f"/venv/bin/python run_check.py {pid} --replay {{path}}",
            "engine": getattr(mod, "ENGINE", "hypothesis"),
            "level_claimed": {
                "category": mod.LEVEL,
                "text": getattr(mod, "LEVEL_TEXT", mod.RULE),
                "design_ref": f"DESIGN.md section 4, {pid}",
            },
            "level_note": getattr(mod, "LEVEL_NOTE", "; ".join(mod.ASSUMPTIONS)),
            "technique": mod.TECHNIQUE,
        }
        checks.append(entry)
    na_file = os.path.join(ROOT, "tools", "not_applicable.json")
    na_reasons = json.load(open(na_file)) if os.path.exists(na_file) else {}
    manifest = {
        "version": 1,
        "setup_cmd": "/venv/bin/python tools/setup.py",
        "hooks": {
            "guard": "RALLY_VERIF_HOOKS",
            "enable": "no hooks: every seam used by the harness is a module global, instance attribute or keyword default substituted from the harness process; checks import /repo's working tree directly (sys.path[0]=/repo)",
            "baseline_off_cmd": "cd /repo && /venv/bin/python -m pytest -ra -q -p no:cacheprovider --timeout=900 --continue-on-collection-errors",
            "source_commits": [],
            "add_only": True,
        },
        "engines": [
            {"name": "hypothesis-driver", "path": "vlib/core.py", "serves_properties": sorted(claimed),
             "kind_free_text": "Hypothesis 6.168 strategies -> JSON case -> run_case against the real Rally code; bounded shrinking with root-cause muting; "
                               "16-shard thorough tier; replay files and probes bypass the library; evidence writer"},
            {"name": "E1-simsys", "path": "sim/", "serves_properties": ["C01", "C03", "C04", "C05", "C07", "C09", "C11", "C12", "C18"],
             "kind_free_text": "virtual-time simulator: virtual clock + asyncio loop (sim/kernel.py), Thespian actor runtime with generated message delays, "
                               "process boundaries, retry/poison/exit semantics and pre-emption points (sim/actors.py), scripted Elasticsearch endpoint, runner and "
                               "parameter source (sim/world.py), scenario runners for one task (sim/loadgen.py), a whole race incl. racecontrol.race() and fault "
                               "injection (sim/race.py) and engine start/stop (sim/engine.py); self-test against thespian simpleSystemBase (sim/selftest.py)"},
            {"name": "E2-generators", "path": "gen/", "serves_properties": sorted(claimed),
             "kind_free_text": "Hypothesis strategies that construct valid inputs: schedules and filters, races, single tasks, tracks, corpora, ES responses, "
                               "metric records and race results, team directories"},
            {"name": "E3-faultlab", "path": "lab/", "serves_properties": ["C14", "C19", "C02", "C11"],
             "kind_free_text": "real files/archives, loopback HTTP server playing fault scripts, fork-and-kill crash points (C14); atheris driver (C19); allocator oracle (C02/C11)"},
        ],
        "checks": checks,
        "notes": "All checks: /venv/bin/python run_check.py <ID> --tier quick|thorough [--replay FILE]. Exit 0 held / 1 VIOLATION / 2 harness error. Known and fixed findings: known_findings.json.",
        "not_applicable": [
            {"property_id": pid, "reason": na_reasons.get(pid, NOT_BUILT_REASON)} for pid in ALL if pid not in claimed
        ],
    }
    with open(os.path.join(ROOT, "MANIFEST.json"), "w") as f:
        json.dump(manifest, f, indent=1)
        f.write("\n")
    try:
        import jsonschema

        jsonschema.validate(manifest, json.load(open("/root/.vp/MANIFEST.schema.json")))
        print("MANIFEST valid;", len(checks), "checks")
    except ImportError:
        print("jsonschema not available; MANIFEST written,", len(checks), "checks")


if __name__ == "__main__":
    main()
