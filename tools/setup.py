#!/venv/bin/python
"""setup_cmd: offline, idempotent. Makes sure hypothesis is importable from /venv (it is pre-installed there; installs from the
offline wheelhouse otherwise) and installs atheris into /verif/.deps for the thorough tier of C19 (best effort)."""
import os
import subprocess
import sys

ROOT = os.path.dirname(os.path.dirname(os.path.abspath(__file__)))
WHEELS = "/opt/veriftools/wheels"


def pip(*args):
    return subprocess.call([sys.executable, "-m", "pip", "install", "--no-index", "--find-links", WHEELS, "-q", *args])


def main():
    try:
        import hypothesis  # noqa

        print("hypothesis", hypothesis.__version__, "present")
    except ImportError:
        if pip("hypothesis") != 0:
            print("cannot install hypothesis", file=sys.stderr)
            return 1
    deps = os.path.join(ROOT, ".deps")
    if not os.path.isdir(os.path.join(deps, "atheris")):
        rc = pip("--target", deps, "atheris")
        print("atheris install rc", rc, "(optional)")
    os.makedirs(os.path.join(ROOT, "evidence"), exist_ok=True)
    return 0


if __name__ == "__main__":
    sys.exit(main())
