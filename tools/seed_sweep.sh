#!/bin/bash
# quick tier of every registered check under several VERIF_SEED values; evidence/found go to a scratch dir. usage: tools/seed_sweep.sh "11 12 13" [parallelism]
SEEDS=${1:-"11 12 13"}; PAR=${2:-6}
cd "$(dirname "$0")/.."
ids=$(/venv/bin/python -c "import json; print(' '.join(c['property_id'] for c in json.load(open('MANIFEST.json'))['checks']))")
OUT=$(mktemp -d /tmp/verif-sweep-XXXX)
for s in $SEEDS; do for id in $ids; do echo "$s $id"; done; done | xargs -P $PAR -L 1 sh -c 'VERIF_SEED=$0 VERIF_OUT_DIR='$OUT'/s$0 /venv/bin/python run_check.py $1 --tier quick > '$OUT'/$1-s$0.log 2>&1; echo "$1 seed=$0 exit=$?"'
echo "logs in $OUT"
