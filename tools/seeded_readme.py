#!/venv/bin/python
"""regenerates seeded/README.md from seeded/*/meta.json"""
import json
import os

ROOT = os.path.dirname(os.path.dirname(os.path.abspath(__file__)))
HEAD = """# Independently seeded changes

Each directory holds a change to elastic/rally written by a fresh sub-agent that saw only the property text and its own scratch worktree
(nothing from /verif): `patch.diff`, the agent's demonstration `demo_test.py` (fails with the change, passes without) and `meta.json`.
Every change was confirmed by `tools/seed_verify.py`: the demonstration fails on a patched copy of /repo and passes on a clean one, the repository's
test suite shows no failure outside the baseline's always-fail/flaky set, then the registered quick check of the property ran with `--repo <patched copy>`.
None of these patches is applied to /repo. `<ID>` = round 1, `<ID>-r2` = round 2, `<ID>-r3` … `<ID>-r9` = rounds 3 to 9 (the agent was told what the earlier rounds had tried and asked for a different clause,
code site and trigger).

| seed | change | needs to manifest | quick tier now | signatures | history |
|---|---|---|---|---|---|
"""


def main():
    rows = []
    missed = 0
    for name in sorted(os.listdir(os.path.join(ROOT, "seeded"))):
        mp = os.path.join(ROOT, "seeded", name, "meta.json")
        if not os.path.exists(mp):
            continue
        m = json.load(open(mp))
        v = m.get("verified_by_lead", {})
        checks = v.get("checks", {})
        verdicts = ", ".join(f"{cid}: {c['verdict']}" for cid, c in checks.items())
        sigs = ", ".join(sorted({s.split(" origin=")[0] for c in checks.values() for s in c.get("signatures", [])[:3]}))
        hist = m.get("history", "")
        if hist.startswith("MISSED") or hist.startswith("HARNESS ERROR"):
            missed += 1
        rows.append((name, m.get("summary", "").replace("|", "/")[:260], m.get("needs_to_manifest", "").replace("|", "/")[:220], verdicts, sigs, hist))
    with open(os.path.join(ROOT, "seeded", "README.md"), "w") as f:
        f.write(HEAD)
        for r in rows:
            f.write("| " + " | ".join(str(x) for x in r) + " |\n")
        f.write(f"\n{len(rows)} confirmed changes; {len(rows) - missed} were caught by the checks as they stood when the change arrived, {missed} were missed at first and led to the "
                "strengthening named in the history column, after which all are caught by the quick tier - by the check of their own property (C04-r9 was caught by C07 before C04 caught it) except C03-r6 (caught by C14), "
                "C07-r5 (C18) and C12-r7 (C13), whose code site belongs to the other property.\n")
    print(len(rows), "rows,", missed, "missed at first")


if __name__ == "__main__":
    main()
