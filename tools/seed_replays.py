#!/venv/bin/python
"""
Turns the seeded changes of a property into replay cases (development-time tool).

  tools/seed_replays.py <ID> [--seeds 1,2,3]

For every seeded/<ID>*/patch.diff: copy /repo to a scratch directory, apply the patch, run the quick check with --repo <copy> (replay tier
off, so that the generated search has to find it) under the given seeds until it reports a violation, and keep the first shrunk failing
case it wrote as replays/<ID>/seeded-<name>.json - unless that case is already caught by an existing replay file. The case is then
replayed against the unchanged /repo: it must pass there (otherwise it is not kept and the tool says so).
A change that is only caught by a probe, by an enumerated case or by another property's check yields no replay file.
"""
import argparse
import glob
import json
import os
import shutil
import subprocess
import sys
import tempfile

ROOT = os.path.dirname(os.path.dirname(os.path.abspath(__file__)))
PY = "/venv/bin/python"


def main():
    ap = argparse.ArgumentParser()
    ap.add_argument("pid")
    ap.add_argument("--seeds", default="1,2,3")
    args = ap.parse_args()
    pid = args.pid
    out_dir = os.path.join(ROOT, "replays", pid)
    kf = json.load(open(os.path.join(ROOT, "known_findings.json")))
    known = {e.get("signature") for e in kf.get("findings", []) if e.get("property") == pid and e.get("status") == "known"}
    for patch in sorted(glob.glob(os.path.join(ROOT, "seeded", pid + "*", "patch.diff"))):
        name = os.path.basename(os.path.dirname(patch))
        target = os.path.join(out_dir, f"seeded-{name}.json")
        if os.path.exists(target):
            print(pid, name, "replay exists")
            continue
        scratch = tempfile.mkdtemp(prefix="verif-sr-", dir="/tmp")
        try:
            copy = os.path.join(scratch, "repo")
            shutil.copytree("/repo", copy, ignore=shutil.ignore_patterns(".git", "__pycache__", "logs", "docs", ".venv"))
            if subprocess.run(["patch", "-p1", "-s", "-d", copy, "-i", patch], capture_output=True).returncode != 0:
                print(pid, name, "PATCH-FAILED")
                continue
            # already caught by the replay tier / probes as they are?
            env = dict(os.environ, VERIF_SHRINK_S="20", VERIF_OUT_DIR=os.path.join(scratch, "out0"))
            c = subprocess.run([PY, os.path.join(ROOT, "run_check.py"), pid, "--tier", "quick", "--examples", "0", "--repo", copy], cwd=ROOT, env=env,
                               capture_output=True, text=True)
            if c.returncode == 1:
                print(pid, name, "already caught by probes / replays / enumerated cases")
                continue
            kept = False
            for seed in args.seeds.split(","):
                out = os.path.join(scratch, "out" + seed)
                env = dict(os.environ, VERIF_SHRINK_S="20", VERIF_OUT_DIR=out, VERIF_NO_REPLAYS="1", VERIF_SEED=seed)
                c = subprocess.run([PY, os.path.join(ROOT, "run_check.py"), pid, "--tier", "quick", "--repo", copy], cwd=ROOT, env=env, capture_output=True, text=True)
                found = sorted(glob.glob(os.path.join(out, "found", pid, "*.json")))
                # (witnesses of known findings are written there too: only a case whose signature is not a listed finding counts)
                found = [f for f in found if json.load(open(f)).get("signature") not in known]
                if c.returncode == 1 and found:
                    d = json.load(open(found[0]))
                    if d.get("origin", "generated") != "generated":
                        print(pid, name, f"caught by {d.get('origin')} only")
                        kept = True
                        break
                    os.makedirs(out_dir, exist_ok=True)
                    json.dump({"case": d["case"], "note": f"shrunk case with which the generated search caught the seeded change {name} ({d['signature']})",
                               "origin": f"seeded/{name}"}, open(target, "w"), indent=1)
                    ok = subprocess.run([PY, os.path.join(ROOT, "run_check.py"), pid, "--replay", target], cwd=ROOT, capture_output=True, text=True)
                    if ok.returncode != 0:
                        os.replace(target, os.path.join("/tmp", f"notkept-{name}.json"))
                        print(pid, name, "NOT KEPT: the case also fails on the unchanged tree:", ok.stdout[-300:])
                    else:
                        print(pid, name, "kept", d["signature"])
                    kept = True
                    break
            if not kept:
                print(pid, name, "not caught by the generated search under seeds", args.seeds)
        finally:
            shutil.rmtree(scratch, ignore_errors=True)
    return 0


if __name__ == "__main__":
    sys.exit(main())
