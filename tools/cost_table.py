#!/venv/bin/python
"""
Prints the cost table of DESIGN 8 from evidence files.

  tools/cost_table.py [<directory with the thorough tier's evidence files>]

Quick-tier numbers come from /verif/evidence (the committed files); thorough-tier numbers, if a directory is given, from the
evidence files a thorough run wrote there (e.g. /root/.vp/runs/<n>/verif/evidence).
"""
import glob
import json
import os
import sys

ROOT = os.path.dirname(os.path.dirname(os.path.abspath(__file__)))


def load(d):
    out = {}
    for f in sorted(glob.glob(os.path.join(d, "C*.json"))):
        e = json.load(open(f))
        out[e["property_id"]] = e
    return out


def main():
    quick = load(os.path.join(ROOT, "evidence"))
    thorough = {k: v for k, v in (load(sys.argv[1]) if len(sys.argv) > 1 else {}).items() if v.get("tier") == "thorough"}
    print("| id | quick: cases | distinct non-trivial | of which enumerated | wall (s, 1 core) | thorough: cases | distinct non-trivial | wall (s, 16 cores) |")
    print("|---|---|---|---|---|---|---|---|")
    for pid, e in quick.items():
        c = e["coverage"]
        t = thorough.get(pid)
        tc = t["coverage"] if t else {}
        print(f"| {pid} | {c['evaluations']} | {c['distinct_nontrivial']} | {c.get('exhaustive_subdomain_cases', 0)} | {round(e.get('wall_s', 0))} | "
              f"{tc.get('evaluations', '')} | {tc.get('distinct_nontrivial', '')} | {round(t['wall_s'], 1) if t else ''} |")


if __name__ == "__main__":
    main()
