#!/venv/bin/python
"""
Single entry point:  run_check.py <ID> [--tier quick|thorough] [--replay FILE] [--repo DIR]

exit 0: property held on everything explored (KNOWN-FINDING lines may be printed)
exit 1: violation, with a line  VIOLATION property=<id> replay=<path>
exit 2: harness error (never reported as a violation)
"""
import glob
import importlib
import os
import sys

ROOT = os.path.dirname(os.path.abspath(__file__))


def main():
    if len(sys.argv) < 2:
        print(__doc__)
        return 2
    pid = sys.argv[1]
    rest = sys.argv[2:]
    if os.environ.get("PYTHONHASHSEED") != "0":
        env = dict(os.environ)
        env["PYTHONHASHSEED"] = "0"
        env.setdefault("PYTHONDONTWRITEBYTECODE", "1")
        os.execve(sys.executable, [sys.executable, os.path.abspath(__file__)] + sys.argv[1:], env)
    sys.path.insert(0, ROOT)
    deps = os.path.join(ROOT, ".deps")
    if os.path.isdir(deps):
        sys.path.append(deps)
    repo = os.environ.get("VERIF_REPO", "/repo")
    if "--repo" in rest:
        repo = rest[rest.index("--repo") + 1]
    os.environ.setdefault("RALLY_HOME", os.path.join("/tmp", "verif-rally-home"))
    import logging

    logging.disable(logging.CRITICAL)  # Rally logs expected failures at ERROR level; the checks observe behaviour, not logs
    import warnings

    # AsyncIoAdapter.run() creates the executors' coroutines before it awaits them: when an injected fault makes it fail in between,
    # Python notes at garbage collection that they never ran
    warnings.filterwarnings("ignore", message="coroutine .* was never awaited", category=RuntimeWarning)
    from vlib import core

    try:
        core.use_repo(repo)
    except core.HarnessError as e:
        print(f"HARNESS-ERROR property={pid}: {e}", file=sys.stderr)
        return 2
    matches = glob.glob(os.path.join(ROOT, "checks", pid.lower() + "_*.py"))
    if len(matches) != 1:
        print(f"HARNESS-ERROR property={pid}: no unique check module for {pid}", file=sys.stderr)
        return 2
    modname = "checks." + os.path.basename(matches[0])[:-3]
    try:
        check = importlib.import_module(modname)
    except Exception:  # pylint: disable=broad-except
        import traceback

        print(f"HARNESS-ERROR property={pid}: cannot import {modname}\n{traceback.format_exc()}", file=sys.stderr)
        return 2
    return core.main(check, rest)


if __name__ == "__main__":
    sys.exit(main())
