"""
lab/allocator_oracle.py - the structural invariants of C02 on driver.Allocator, shared by C02 (generated and filtered schedules) and
C11 ("the filtered track is runnable"). Everything is recomputed from the schedule objects handed to the allocator (task.clients,
the parallel cap given by the caller) - never from the allocator's own results.
"""
from esrally import track
from esrally.driver import driver


def _names(tasks):
    return sorted(t.name for t in tasks)


def check_allocator(schedule, cap_of, obs, *, prefix="", empty_sig=None):
    """
    :param schedule: list of real track.Task / track.Parallel objects (what Driver.start_benchmark hands to Allocator)
    :param cap_of: function Parallel -> its "clients" cap (None when not written), taken from the spec by the caller
    :param prefix: prepended to every violation signature
    :param empty_sig: signature to use for the steps / progress-entry clauses when the schedule holds a Parallel without tasks and
                      the caller expects that (known finding region); otherwise "<prefix>steps/empty-parallel-unexpected"
    :return: {"clients": rows, "has_empty": bool, "capped": bool (some parallel whose cap differs from the sum of its tasks' clients)}
    """
    P = prefix
    info = {"clients": None, "has_empty": False, "capped": False}
    # what each element of the schedule handed to the allocator requests
    elements = []  # (tasks, element clients, completing task objects, any-completes task objects)
    has_empty = False
    for el in schedule:
        if isinstance(el, track.Parallel):
            tasks = list(el.tasks)
            cap = cap_of(el)
            total = sum(t.clients for t in tasks)
            clients = cap if cap is not None else total
            if not tasks:
                has_empty = info["has_empty"] = True
            if cap is not None and cap < total:
                obs.cls("parallel:cap-below-sum")
                info["capped"] = True
            elif cap is not None and cap > total:
                obs.cls("parallel:cap-above-sum")
                info["capped"] = True
            elif cap is not None:
                obs.cls("parallel:cap-equal-sum")
            obs.cls("parallel")
        else:
            tasks, clients = [el], el.clients
        completing = [t for t in tasks if t.completes_parent]
        any_completing = [t for t in tasks if t.any_completes_parent and not t.completes_parent]
        if completing:
            obs.cls("completed-by:task")
        if any_completing:
            obs.cls("completed-by:any")
        elements.append((tasks, clients, completing, any_completing))

    allocator = driver.Allocator(schedule)
    n = info["clients"] = allocator.clients
    allocs = allocator.allocations
    join_points = allocator.join_points
    per_jp = allocator.tasks_per_joinpoint

    # ---- rows
    # upper bound: the largest element (its cap, else the sum of its tasks' clients); lower bound: what the largest element needs so that
    # every task gets its own clients as far as a cap allows
    upper = max([1] + [c for _, c, _, _ in elements])
    lower = max([1] + [min(c, sum(t.clients for t in tasks)) for tasks, c, _, _ in elements])
    obs.check(lower <= n <= upper, P + "matrix/rows", f"Allocator.clients={n}, the largest element needs between {lower} and {upper} clients")
    if not obs.check(len(allocs) == n and n >= 1, P + "matrix/rows", f"{len(allocs)} rows for Allocator.clients={n}"):
        return info
    if any(sum(t.clients for t in tasks) > n for tasks, _, _, _ in elements):
        obs.cls("wrap-around")
    # ---- rectangular
    width = len(allocs[0])
    if not obs.check(all(len(r) == width for r in allocs), P + "matrix/ragged", f"row lengths {[len(r) for r in allocs]}"):
        return info
    # ---- join points aligned, consecutive ids, one more than elements
    jp_cols = [c for c in range(width) if isinstance(allocs[0][c], driver.JoinPoint)]
    for r, row in enumerate(allocs):
        cols = [c for c in range(width) if isinstance(row[c], driver.JoinPoint)]
        if not obs.check(cols == jp_cols, P + "joinpoints/misaligned", f"row {r} has join points in columns {cols}, row 0 in {jp_cols}"):
            return info
        obs.check(
            all(row[c].id == allocs[0][c].id for c in cols), P + "joinpoints/misaligned", lambda r=r: f"row {r} holds different join points than row 0"
        )
    ids = [allocs[0][c].id for c in jp_cols]
    obs.check(ids == list(range(len(ids))), P + "joinpoints/ids", f"join point ids {ids}")
    obs.check([j.id for j in join_points] == ids, P + "joinpoints/ids", "Allocator.join_points differs from the join points of row 0")
    if not obs.check(
        len(jp_cols) == len(elements) + 1 and jp_cols and jp_cols[0] == 0 and jp_cols[-1] == width - 1,
        P + "joinpoints/count",
        f"{len(jp_cols)} join points in columns {jp_cols} (width {width}) for {len(elements)} schedule elements",
    ):
        return info

    # ---- per element: exactly-once allocations between its two join points
    for k, (tasks, clients, completing, any_completing) in enumerate(elements):
        lo, hi = jp_cols[k], jp_cols[k + 1]
        got = []
        rows_of = {}
        for r in range(n):
            for c in range(lo + 1, hi):
                a = allocs[r][c]
                if a is None:
                    continue
                if not obs.check(isinstance(a, driver.TaskAllocation), P + "element/allocations", f"element {k}: unexpected entry {a!r}"):
                    continue
                got.append((id(a.task), a.client_index_in_task))
                rows_of.setdefault(id(a.task), set()).add(r)
                obs.check(
                    a.total_clients == clients,
                    P + "element/total-clients",
                    lambda a=a: f"element {k}: total_clients={a.total_clients} on {a!r}, the element has {clients} clients",
                )
        want = [(id(t), i) for t in tasks for i in range(t.clients)]
        obs.check(
            sorted(got) == sorted(want),
            P + "element/allocations",
            lambda: f"element {k} ({_names(tasks)} with clients {[t.clients for t in tasks]}): allocated (task, client index) pairs "
            f"{sorted((next((t.name for t in tasks if id(t) == i), '?'), j) for i, j in got)}",
        )
        for t in tasks:
            # as many clients as it requests (all of them when the element is over-committed)
            obs.check(
                len(rows_of.get(id(t), ())) == min(t.clients, n),
                P + "element/distinct-clients",
                lambda t=t: f"element {k}: task {t.name} requests {t.clients} clients and runs on clients {sorted(rows_of.get(id(t), ()))} of {n}",
            )
        jp = allocs[0][hi]
        want_completing = set().union(*[rows_of.get(id(t), set()) for t in completing]) if completing else set()
        want_any = set().union(*[rows_of.get(id(t), set()) for t in any_completing]) if any_completing else set()
        obs.check(
            set(jp.clients_executing_completing_task) == want_completing,
            P + "completing-clients",
            lambda: f"element {k}: clients_executing_completing_task={jp.clients_executing_completing_task}, rows holding the completing task: {sorted(want_completing)}",
        )
        obs.check(
            set(jp.any_task_completes_parent) == want_any,
            P + "completing-clients",
            lambda: f"element {k}: any_task_completes_parent={jp.any_task_completes_parent}, rows holding such tasks: {sorted(want_any)}",
        )

    # ---- one progress entry per step (what Driver.update_progress_message indexes with current_step)
    steps = len(join_points) - 1
    if has_empty and empty_sig:
        sig_len = sig_set = empty_sig
    elif has_empty:
        sig_len = sig_set = P + "steps/empty-parallel-unexpected"
    else:
        sig_len, sig_set = P + "steps/progress-entries", P + "steps/task-set"
    if obs.check(
        len(per_jp) == steps,
        sig_len,
        f"the race walks through {steps} steps but tasks_per_joinpoint has {len(per_jp)} entries "
        f"(elements: {[_names(t) for t, _, _, _ in elements]}) - Driver.update_progress_message indexes it with the step number",
    ):
        for k, (tasks, _, _, _) in enumerate(elements):
            obs.check(
                sorted(id(t) for t in per_jp[k]) == sorted(id(t) for t in tasks),
                sig_set,
                lambda: f"step {k}: progress entry {_names(per_jp[k])}, element holds {_names(tasks)}",
            )
    return info
