"""
E3: corpus contents, archive builders and initial disk states - all pure functions of their arguments (byte-for-byte reproducible).
"""
from __future__ import annotations

import bz2
import functools
import gzip
import io
import json
import os
import tarfile
import zipfile

import zstandard

FORMATS = [".bz2", ".gz", ".zst", ".zip", ".tar.gz", ".tgz", ".tar.bz2", ".tar"]
TAR_FAMILY = (".tar.gz", ".tgz", ".tar.bz2", ".tar")
# formats for which damage in the middle of the archive (size kept) is noticed by the way Rally decompresses them (probed):
# not plain .tar (no checksum) and not .tar.gz/.tgz (tarfile.extractall never reads the gzip trailer, so the CRC is not verified)
CHECKSUMMED = (".bz2", ".gz", ".zst", ".zip", ".tar.bz2")

T_PUBLISHED = 1_600_000_000  # mtime of members inside tar/zip archives
T_DOC = 1_700_000_000  # mtime of a pre-existing document file
T_ARCHIVE = T_DOC - 100
AGE = {"older": -50, "same": 0, "newer": 50}

_WORDS = ["alpha", "Bérénice", "größe", "naïve", "€uro", "日本語", "中文", "😀", "𝄞clef", "tab\\t", "q\"uote", "ω", "x"]


@functools.lru_cache(maxsize=64)
def corpus(n_docs, style="mixed", eol="\n", trailing=True, meta=False, salt=0):
    """
    Document file content: n_docs JSON documents, one per line (preceded by an action-and-meta-data line each when meta=True).
    style: "ascii" | "mixed" (2-, 3- and 4-byte UTF-8 code points) | "short" (for the > 50 000 line class)
    """
    lines = []
    for i in range(n_docs):
        h = (i * 2654435761 + salt * 40503 + 12345) & 0xFFFFFFFF
        if meta:
            lines.append('{"index":{"_id":"%d"}}' % (i + salt))
        if style == "short":
            lines.append('{"i":%d}' % (i + salt) if h % 7 else '{"i":%d,"é":"€"}' % (i + salt))
        elif style == "ascii":
            lines.append(json.dumps({"id": i + salt, "name": "doc-%d" % (h % 1000), "pad": "x" * (h % 23)}))
        else:
            words = [_WORDS[(h >> s) % len(_WORDS)] for s in (0, 4, 8)][: 1 + h % 3]
            lines.append(json.dumps({"id": i + salt, "t": " ".join(words), "n": h % 97}, ensure_ascii=False))
    text = eol.join(lines)
    if trailing and lines:
        text += eol
    return text.encode("utf-8")


@functools.lru_cache(maxsize=32)
def line_starts(content):
    """byte offset at which a reader stands after skipping n lines one by one (index n), for n = 0..number_of_lines"""
    pos = [0]
    i = content.find(b"\n")
    while i != -1:
        pos.append(i + 1)
        i = content.find(b"\n", i + 1)
    if pos[-1] != len(content):
        pos.append(len(content))  # last line without a newline
    return tuple(pos)


def count_lines(content):
    n = content.count(b"\n")
    if content and not content.endswith(b"\n"):
        n += 1
    return n


@functools.lru_cache(maxsize=32)
def reference_offset_table(content, every=50000):
    starts = line_starts(content)
    n = len(starts) - 1
    return "".join(f"{k};{starts[k]}\n" for k in range(every, n + 1, every)).encode("ascii")


def _tar(member_name, content, mode):
    buf = io.BytesIO()
    if mode == "w:gz":
        # gzip header without a timestamp so that the bytes are reproducible
        gz = gzip.GzipFile(fileobj=buf, mode="wb", mtime=0, filename="")
        tf = tarfile.open(fileobj=gz, mode="w", format=tarfile.GNU_FORMAT)
    else:
        gz = None
        tf = tarfile.open(fileobj=buf, mode=mode, format=tarfile.GNU_FORMAT)
    ti = tarfile.TarInfo(member_name)
    ti.size = len(content)
    ti.mtime = T_PUBLISHED
    ti.mode = 0o644
    tf.addfile(ti, io.BytesIO(content))
    tf.close()
    if gz is not None:
        gz.close()
    return buf.getvalue()


@functools.lru_cache(maxsize=128)
def archive(fmt, member_name, content):
    """the published archive for a document file; member_name is the name the document file gets when extracted"""
    if fmt == ".bz2":
        return bz2.compress(content, 9)
    if fmt == ".gz":
        return gzip.compress(content, 6, mtime=0)
    if fmt == ".zst":
        return zstandard.ZstdCompressor(level=3, write_checksum=True, write_content_size=True).compress(content)
    if fmt == ".zip":
        buf = io.BytesIO()
        with zipfile.ZipFile(buf, "w", zipfile.ZIP_DEFLATED) as z:
            zi = zipfile.ZipInfo(member_name, date_time=(2020, 9, 13, 12, 26, 40))
            zi.compress_type = zipfile.ZIP_DEFLATED
            zi.external_attr = 0o644 << 16
            z.writestr(zi, content)
        return buf.getvalue()
    if fmt in (".tar.gz", ".tgz"):
        return _tar(member_name, content, "w:gz")
    if fmt == ".tar.bz2":
        return _tar(member_name, content, "w:bz2")
    if fmt == ".tar":
        return _tar(member_name, content, "w")
    raise ValueError(fmt)


def write_file(path, content, mtime=None):
    with open(path, "wb") as f:
        f.write(content)
    if mtime is not None:
        os.utime(path, (mtime, mtime))


def snapshot(*dirs):
    """{relative name: (size, mtime_ns, content)} of every regular file below the directories"""
    out = {}
    for d in dirs:
        for root, _, files in os.walk(d):
            for name in files:
                p = os.path.join(root, name)
                with open(p, "rb") as f:
                    data = f.read()
                out[p] = (len(data), os.stat(p).st_mtime_ns, data)
    return out
