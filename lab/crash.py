"""
E3: crash points. Runs a callable in a forked child whose file-system side effects below a set of root directories are
counted as *events*:

    open-w     builtins.open / tarfile.bltn_open of a file for writing (about to create / truncate it)
    write      .write() on a file object obtained that way
    close      closing such a file object (dying before it loses what is still buffered)
    rename     os.rename        remove  os.remove        run  subprocess.run

When `crash_after` events have completed and the next one is about to happen the child dies with os._exit(137): no `finally`
block runs, no buffered data is flushed - process death, not power loss. With `torn` (a position in 1/1024) and the next
event being a write, everything written so far plus that leading part of the pending data reaches the disk first; this
is the small-scale picture of what buffer-sized flushes do on large files (a kill between two flushes leaves a prefix that
ends anywhere relative to line structure).

With crash_after=None the callable runs to its end (returned / raised) in the child.

    result = run_in_child(fn, roots=[tmpdir], crash_after=3, torn=None)
    result = {"status": "crashed"|"returned"|"raised", "events": [[kind, basename], ...], "exception": "DataError"|None,
              "died_before": [kind, basename]|None, "raised_in": [function names of the traceback, outermost first]|None}
"""
from __future__ import annotations

import builtins
import json
import os
import subprocess
import sys
import tarfile
import traceback
import warnings

EXIT_CRASH = 137


class _Control:
    def __init__(self, roots, crash_after, torn, report_fd):
        self.roots = [os.path.realpath(r) + os.sep for r in roots]
        self.crash_after = crash_after
        self.torn = torn
        self.report_fd = report_fd
        self.events = []
        self.raised_in = None

    def watched(self, path):
        try:
            p = os.path.realpath(os.fspath(path))
        except TypeError:
            return False
        if isinstance(p, bytes):
            p = p.decode("utf-8", "replace")
        return any((p + os.sep).startswith(r) or p.startswith(r) for r in self.roots)

    def event(self, kind, path, fobj=None, data=None):
        name = os.path.basename(os.fspath(path)) if path is not None else ""
        if self.crash_after is not None and len(self.events) >= self.crash_after:
            if self.torn is not None and kind == "write" and fobj is not None and data:
                try:
                    fobj.flush()
                    raw = data.encode(getattr(fobj, "encoding", None) or "utf-8") if isinstance(data, str) else bytes(data)
                    k = min(len(raw) - 1, (len(raw) * self.torn) // 1024) if len(raw) > 0 else 0
                    if k > 0:
                        os.write(fobj.fileno(), raw[:k])
                except (OSError, ValueError):
                    pass
            self.die([kind, name])
        self.events.append([kind, name])

    def report(self, status, exception=None, died_before=None):
        msg = json.dumps(
            {"status": status, "events": self.events, "exception": exception, "died_before": died_before, "raised_in": self.raised_in}
        ).encode()
        try:
            os.write(self.report_fd, msg)
        except OSError:
            pass

    def die(self, before):
        self.report("crashed", died_before=before)
        os._exit(EXIT_CRASH)


class _WriteProxy:
    """file object whose write() is an event; everything else is delegated"""

    def __init__(self, f, ctl, path):
        object.__setattr__(self, "_f", f)
        object.__setattr__(self, "_ctl", ctl)
        object.__setattr__(self, "_path", path)

    def write(self, data):
        self._ctl.event("write", self._path, self._f, data)
        return self._f.write(data)

    def writelines(self, lines):
        for line in lines:
            self.write(line)

    def __getattr__(self, name):
        return getattr(self._f, name)

    def __setattr__(self, name, value):
        setattr(self._f, name, value)

    def close(self):
        if not self._f.closed:
            self._ctl.event("close", self._path)
        return self._f.close()

    def __enter__(self):
        self._f.__enter__()
        return self

    def __exit__(self, *a):
        if not self._f.closed:
            self._ctl.event("close", self._path)
        return self._f.__exit__(*a)

    def __iter__(self):
        return iter(self._f)

    def __next__(self):
        return next(self._f)


def _install(ctl):
    real_open = builtins.open
    real_rename = os.rename
    real_remove = os.remove
    real_run = subprocess.run

    def counted_open(file, mode="r", *args, **kwargs):
        writing = isinstance(mode, str) and any(c in mode for c in "wax+")
        if writing and not isinstance(file, int) and ctl.watched(file):
            ctl.event("open-w", file)
            return _WriteProxy(real_open(file, mode, *args, **kwargs), ctl, file)
        return real_open(file, mode, *args, **kwargs)

    def counted_rename(src, dst, *args, **kwargs):
        if ctl.watched(dst):
            ctl.event("rename", dst)
        return real_rename(src, dst, *args, **kwargs)

    def counted_remove(path, *args, **kwargs):
        if ctl.watched(path):
            ctl.event("remove", path)
        return real_remove(path, *args, **kwargs)

    def counted_run(*args, **kwargs):
        out = kwargs.get("stdout")
        ctl.event("run", getattr(out, "_path", None) or "")
        if isinstance(out, _WriteProxy):
            kwargs["stdout"] = out._f  # pylint: disable=protected-access
        return real_run(*args, **kwargs)

    builtins.open = counted_open
    tarfile.bltn_open = counted_open
    os.rename = counted_rename
    os.remove = counted_remove
    subprocess.run = counted_run


def run_in_child(fn, roots, crash_after=None, torn=None, before=None):
    """
    fn() is executed in a forked child (after the optional `before()` hook, e.g. to reset connection pools).
    Returns the report dict described in the module docstring. The parent's state is untouched.
    """
    rfd, wfd = os.pipe()
    sys.stdout.flush()
    sys.stderr.flush()
    with warnings.catch_warnings():
        warnings.simplefilter("ignore", DeprecationWarning)  # fork() in a process that has a (server) thread
        pid = os.fork()
    if pid == 0:
        status = 0
        try:
            os.close(rfd)
            ctl = _Control(roots, crash_after, torn, wfd)
            if before is not None:
                before()
            _install(ctl)
            try:
                fn()
                ctl.report("returned")
            except BaseException as e:  # pylint: disable=broad-except
                ctl.raised_in = [fr.name for fr in traceback.extract_tb(e.__traceback__)]
                ctl.report("raised", exception=type(e).__name__)
                status = 3
        finally:
            os._exit(status)
    os.close(wfd)
    chunks = []
    while True:
        b = os.read(rfd, 65536)
        if not b:
            break
        chunks.append(b)
    os.close(rfd)
    _, wstatus = os.waitpid(pid, 0)
    code = os.waitstatus_to_exitcode(wstatus)
    raw = b"".join(chunks)
    if not raw:
        return {"status": "lost", "events": [], "exception": None, "died_before": None, "exit": code}
    rep = json.loads(raw)
    rep["exit"] = code
    return rep
